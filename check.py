#!/venv/bin/python
"""Entry point: ``check.py <Cxx> --tier quick|thorough`` (see DESIGN.md section 5).

Exit 0: property held on everything analysed (KNOWN-FINDING lines possible).
Exit 1: ``VIOLATION property=<id> replay=<path>`` for a finding not listed in
        known_findings.json.
Exit 2: ``ANALYSIS-ERROR`` -- the analysis could not run; no verdict.
"""

from __future__ import annotations

import argparse
import importlib
import json
import os
import sys

sys.dont_write_bytecode = True
HERE = os.path.dirname(os.path.abspath(__file__))
sys.path.insert(0, HERE)

from sa.report import run_property  # noqa: E402

PROPS = [f"C{i:02d}" for i in range(1, 21)]


def rule_fn(prop: str):
    mod = importlib.import_module(f"sa.rules.{prop}")
    return mod.check


def main(argv: list[str] | None = None) -> int:
    ap = argparse.ArgumentParser()
    ap.add_argument("prop", nargs="?")
    ap.add_argument("--tier", default=os.environ.get("VERIF_TIER", "quick"), choices=["quick", "thorough"])
    ap.add_argument("--root", default=os.environ.get("VERIF_REPO_ROOT", "/repo"))
    ap.add_argument("--replay")
    ap.add_argument("--all", action="store_true")
    ap.add_argument("--no-evidence", action="store_true")
    args = ap.parse_args(argv)
    try:
        seed = int(os.environ.get("VERIF_SEED", "0"))
    except ValueError:
        seed = 0

    if args.replay:
        with open(args.replay) as f:
            rec = json.load(f)
        prop = rec["property"]
        from sa.index import Repo
        from sa.report import Ctx

        ctx = Ctx(Repo(args.root), prop, "quick", seed)
        try:
            rule_fn(prop)(ctx)
        except Exception as e:  # noqa: BLE001
            print(f"ANALYSIS-ERROR property={prop} {e}")
            return 2
        key = (rec["rule"], rec["function"], rec["construct"])
        for ob in ctx.obligations:
            for fnd in ob.findings:
                if fnd.key() == key:
                    print(f"{fnd.file}:{fnd.line}: [{fnd.rule}] {fnd.function}: {fnd.message}")
                    print(f"VIOLATION property={prop} replay={args.replay}")
                    return 1
        print(f"[{prop}] replayed finding no longer present: {key}")
        return 0

    props = PROPS if args.all else [args.prop]
    if not props or props == [None]:
        ap.error("property id required")
    rc = 0
    for p in props:
        if p not in PROPS:
            ap.error(f"unknown property {p}")
        r = run_property(p, rule_fn(p), args.tier, seed, args.root, write_evidence=not args.no_evidence)
        if args.tier == "thorough" and r != 2:
            try:
                from selftest.run import run_selftest

                r2 = run_selftest(p, seed, args.root)
                if r2 == 2 and r == 0:
                    r = 2
            except ImportError:
                pass
        rc = max(rc, r)
    return rc


if __name__ == "__main__":
    try:
        sys.exit(main())
    except SystemExit:
        raise
    except BaseException:  # noqa: BLE001
        import traceback

        print("ANALYSIS-ERROR internal error\n" + traceback.format_exc())
        sys.exit(2)
