#!/venv/bin/python
"""Regenerate MANIFEST.json from sa/props.py (claimed = rule module exists)."""
import json, os, sys
HERE = os.path.dirname(os.path.dirname(os.path.abspath(__file__)))
sys.path.insert(0, HERE)
from sa.props import PROPS, NOT_APPLICABLE

checks = []
na = []
for pid, p in PROPS.items():
    if os.path.exists(os.path.join(HERE, "sa", "rules", pid + ".py")) and pid not in NOT_APPLICABLE:
        checks.append({
            "property_id": pid,
            "quick_cmd": f"/venv/bin/python check.py {pid} --tier quick",
            "thorough_cmd": f"/venv/bin/python check.py {pid} --tier thorough",
            "evidence_file": f"/verif/evidence/{pid}.json",
            "replay_cmd_template": "/venv/bin/python check.py --replay {path}",
            "engine": "sa",
            "level_claimed": {"category": "other", "text": p["text"], "design_ref": f"DESIGN.md section 3 {pid}"},
            "level_note": p["note"],
            "technique": p["technique"],
        })
    else:
        na.append({"property_id": pid, "reason": NOT_APPLICABLE.get(pid, "check not built yet (work in progress)")})
m = {
    "version": 1,
    "setup_cmd": "/venv/bin/python -m compileall -q sa selftest check.py >/dev/null 2>&1; /venv/bin/python check.py --help >/dev/null",
    "hooks": {
        "guard": "EXECNET_VERIF_HOOKS",
        "enable": "none needed: the checks parse /repo/src/execnet with ast and never import or run it; the guard is never read",
        "baseline_off_cmd": "cd /repo && /venv/bin/python -m pytest -ra -q -p no:cacheprovider --timeout=900 --continue-on-collection-errors",
        "source_commits": [],
        "add_only": True,
    },
    "engines": [{
        "name": "sa", "path": "/verif/sa",
        "serves_properties": [c["property_id"] for c in checks],
        "kind_free_text": "repository-specific static analysis on CPython ast: program index with call/field-type resolution, statement CFG with exceptional edges, must-pass-through and dominance queries, lock-set and may-raise effect analyses, wire-term agreement, symtable name closure",
    }],
    "checks": checks,
    "notes": "All checks are static: they inspect /repo/src/execnet on every run. Exit 2 + ANALYSIS-ERROR means the analysis could not run (vanished anchor / unknown idiom), never a verdict. Genuine defects found on the pinned tree were repaired by 'fix:' commits in /repo or are listed in known_findings.json.",
    "not_applicable": na,
}
with open(os.path.join(HERE, "MANIFEST.json"), "w") as f:
    json.dump(m, f, indent=1)
print("checks:", [c["property_id"] for c in checks], "n/a:", [x["property_id"] for x in na])
