#!/bin/bash
# usage: confirm_seed.sh <worktree> <seedout/X dir>   -> prints one JSON line with the confirmation results
WT=$1; SD=$2
cd "$WT" || exit 2
[ -f src/execnet/_version.py ] || cp /venv/lib/python3.12/site-packages/execnet/_version.py src/execnet/_version.py
git checkout -q -- . 
clean=$(cd /tmp && PYTHONPATH=$WT/src timeout 120 /venv/bin/python $SD/demo.py >/tmp/confirm_clean.$$ 2>&1; echo $?)
git apply "$SD/patch.diff" || { echo "{\"seed\":\"$SD\",\"error\":\"patch does not apply\"}"; exit 1; }
/venv/bin/python -m compileall -q src >/dev/null 2>&1; comp=$?
broken=$(cd /tmp && PYTHONPATH=$WT/src timeout 120 /venv/bin/python $SD/demo.py >/tmp/confirm_broken.$$ 2>&1; echo $?)
msg=$(tail -2 /tmp/confirm_broken.$$ | tr '\n"' ' _' | cut -c1-200)
suite=$(env -u PYTHONDONTWRITEBYTECODE PYTHONPATH=$WT/src timeout 1500 /venv/bin/python -m pytest -q -p no:cacheprovider -n 6 --timeout=300 testing 2>&1 | tail -1 | tr '"' '_')
git checkout -q -- .
rm -f /tmp/confirm_clean.$$ /tmp/confirm_broken.$$
find src -name __pycache__ -type d -exec rm -rf {} + 2>/dev/null
echo "{\"seed\":\"$SD\",\"demo_clean_exit\":$clean,\"demo_patched_exit\":$broken,\"compiles\":$comp,\"suite\":\"$suite\",\"patched_msg\":\"$msg\"}"
