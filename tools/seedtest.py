#!/venv/bin/python
"""Run the checks against a scratch copy of /repo/src with a seeded patch applied.

usage: seedtest.py <dir with patch.diff> [props...]   (default: all built checks)
Prints, per property, which obligations fired.  Scratch copy under a fresh
mkdtemp outside /repo and /verif, removed afterwards.
"""
import glob, json, os, shutil, subprocess, sys, tempfile
HERE = os.path.dirname(os.path.dirname(os.path.abspath(__file__)))
sys.path.insert(0, HERE)
sys.dont_write_bytecode = True

def run(patchdir, props=None):
    from sa.index import Repo
    from sa.report import Ctx, load_known, match_known
    import importlib
    patchdir = os.path.abspath(patchdir)
    tmp = tempfile.mkdtemp(prefix="seedrun-")
    try:
        shutil.copytree("/repo/src", os.path.join(tmp, "src"))
        r = subprocess.run(["patch", "-p1", "-s", "-i", os.path.join(patchdir, "patch.diff")], cwd=tmp, capture_output=True, text=True)
        if r.returncode != 0:
            return {"error": "patch failed: " + r.stdout + r.stderr}
        props = props or sorted(os.path.basename(p)[:-3] for p in glob.glob(os.path.join(HERE, "sa/rules/C*.py")))
        known = load_known()
        out = {}
        for p in props:
            try:
                ctx = Ctx(Repo(tmp), p, "quick", 0)
                importlib.import_module(f"sa.rules.{p}").check(ctx)
                fired = []
                for ob in ctx.obligations:
                    if ob.error:
                        fired.append(f"ANALYSIS-ERROR {ob.id}: {ob.error[:140]}")
                    for f in ob.findings:
                        if match_known(f, known) is None:
                            fired.append(f"{f.rule} {f.function}: {f.message[:100]}")
                if fired:
                    out[p] = fired
            except Exception as e:  # noqa
                out[p] = [f"ANALYSIS-ERROR {type(e).__name__}: {str(e)[:160]}"]
        return out
    finally:
        shutil.rmtree(tmp, ignore_errors=True)

if __name__ == "__main__":
    res = run(sys.argv[1], sys.argv[2:] or None)
    print(json.dumps(res, indent=1))
