#!/bin/bash
# usage: confirm_ref.sh <worktree> <refout/Rk dir>  -> one JSON line
WT=$1; SD=$2
cd "$WT" || exit 2
[ -f src/execnet/_version.py ] || cp /venv/lib/python3.12/site-packages/execnet/_version.py src/execnet/_version.py
git checkout -q -- .
clean=$(cd /tmp && PYTHONPATH=$WT/src timeout 150 /venv/bin/python $SD/demo.py >/dev/null 2>&1; echo $?)
git apply "$SD/patch.diff" || { echo "{\"ref\":\"$SD\",\"error\":\"patch does not apply\"}"; exit 1; }
/venv/bin/python -m compileall -q src >/dev/null 2>&1; comp=$?
with=$(cd /tmp && PYTHONPATH=$WT/src timeout 150 /venv/bin/python $SD/demo.py >/dev/null 2>&1; echo $?)
suite=$(env -u PYTHONDONTWRITEBYTECODE PYTHONPATH=$WT/src timeout 1500 /venv/bin/python -m pytest -q -p no:cacheprovider -n 6 --timeout=300 testing 2>&1 | tail -1 | tr '"' '_')
git checkout -q -- .
find src -name __pycache__ -type d -exec rm -rf {} + 2>/dev/null
echo "{\"ref\":\"$SD\",\"demo_clean_exit\":$clean,\"demo_refactored_exit\":$with,\"compiles\":$comp,\"suite\":\"$suite\"}"
