#!/venv/bin/python
"""Copy confirmed behaviour-preserving refactorings into /verif/seeded/<Cxx>-R<k>/ (kind: refactor).
The thorough tier of every check re-runs its rules on each of them and must stay silent."""
import glob, json, os, shutil, sys
HERE = os.path.dirname(os.path.dirname(os.path.abspath(__file__)))
sys.path.insert(0, os.path.join(HERE, "tools")); sys.path.insert(0, HERE)
sys.dont_write_bytecode = True
from seedtest import run

ALL = [f"C{i:02d}" for i in range(1, 21)]
conf = {}
for f in sorted(glob.glob("/tmp/seed/confirm_ref*.jsonl")):
    for l in open(f):
        try:
            d = json.loads(l)
        except Exception:
            continue
        if "ref" in d:
            conf[d["ref"]] = d   # later files override earlier ones
# --open: a refactoring the checks are NOT silent on (a documented limit): stored under seeded_open/, never used as a trial
OPEN = "--open" in sys.argv
only = [a for a in sys.argv[1:] if a != "--open"]
for sd, c in sorted(conf.items()):
    prop, x = sd.split("/")[3], sd.split("/")[5]
    name = f"{prop}-{x}"
    if only and name not in only:
        continue
    ok = c.get("demo_clean_exit") == 0 and c.get("demo_refactored_exit") == 0 and c.get("compiles") == 0 and " failed" not in c.get("suite", "") and "644 passed" in c.get("suite", "")
    if not ok:
        print("NOT CONFIRMED", name, {k: c.get(k) for k in ("demo_clean_exit", "demo_refactored_exit", "suite")})
        continue
    dst = os.path.join(HERE, "seeded_open" if OPEN else "seeded", name)
    os.makedirs(dst, exist_ok=True)
    for fn in ("patch.diff", "demo.py"):
        shutil.copy(os.path.join(sd, fn), os.path.join(dst, fn))
    try:
        meta = json.load(open(os.path.join(sd, "meta.json")))
    except Exception:
        meta = {"property": prop}
    res = run(dst)
    meta.update({
        "property": prop, "kind": "refactor", "origin": "independent sub-agent given only the property text and a scratch worktree",
        "must_stay_silent": [] if OPEN else ALL,
        **({"open_limit": "behaviour-preserving, but at least one check reports an alarm or an analysis error on it: see DESIGN.md 0.5 (round 4) and section 7"} if OPEN else {}),
        "confirmed_by_me": {
            "demo_without_change_exit": c["demo_clean_exit"], "demo_with_change_exit": c["demo_refactored_exit"],
            "suite_against_changed_source": c["suite"],
            "commands": ["tools/confirm_ref.sh <worktree> <refactoring dir>  (clean demo, git apply, compileall, demo, full suite with PYTHONPATH=<worktree>/src, git checkout)"],
        },
        "checks_silent_when_stored": not res,
        "alarms_when_stored": res or {},
    })
    json.dump(meta, open(os.path.join(dst, "meta.json"), "w"), indent=1)
    print(name, "silent" if not res else f"ALARMS {res}")
