#!/venv/bin/python
"""Re-run all 20 checks on every stored breaking seed and refresh caught_by / expected_to_fire /
own_property_check_fires in its meta.json (the confirmation record is left untouched)."""
import glob, json, os, sys
from concurrent.futures import ProcessPoolExecutor
HERE = os.path.dirname(os.path.dirname(os.path.abspath(__file__)))
sys.path.insert(0, os.path.join(HERE, "tools"))
sys.path.insert(0, HERE)
sys.dont_write_bytecode = True
from seedtest import run


def one(d):
    mp = os.path.join(d, "meta.json")
    meta = json.load(open(mp))
    if meta.get("kind") != "break":
        return None
    res = run(d)
    if not isinstance(res, dict) or "error" in res:
        return (d, "ERROR", res)
    caught = {p: v for p, v in res.items() if any(not m.startswith("ANALYSIS-ERROR") for m in v)}
    prop = meta["property"]
    meta["caught_by"] = {p: sorted({m.split(":")[0] for m in v if not m.startswith("ANALYSIS-ERROR")}) for p, v in caught.items()}
    meta["expected_to_fire"] = sorted(caught)
    meta["own_property_check_fires"] = prop in caught
    json.dump(meta, open(mp, "w"), indent=1)
    return (d, prop in caught, sorted(caught))


if __name__ == "__main__":
    dirs = sorted(glob.glob(os.path.join(HERE, "seeded", "*")))
    with ProcessPoolExecutor(4) as ex:
        for r in ex.map(one, dirs):
            if r is not None:
                print(os.path.basename(r[0]), r[1], r[2])
