#!/venv/bin/python
"""debug aid: dump the feasible paths (condition, events, result) of one function.  usage: dumpterms.py <qualname> [root] [patch.diff]"""
import ast, os, shutil, subprocess, sys, tempfile
sys.path.insert(0, os.path.dirname(os.path.dirname(os.path.abspath(__file__))))
sys.dont_write_bytecode = True
from sa.index import Repo
from sa.terms import evaluator, show

q = sys.argv[1]
root = sys.argv[2] if len(sys.argv) > 2 else "/repo"
tmp = None
if len(sys.argv) > 3:
    tmp = tempfile.mkdtemp(); shutil.copytree(os.path.join(root, "src"), tmp + "/src")
    subprocess.run(["patch", "-p1", "-s", "-i", sys.argv[3]], cwd=tmp); root = tmp
r = Repo(root)
f = r.func(q)
ev = evaluator(r, f)
heads = {n.id for n in ev.cfg.nodes if n.kind in ("test", "for") and isinstance(n.owner, (ast.While, ast.For))}
for p, st in ev.run(back_stops=heads, limit=100000):
    end = ev.cfg.nodes[p[-1][0]]
    print("==", end.kind, "@", end.line, "back" if p[-1][0] in heads else "")
    print("   cond:", [(show(t), v) for t, v in st.cond])
    for e in st.events:
        if e.kind in ("call", "store", "raise", "return", "del") or (e.kind == "assign" and "." in str(e.target)):
            print("   ", e)
    print("   ret:", show(st.ret) if st.ret is not None else None)
if tmp: shutil.rmtree(tmp)
