#!/venv/bin/python
"""Copy confirmed seeded changes into /verif/seeded/<Cxx>-<X>/ with a meta.json that records
what it breaks, what it needs to manifest, what was run to confirm it, and which checks catch it."""
import glob, json, os, shutil, subprocess, sys
HERE = os.path.dirname(os.path.dirname(os.path.abspath(__file__)))
sys.path.insert(0, os.path.join(HERE, "tools"))
sys.path.insert(0, HERE)
sys.dont_write_bytecode = True
from seedtest import run

conf = {}
for f in sorted(glob.glob("/tmp/seed/confirm*.jsonl")):
    for l in open(f):
        try:
            d = json.loads(l)
        except Exception:
            # message contained odd characters: recover the essential fields
            import re
            m = re.search(r'"seed":"([^"]+)","demo_clean_exit":(\d+),"demo_patched_exit":(\d+),"compiles":(\d+),"suite":"([^"]*)"', l)
            if not m:
                continue
            d = {"seed": m.group(1), "demo_clean_exit": int(m.group(2)), "demo_patched_exit": int(m.group(3)), "compiles": int(m.group(4)), "suite": m.group(5)}
        if "seed" in d:
            conf[d["seed"]] = d
only = sys.argv[1:]
for sd, c in sorted(conf.items()):
    prop, x = sd.split("/")[3], sd.split("/")[5]
    name = f"{prop}-{x}"
    if only and name not in only:
        continue
    ok = c.get("demo_clean_exit") == 0 and c.get("demo_patched_exit") not in (0, None) and c.get("compiles") == 0 and " failed" not in c.get("suite", "") and "passed" in c.get("suite", "")
    if not ok:
        print("NOT CONFIRMED", name, c.get("suite"))
        continue
    dst = os.path.join(HERE, "seeded", name)
    os.makedirs(dst, exist_ok=True)
    for fn in ("patch.diff", "demo.py"):
        shutil.copy(os.path.join(sd, fn), os.path.join(dst, fn))
    try:
        meta = json.load(open(os.path.join(sd, "meta.json")))
    except Exception:
        meta = {"property": prop}
    res = run(dst)
    caught = {p: v for p, v in res.items() if any(not m.startswith("ANALYSIS-ERROR") for m in v)} if isinstance(res, dict) else {}
    meta.update({
        "property": prop, "kind": "break", "origin": "independent sub-agent given only the property text and a scratch worktree",
        "confirmed_by_me": {
            "demo_without_change_exit": c["demo_clean_exit"], "demo_with_change_exit": c["demo_patched_exit"],
            "suite_against_changed_source": c["suite"],
            "commands": ["tools/confirm_seed.sh <worktree> <seed dir>  (clean demo, git apply, compileall, demo, full suite with PYTHONPATH=<worktree>/src, git checkout)"],
        },
        "caught_by": {p: [m.split(":")[0] for m in v if not m.startswith("ANALYSIS-ERROR")] for p, v in caught.items()},
        "expected_to_fire": sorted(caught) if prop not in caught else sorted(set([prop]) | set(caught)),
        "own_property_check_fires": prop in caught,
    })
    json.dump(meta, open(os.path.join(dst, "meta.json"), "w"), indent=1)
    print(name, "caught by", {p: sorted({m.split()[0] for m in v}) for p, v in caught.items()} or "NOTHING")
