#!/venv/bin/python
"""Run all checks against every behaviour-preserving refactoring under /tmp/seed/*/refout/* (and /verif/seeded/*
with kind=refactor): expect silence.  Prints FALSE-ALARM / analysis-error per (refactoring, property)."""
import glob, json, os, sys
from concurrent.futures import ProcessPoolExecutor
HERE = os.path.dirname(os.path.dirname(os.path.abspath(__file__)))
sys.path.insert(0, os.path.join(HERE, "tools")); sys.path.insert(0, HERE)
sys.dont_write_bytecode = True
from seedtest import run

def one(d):
    return d, run(d, None)

if __name__ == "__main__":
    dirs = sorted(glob.glob("/tmp/seed/C*/refout/R*")) + sorted(glob.glob("/tmp/seed/C*/refout2/R*")) + sorted(glob.glob("/tmp/seed/C*/refout3/R*")) + sorted(glob.glob("/tmp/seed/C*/refout4/R*")) + sorted(glob.glob("/tmp/seed/C*/refout5/R*")) + [os.path.dirname(p) for p in sorted(glob.glob(os.path.join(HERE, "seeded", "*", "meta.json"))) if json.load(open(p)).get("kind") == "refactor"]
    dirs = [d for d in dirs if os.path.exists(os.path.join(d, "patch.diff"))]
    if len(sys.argv) > 1:
        dirs = [d for d in dirs if any(a in d for a in sys.argv[1:])]
    fa = ae = 0
    with ProcessPoolExecutor(max_workers=14) as ex:
        for d, res in ex.map(one, dirs):
            tag = d.replace("/tmp/seed/", "").replace("/refout2/", "-").replace("/refout3/", "-").replace("/refout4/", "-").replace("/refout5/", "-").replace("/refout/", "-")
            if not res:
                print(f"{tag}: silent")
                continue
            for p, msgs in sorted(res.items()):
                for m in msgs:
                    if m.startswith("ANALYSIS-ERROR") or "ANALYSIS-ERROR" in m[:20]:
                        ae += 1
                        print(f"{tag}: {p} error  | {m[:150]}")
                    else:
                        fa += 1
                        print(f"{tag}: {p} FALSE-ALARM | {m[:150]}")
    print(f"TOTAL refactorings={len(dirs)} false-alarms={fa} analysis-errors={ae}")
