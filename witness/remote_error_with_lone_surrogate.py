import execnet, sys
gw = execnet.makegateway("popen")
ch = gw.remote_exec("raise ValueError('bad \\ud800 text')")
try:
    ch.waitclose(5)
    print("waitclose returned normally")
except ch.RemoteError as e:
    print("RemoteError ok:", repr(str(e))[:80])
except Exception as e:
    print("OTHER", type(e).__name__, e)
    gw.exit(); sys.exit(1)
ch2 = gw.remote_exec("channel.send(1)")
print("second exec:", ch2.receive(5))
gw.exit()
