import os, signal, sys, time, execnet
from execnet import multi
group = execnet.Group()
master = group.makegateway("popen//id=master")
sub = group.makegateway("popen//via=master//id=sub")
pid = sub.remote_exec("import os; channel.send(os.getpid())").receive()
mpid = master.remote_exec("import os; channel.send(os.getpid())").receive()
os.kill(pid, signal.SIGSTOP)
for _ in range(200):
    if open('/proc/%d/stat' % pid).read().split()[2] == 'T':
        break
    time.sleep(0.01)
print('state before terminate', open('/proc/%d/stat' % pid).read().split()[2])
orig_kill = None
import execnet.gateway_io as gio
ok = gio.ProxyIO.kill
def kill(self):
    try:
        r = ok(self); print("ProxyIO.kill returned", r); return r
    except BaseException as e:
        print("ProxyIO.kill raised", repr(e)); raise
gio.ProxyIO.kill = kill
t0 = time.time()
try:
    group.terminate(1.0)
except BaseException as e:
    print("terminate raised", repr(e))
print("terminate took %.1f" % (time.time() - t0))
def alive(p):
    try:
        return open("/proc/%d/stat" % p).read().split()[2]
    except OSError:
        return None
for i in range(60):
    s = alive(pid)
    if s in (None, "Z"):
        break
    time.sleep(0.1)
print("sub state", alive(pid), "master state", alive(mpid))
if alive(pid) not in (None, "Z"):
    os.kill(pid, signal.SIGKILL)
    sys.exit(1)
