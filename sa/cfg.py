"""Statement-level control-flow graph with exceptional edges.

Hand-built over the statement kinds execnet uses.  ``finally`` bodies are
copied once per continuation kind; ``with suppress(E..)`` is a handler for
``E..``.  Exceptional edges come from a pluggable may-raise oracle.

Queries: reachability with deleted nodes (must-pass-through), dominators,
dominating branch guards, acyclic path enumeration.
"""

from __future__ import annotations

import ast
from typing import Callable, Iterable, Iterator

from .index import AnalysisError, FuncInfo, Repo, unparse, walk_no_nested

ANY = "BaseException"


class Node:
    __slots__ = ("id", "kind", "ast", "owner", "copy")

    def __init__(self, id: int, kind: str, node: ast.AST | None, owner: ast.AST | None = None, copy: str = "") -> None:
        self.id = id
        self.kind = kind  # entry return raise stmt test for except with withexit
        self.ast = node
        self.owner = owner  # owning statement for test/for/with nodes
        self.copy = copy  # which finally-copy this node lives in ("" = primary)

    @property
    def line(self) -> int:
        return getattr(self.ast, "lineno", 0) if self.ast is not None else 0

    def __repr__(self) -> str:
        txt = unparse(self.ast).split("\n")[0][:50] if self.ast is not None else ""
        return f"<{self.id}:{self.kind}@{self.line} {txt}>"


class CFG:
    def __init__(self, fi: FuncInfo) -> None:
        self.fi = fi
        self.nodes: list[Node] = []
        self.succ: dict[int, list[tuple[int, str]]] = {}
        self.pred: dict[int, list[tuple[int, str]]] = {}
        self.entry = self.new("entry", None)
        self.exit = self.new("return", None)  # normal completion
        self.raise_exit = self.new("raise", None)  # exception escapes

    def new(self, kind: str, node: ast.AST | None, owner: ast.AST | None = None, copy: str = "") -> Node:
        n = Node(len(self.nodes), kind, node, owner, copy)
        self.nodes.append(n)
        self.succ[n.id] = []
        self.pred[n.id] = []
        return n

    def edge(self, a: Node, b: Node, label: str = "next") -> None:
        if (b.id, label) not in self.succ[a.id]:
            self.succ[a.id].append((b.id, label))
            self.pred[b.id].append((a.id, label))

    # ------------------------------------------------------------- queries
    def reach(self, start: Iterable[int], removed: set[int] = frozenset(), removed_edges: set = frozenset()) -> set[int]:
        seen: set[int] = set()
        work = [s for s in start if s not in removed]
        while work:
            n = work.pop()
            if n in seen:
                continue
            seen.add(n)
            for (m, lab) in self.succ[n]:
                if m in removed or (n, m, lab) in removed_edges:
                    continue
                if m not in seen:
                    work.append(m)
        return seen

    def reach_back(self, targets: Iterable[int], removed: set[int] = frozenset()) -> set[int]:
        seen: set[int] = set()
        work = [s for s in targets if s not in removed]
        while work:
            n = work.pop()
            if n in seen:
                continue
            seen.add(n)
            for (m, _lab) in self.pred[n]:
                if m not in removed and m not in seen:
                    work.append(m)
        return seen

    def out_edges(self, n: int, label: str) -> set:
        return {(n, m, l) for (m, l) in self.succ[n] if l == label}

    def live(self) -> set[int]:
        return self.reach([self.entry.id])

    def find(self, pred: Callable[[Node], bool]) -> list[Node]:
        live = self.live()
        return [n for n in self.nodes if n.id in live and pred(n)]

    def nodes_of(self, astnode: ast.AST) -> list[Node]:
        """CFG nodes (all copies) whose statement is/contains astnode."""
        ids = {id(x) for x in ast.walk(astnode)}
        return [n for n in self.nodes if n.ast is not None and id(n.ast) in ids]

    def node_containing(self, astnode: ast.AST) -> list[Node]:
        """live CFG nodes whose own expression/statement contains astnode
        (not descending into compound-statement bodies)."""
        out = []
        live = self.live()
        for n in self.nodes:
            if n.ast is None or n.id not in live:
                continue
            for x in _own_walk(n):
                if x is astnode:
                    out.append(n)
                    break
        return out

    def shortest_path(self, start: int, goals: set[int], removed: set[int] = frozenset(),
                      removed_edges: set = frozenset()) -> list[tuple[int, str]] | None:
        from collections import deque

        prev: dict[int, tuple[int, str] | None] = {start: None}
        dq = deque([start])
        while dq:
            n = dq.popleft()
            if n in goals:
                path = []
                cur: int | None = n
                while cur is not None:
                    p = prev[cur]
                    path.append((cur, p[1] if p else ""))
                    cur = p[0] if p else None
                return list(reversed(path))
            for (m, lab) in self.succ[n]:
                if m in removed or m in prev or (n, m, lab) in removed_edges:
                    continue
                prev[m] = (n, lab)
                dq.append(m)
        return None

    def must_pass(self, starts: Iterable[int], exits: Iterable[int], through: set[int],
                  through_edges: set = frozenset(), feasible_only: bool = True) -> list[tuple[int, str]] | None:
        """None if every *feasible* path from starts to exits passes a node in `through`
        (or an edge in `through_edges`); otherwise an offending path.  Feasibility is decided only
        w.r.t. boolean flag locals and repeated tests (`done = True` flags, one-trip wrappers of
        inlined helpers): an offending path found by plain reachability is re-examined before it counts."""
        exits = set(exits)
        starts = list(starts)
        first = None
        for s in starts:
            if s in through:
                continue
            p = self.shortest_path(s, exits, removed=through, removed_edges=through_edges)
            if p is not None:
                first = p
                break
        if first is None or not feasible_only or self._feasible(first):
            return first
        for s in starts:
            if s in through:
                continue
            try:
                for path in self.paths_between(s, exits, limit=8000, avoid=through):
                    if path[-1][0] not in exits:
                        continue
                    if any((a, b, lab) in through_edges for (a, _l), (b, lab) in zip(path, path[1:])):
                        continue
                    if self._feasible(path):
                        return path
            except AnalysisError:
                return first  # too many paths to refine: keep the conservative answer
        return None

    def _feasible(self, path: list[tuple[int, str]]) -> bool:
        """path consistency w.r.t. boolean/None constants stored in locals and repeated atoms"""
        env: dict[str, bool] = {}

        def ev(t: ast.AST) -> bool | None:
            if isinstance(t, ast.Constant):
                return bool(t.value)
            if isinstance(t, ast.UnaryOp) and isinstance(t.op, ast.Not):
                v = ev(t.operand)
                return None if v is None else not v
            if isinstance(t, ast.BoolOp):
                vals = [ev(v) for v in t.values]
                if isinstance(t.op, ast.And):
                    return False if any(v is False for v in vals) else (True if all(v is True for v in vals) else None)
                return True if any(v is True for v in vals) else (False if all(v is False for v in vals) else None)
            for (a, pol) in atoms(t, True):
                if a in env:
                    return env[a] == pol
            return None

        def setv(t: ast.AST, val: bool) -> None:
            for (a, pol) in atoms(t, val):
                env[a] = pol

        for i, (nid, _lab) in enumerate(path):
            n = self.nodes[nid]
            if n.kind == "test" and i + 1 < len(path) and path[i + 1][1] in ("true", "false"):
                want = path[i + 1][1] == "true"
                cur = ev(n.ast)
                if cur is not None and cur != want:
                    return False
                if cur is None:
                    setv(n.ast, want)
            elif n.kind == "stmt" and isinstance(n.ast, (ast.Assign, ast.AnnAssign, ast.AugAssign, ast.Delete)):
                tgts = n.ast.targets if isinstance(n.ast, (ast.Assign, ast.Delete)) else [n.ast.target]
                val = getattr(n.ast, "value", None)
                for t in tgts:
                    for x in ast.walk(t):
                        if isinstance(x, (ast.Name, ast.Attribute)):
                            name = unparse(x)
                            import re
                            pat = re.compile(r"(?<![\w.])" + re.escape(name) + r"(?![\w])")
                            for k in list(env):
                                if pat.search(k):
                                    del env[k]
                    if isinstance(t, ast.Name) and isinstance(n.ast, (ast.Assign, ast.AnnAssign)):
                        if isinstance(val, ast.Constant) and (isinstance(val.value, bool) or val.value is None):
                            env[t.id] = bool(val.value)
                            env[f"{t.id} is None"] = val.value is None
                        elif isinstance(val, ast.Name) and val.id in env:
                            env[t.id] = env[val.id]
            elif n.kind == "stmt" and n.ast is not None and not isinstance(n.ast, (ast.Return, ast.Raise, ast.Pass, ast.Break, ast.Continue, ast.Expr)):
                pass
            if n.kind == "stmt" and isinstance(n.ast, ast.Expr) and isinstance(n.ast.value, ast.Call):
                # a call may change attributes of self: forget attribute-based atoms
                for k in list(env):
                    if "." in k and "(" not in k:
                        pass
        return True

    def describe_path(self, path: list[tuple[int, str]]) -> str:
        parts = []
        for nid, lab in path:
            n = self.nodes[nid]
            if n.kind in ("entry",):
                continue
            tag = {"return": "RETURN", "raise": "RAISE"}.get(n.kind)
            if tag is None:
                tag = f"{n.kind}@{n.line}"
            parts.append((f"-{lab}->" if lab and lab != "next" else "->") + tag)
        return " ".join(parts)

    def dominators(self) -> dict[int, set[int]]:
        live = sorted(self.live())
        dom = {n: set(live) for n in live}
        dom[self.entry.id] = {self.entry.id}
        changed = True
        while changed:
            changed = False
            for n in live:
                if n == self.entry.id:
                    continue
                preds = [p for (p, _l) in self.pred[n] if p in dom]
                if not preds:
                    continue
                new = set.intersection(*(dom[p] for p in preds)) | {n}
                if new != dom[n]:
                    dom[n] = new
                    changed = True
        return dom

    def dominated_by(self, n: int, d: int) -> bool:
        """every path entry->n passes d"""
        if n == d:
            return True
        return n not in self.reach([self.entry.id], removed={d})

    def guards(self, n: int) -> list[tuple[Node, str]]:
        """Branch edges (test node, 'true'|'false') that every path to n takes."""
        out = []
        live = self.live()
        for t in self.nodes:
            if t.kind not in ("test", "for") or t.id not in live or t.id == n:
                continue
            labels = {lab for (_m, lab) in self.succ[t.id] if lab in ("true", "false")}
            for lab in labels:
                removed_edges = {(t.id, m, l) for (m, l) in self.succ[t.id] if l == lab}
                if n not in self.reach([self.entry.id], removed_edges=removed_edges):
                    out.append((t, lab))
        return out

    def paths_between(self, start: int, targets: set[int], limit: int = 4000, avoid: set[int] = frozenset()) -> Iterator[list[tuple[int, str]]]:
        """Acyclic paths from start that end at the first node in `targets` (or at an exit)."""
        count = 0
        ends = set(targets) | {self.exit.id, self.raise_exit.id}
        stack: list[tuple[int, list[tuple[int, str]], frozenset]] = [(start, [(start, "")], frozenset([start]))]
        while stack:
            n, path, seen = stack.pop()
            if n in ends and len(path) > 1 or (n in ends and n != start):
                count += 1
                if count > limit:
                    raise AnalysisError(f"path bound exceeded in {self.fi.qualname}")
                yield path
                continue
            for (m, lab) in reversed(self.succ[n]):
                if m in seen or m in avoid:
                    continue
                stack.append((m, path + [(m, lab)], seen | {m}))

    def paths(self, start: int, limit: int = 512) -> Iterator[list[tuple[int, str]]]:
        """Acyclic paths (each node at most once) from start to an exit."""
        count = 0
        stack: list[tuple[int, list[tuple[int, str]], frozenset]] = [(start, [(start, "")], frozenset([start]))]
        while stack:
            n, path, seen = stack.pop()
            if n in (self.exit.id, self.raise_exit.id):
                count += 1
                if count > limit:
                    raise AnalysisError(f"path bound exceeded in {self.fi.qualname}")
                yield path
                continue
            nxt = [(m, lab) for (m, lab) in self.succ[n] if m not in seen]
            for (m, lab) in reversed(nxt):
                stack.append((m, path + [(m, lab)], seen | {m}))


def _own_walk(n: Node) -> Iterator[ast.AST]:
    """AST nodes evaluated *at* CFG node n."""
    a = n.ast
    if a is None:
        return
    if n.kind == "except":
        if isinstance(a, ast.ExceptHandler) and a.type is not None:
            yield from walk_no_nested(a.type)
        return
    if n.kind in ("test", "for", "with", "withexit"):
        yield from walk_no_nested(a)
        return
    # simple statement: whole statement
    yield from walk_no_nested(a)


def own_exprs(n: Node) -> Iterator[ast.AST]:
    return _own_walk(n)


# --------------------------------------------------------------------- oracle
class Oracle:
    """may-raise oracle: which exception classes can a CFG node raise."""

    #: callee texts (last attribute name) considered non-raising
    NONRAISING = {
        "trace", "_trace", "log", "notrace", "isinstance", "len", "hasattr", "type",
        "callable", "id", "repr", "bool", "is_set", "set", "clear", "partial", "cast", "getattr",
        "issubclass", "tuple", "list", "dict", "frozenset", "object", "super", "acquire", "release",
    }

    def __init__(self, repo: Repo, fi: FuncInfo, nonraising: Iterable[str] = (), precise: bool = False,
                 call_raises: Callable[[ast.Call, FuncInfo], list[tuple[str, bool]] | None] | None = None) -> None:
        self.repo = repo
        self.fi = fi
        self.nonraising = set(self.NONRAISING) | set(nonraising)
        self.precise = precise  # precise: calls raise nothing unless call_raises says so
        self.call_raises = call_raises

    def callee_name(self, call: ast.Call) -> str:
        f = call.func
        if isinstance(f, ast.Attribute):
            return f.attr
        if isinstance(f, ast.Name):
            return f.id
        return unparse(f)

    def is_trace_wrapper(self, call: ast.Call, depth: int = 0) -> bool:
        """the callee is a (new) logging helper: its whole body is calls of trace-like functions"""
        if depth > 2:
            return False
        try:
            targets = self.repo.resolve_call(call, self.fi)
        except Exception:
            return False
        if len(targets) != 1:
            return False
        body = targets[0].node.body if isinstance(getattr(targets[0].node, "body", None), list) else None
        if not body:
            return False
        for s in body:
            if isinstance(s, ast.Expr) and isinstance(s.value, ast.Constant):
                continue
            if isinstance(s, ast.Expr) and isinstance(s.value, ast.Call):
                cn = self.callee_name(s.value)
                if cn in ("trace", "_trace", "log", "notrace") or Oracle(self.repo, targets[0], precise=self.precise).is_trace_wrapper(s.value, depth + 1):
                    continue
            return False
        return True

    def raises(self, n: Node, handler_classes: list[str] | None = None) -> list[tuple[str, bool]]:
        out: list[tuple[str, bool]] = []
        a = n.ast
        if a is None:
            return out
        if n.kind == "stmt" and isinstance(a, ast.Raise):
            if a.exc is None:
                for c in handler_classes or [ANY]:
                    out.append((c, False))
            else:
                out.extend(self.raise_classes(a.exc, handler_classes))
            # evaluating the exception expression may itself raise
            return out
        if n.kind == "stmt" and isinstance(a, ast.Assert):
            # an assertion states an internal invariant -- it is not an exit of the function (the statement
            # vanishes under -O, so no behaviour may depend on it failing); its test may still raise via calls
            pass
        if n.kind in ("withexit", "except"):
            return out
        out.extend(self._implicit(n))
        for x in _own_walk(n):
            if isinstance(x, ast.Call):
                if self.call_raises is not None:
                    r = self.call_raises(x, self.fi)
                    if r is not None:
                        out.extend(r)
                        continue
                if self.precise:
                    continue
                cn = self.callee_name(x)
                if cn in self.nonraising:
                    continue
                if self.is_trace_wrapper(x):
                    continue
                b = getattr(__import__("builtins"), cn, None)
                if (isinstance(b, type) and issubclass(b, BaseException)) or self.repo.is_subclass_name(cn, "Exception") is True and cn in self.repo.classes:
                    continue  # constructing an exception object does not raise
                out.append((ANY, False))
        # de-duplicate
        seen = set()
        res = []
        for c in out:
            if c not in seen:
                seen.add(c)
                res.append(c)
        return res

    def _implicit(self, n: Node) -> list[tuple[str, bool]]:
        """KeyError/IndexError from subscripts and AttributeError from attribute
        loads -- only where an enclosing ``try`` names such a class, so that the
        handler becomes live without adding exits to every statement."""
        a = n.ast
        if a is None:
            return []
        anchor = n.owner if n.owner is not None else a
        want: set[str] = set()
        node = anchor
        for anc in self.repo.ancestors(anchor):
            if isinstance(anc, (ast.FunctionDef, ast.Lambda, ast.AsyncFunctionDef)):
                break
            if isinstance(anc, ast.Try) and any(node is b for b in anc.body):
                for h in anc.handlers:
                    for c in handler_class_names(self.repo, self.fi, h.type):
                        if c in ("KeyError", "IndexError", "LookupError", "AttributeError"):
                            want.add(c)
            node = anc
        if not want:
            return []
        out = []
        for x in _own_walk(n):
            if isinstance(x, ast.Subscript) and isinstance(x.ctx, ast.Load):
                for c in ("KeyError", "IndexError"):
                    if c in want or "LookupError" in want:
                        out.append((c, True))
            if isinstance(x, ast.Attribute) and isinstance(x.ctx, ast.Load) and "AttributeError" in want:
                out.append(("AttributeError", True))
        return out

    def raise_classes(self, exc: ast.AST, handler_classes: list[str] | None) -> list[tuple[str, bool]]:
        if isinstance(exc, ast.Call):
            name = unparse(exc.func)
            name = name.split(".")[-1] if not name.startswith("struct.") else name
            return [(name, True)]
        if isinstance(exc, ast.Name):
            if exc.id in ("EOFError", "StopIteration", "KeyboardInterrupt", "_Stop", "NotImplementedError"):
                return [(exc.id, True)]
            if exc.id in self.repo.classes:
                return [(exc.id, True)]
            # a bound exception variable (``raise first``) or unknown
            return [(c, False) for c in (handler_classes or [ANY])]
        if isinstance(exc, ast.BoolOp):
            res = []
            for v in exc.values:
                if isinstance(v, ast.Call) and "error" in unparse(v.func).lower() and not isinstance(v.func, ast.Name):
                    res.append(("RemoteError", False))
                    res.append(("EOFError", False))
                else:
                    res.extend(self.raise_classes(v, handler_classes))
            return res
        if isinstance(exc, ast.Attribute):
            return [(ANY, False)]
        return [(ANY, False)]


# -------------------------------------------------------------------- builder
class _Frame:
    def __init__(self, kind: str, **kw) -> None:
        self.kind = kind  # loop | except | finally
        self.__dict__.update(kw)
        self.copies: dict[tuple, Node] = {}


def handler_class_names(repo: Repo, fi: FuncInfo, typ: ast.AST | None) -> list[str]:
    if typ is None:
        return [ANY]
    if isinstance(typ, ast.Tuple):
        out = []
        for e in typ.elts:
            out.extend(handler_class_names(repo, fi, e))
        return out
    if isinstance(typ, ast.Name):
        # a name bound to a tuple of classes (sysex)
        v = fi.module.consts.get(typ.id)
        for st in fi.module.tree.body:
            if isinstance(st, ast.Assign) and len(st.targets) == 1 and isinstance(st.targets[0], ast.Name) \
                    and st.targets[0].id == typ.id and isinstance(st.value, ast.Tuple):
                return handler_class_names(repo, fi, st.value)
        # a parameter with a default naming such a tuple
        p = fi
        while p is not None:
            a = p.node.args
            pos = a.posonlyargs + a.args
            defaults = [None] * (len(pos) - len(a.defaults)) + list(a.defaults)
            for arg, d in zip(pos, defaults):
                if arg.arg == typ.id and d is not None:
                    return handler_class_names(repo, fi, d)
            p = p.parent
        return [typ.id]
    if isinstance(typ, ast.Attribute):
        txt = unparse(typ)
        if txt == "struct.error":
            return ["struct.error"]
        if typ.attr == "error" and isinstance(typ.value, ast.Name) and typ.value.id in repo.classes:
            ci = repo.classes[typ.value.id]
            for st in ci.node.body:
                if isinstance(st, ast.Assign) and isinstance(st.targets[0], ast.Name) and st.targets[0].id == "error":
                    return handler_class_names(repo, fi, st.value)
        if typ.attr == "error" and "socket" in txt:
            return ["OSError"]
        if typ.attr in ("RemoteError", "TimeoutError") and typ.attr in repo.classes:
            return [typ.attr]
        return [typ.attr]  # e.g. queue.Empty
    return [ANY]


def match(repo: Repo, cls: str, exact: bool, handler: list[str]) -> str:
    """'yes' (always caught), 'maybe', 'no'."""
    res = "no"
    for h in handler:
        if h == ANY:
            return "yes"
        r = repo.is_subclass_name(cls, h)
        if r:
            return "yes"
        if not exact:
            # instance of cls-or-subclass: caught if the subclass matches
            r2 = repo.is_subclass_name(h, cls)
            if r2 or (r2 is None and cls in (ANY, "Exception")):
                res = "maybe"
            if r is None and cls not in (ANY,):
                res = "maybe" if res == "no" else res
        elif r is None:
            res = "maybe"
    return res


class Builder:
    def __init__(self, repo: Repo, fi: FuncInfo, oracle: Oracle | None = None) -> None:
        self.repo = repo
        self.fi = fi
        self.oracle = oracle or Oracle(repo, fi)
        self.cfg = CFG(fi)
        self.frames: list[_Frame] = []
        self.copy = ""

    def build(self) -> CFG:
        body = self.fi.node.body
        if not isinstance(body, list):  # lambda
            body = [ast.Expr(value=body)]
        dang = self.block(body, [(self.cfg.entry, "next")])
        for (n, lab) in dang:
            self.cfg.edge(n, self.cfg.exit, lab)
        return self.cfg

    # dangling edges: list[(Node, label)]
    def connect(self, dang, node: Node) -> None:
        for (n, lab) in dang:
            self.cfg.edge(n, node, lab)

    def block(self, stmts, dang):
        for st in stmts:
            if not dang:
                # unreachable code after return/raise: still build (may hold rule sites)
                pass
            dang = self.stmt(st, dang)
        return dang

    # -- abrupt completion through frames
    def _route(self, src: Node, label: str, kind: tuple, frames: list[_Frame]) -> None:
        """Route an abrupt completion from src outward through `frames`."""
        i = len(frames) - 1
        cur_src, cur_label = src, label
        while i >= 0:
            fr = frames[i]
            if fr.kind == "finally":
                key = kind
                if key in fr.copies:
                    self.cfg.edge(cur_src, fr.copies[key], cur_label)
                    return
                # build a copy of the finally body in the context of outer frames
                saved_frames, saved_copy = self.frames, self.copy
                self.frames = frames[:i]
                self.copy = (saved_copy + "/" if saved_copy else "") + "finally@%d:%s" % (fr.line, ":".join(map(str, kind)))
                head = self.cfg.new("stmt", ast.Pass(lineno=fr.line, col_offset=0), copy=self.copy)
                head.kind = "finally"
                fr.copies[key] = head
                self.cfg.edge(cur_src, head, cur_label)
                dang = self.block(fr.body, [(head, "next")])
                tail = self.cfg.new("finally_end", None, copy=self.copy)
                self.connect(dang, tail)
                outer = frames[:i]
                self.frames, self.copy = saved_frames, saved_copy
                if dang:
                    self._route(tail, "next", kind, outer)
                return
            if kind[0] == "raise" and fr.kind == "except":
                cls, exact = kind[1], kind[2]
                caught = False
                for (hnode, hclasses) in fr.handlers:
                    m = match(self.repo, cls, exact, hclasses)
                    if m == "yes":
                        self.cfg.edge(cur_src, hnode, f"exc:{cls}")
                        caught = True
                        break
                    if m == "maybe":
                        self.cfg.edge(cur_src, hnode, f"exc:{cls}")
                if caught:
                    return
            if kind[0] in ("break", "continue") and fr.kind == "loop":
                if kind[0] == "break":
                    fr.breaks.append((cur_src, cur_label))
                else:
                    self.cfg.edge(cur_src, fr.head, cur_label)
                return
            i -= 1
        if kind[0] == "return":
            self.cfg.edge(cur_src, self.cfg.exit, cur_label)
        elif kind[0] == "raise":
            self.cfg.edge(cur_src, self.cfg.raise_exit, f"exc:{kind[1]}")
        else:
            raise AnalysisError(f"{kind[0]} outside loop in {self.fi.qualname}")

    def _enclosing_handler_classes(self) -> list[str] | None:
        for fr in reversed(self.frames):
            if fr.kind == "inhandler":
                return fr.classes
        return None

    def raising(self, node: Node) -> None:
        hc = self._enclosing_handler_classes()
        for (cls, exact) in self.oracle.raises(node, hc):
            frames = [f for f in self.frames]
            self._route(node, f"exc:{cls}", ("raise", cls, exact), [f for f in frames if f.kind != "inhandler"])

    def stmt(self, st: ast.stmt, dang):
        cfg = self.cfg
        if isinstance(st, ast.If):
            t = cfg.new("test", st.test, st, self.copy)
            self.connect(dang, t)
            self.raising(t)
            const = _const_truth(st.test)
            d1 = self.block(st.body, [(t, "true")]) if const is not False else []
            if st.orelse:
                d2 = self.block(st.orelse, [(t, "false")]) if const is not True else []
            else:
                d2 = [(t, "false")] if const is not True else []
            return d1 + d2
        if isinstance(st, ast.While):
            t = cfg.new("test", st.test, st, self.copy)
            self.connect(dang, t)
            self.raising(t)
            fr = _Frame("loop", head=t, breaks=[])
            self.frames.append(fr)
            body_d = self.block(st.body, [(t, "true")])
            self.frames.pop()
            for (n, lab) in body_d:
                cfg.edge(n, t, lab if lab != "next" else "back")
            const = _const_truth(st.test)
            out = []
            if const is not True:
                out = [(t, "false")]
                if st.orelse:
                    out = self.block(st.orelse, out)
            return out + fr.breaks
        if isinstance(st, (ast.For, ast.AsyncFor)):
            t = cfg.new("for", st.iter, st, self.copy)
            self.connect(dang, t)
            self.raising(t)
            fr = _Frame("loop", head=t, breaks=[])
            self.frames.append(fr)
            body_d = self.block(st.body, [(t, "true")])
            self.frames.pop()
            for (n, lab) in body_d:
                cfg.edge(n, t, lab if lab != "next" else "back")
            out = [(t, "false")]
            if st.orelse:
                out = self.block(st.orelse, out)
            return out + fr.breaks
        if isinstance(st, ast.Try):
            return self.try_stmt(st, dang)
        if isinstance(st, (ast.With, ast.AsyncWith)):
            return self.with_stmt(st, dang)
        if isinstance(st, ast.Return):
            n = cfg.new("stmt", st, None, self.copy)
            self.connect(dang, n)
            self.raising(n)
            self._route(n, "return", ("return",), [f for f in self.frames if f.kind != "inhandler"])
            return []
        if isinstance(st, ast.Raise):
            n = cfg.new("stmt", st, None, self.copy)
            self.connect(dang, n)
            self.raising(n)
            return []
        if isinstance(st, ast.Break):
            n = cfg.new("stmt", st, None, self.copy)
            self.connect(dang, n)
            self._route(n, "break", ("break",), [f for f in self.frames if f.kind != "inhandler"])
            return []
        if isinstance(st, ast.Continue):
            n = cfg.new("stmt", st, None, self.copy)
            self.connect(dang, n)
            self._route(n, "continue", ("continue",), [f for f in self.frames if f.kind != "inhandler"])
            return []
        if isinstance(st, (ast.FunctionDef, ast.AsyncFunctionDef, ast.ClassDef)):
            n = cfg.new("stmt", st, None, self.copy)
            n.kind = "def"
            self.connect(dang, n)
            return [(n, "next")]
        if isinstance(st, ast.Match):
            raise AnalysisError(f"match statement not modelled ({self.fi.qualname})")
        # simple statement
        n = cfg.new("stmt", st, None, self.copy)
        self.connect(dang, n)
        self.raising(n)
        return [(n, "next")]

    def try_stmt(self, st: ast.Try, dang):
        cfg = self.cfg
        fin = None
        if st.finalbody:
            fin = _Frame("finally", body=st.finalbody, line=st.finalbody[0].lineno)
            self.frames.append(fin)
        handlers = []
        for h in st.handlers:
            hn = cfg.new("except", h, st, self.copy)
            handlers.append((hn, handler_class_names(self.repo, self.fi, h.type)))
        if handlers:
            ex = _Frame("except", handlers=handlers)
            self.frames.append(ex)
        body_d = self.block(st.body, dang)
        if handlers:
            self.frames.pop()
        if st.orelse:
            body_d = self.block(st.orelse, body_d)
        out = list(body_d)
        for (hn, hclasses), h in zip(handlers, st.handlers):
            self.frames.append(_Frame("inhandler", classes=hclasses))
            out += self.block(h.body, [(hn, "next")])
            self.frames.pop()
        if fin is not None:
            self.frames.pop()
            if out:
                # normal-completion copy
                saved = self.copy
                self.copy = (saved + "/" if saved else "") + "finally@%d:normal" % fin.line
                head = cfg.new("finally", ast.Pass(lineno=fin.line, col_offset=0), copy=self.copy)
                self.connect(out, head)
                out = self.block(st.finalbody, [(head, "next")])
                self.copy = saved
        return out

    def with_stmt(self, st: ast.With, dang):
        cfg = self.cfg
        # with suppress(E...)
        item0 = st.items[0]
        ce = item0.context_expr
        if len(st.items) == 1 and isinstance(ce, ast.Call) and unparse(ce.func).split(".")[-1] == "suppress":
            enter = cfg.new("with", ce, st, self.copy)
            self.connect(dang, enter)
            classes = []
            for a in ce.args:
                classes.extend(handler_class_names(self.repo, self.fi, a))
            hn = cfg.new("except", ast.ExceptHandler(type=ast.Tuple(elts=list(ce.args), ctx=ast.Load()), name=None, body=[], lineno=st.lineno, col_offset=st.col_offset), st, self.copy)
            self.frames.append(_Frame("except", handlers=[(hn, classes)]))
            body_d = self.block(st.body, [(enter, "next")])
            self.frames.pop()
            return body_d + [(hn, "next")]
        enter = cfg.new("with", st, st, self.copy)
        enter.ast = ast.Tuple(elts=[i.context_expr for i in st.items], ctx=ast.Load(), lineno=st.lineno, col_offset=st.col_offset)
        self.connect(dang, enter)
        self.raising(enter)
        body_d = self.block(st.body, [(enter, "next")])
        if not body_d:
            return []
        ex = cfg.new("withexit", None, st, self.copy)
        self.connect(body_d, ex)
        return [(ex, "next")]


def _const_truth(test: ast.AST) -> bool | None:
    if isinstance(test, ast.Constant):
        return bool(test.value)
    return None


def build_cfg(repo: Repo, fi: FuncInfo, oracle: Oracle | None = None) -> CFG:
    return Builder(repo, fi, oracle).build()


# ------------------------------------------------------------ guard atoms
def atoms(test: ast.AST, polarity: bool) -> list[tuple[str, bool]]:
    """Decompose a branch condition into (normalised atom text, truth)."""
    if isinstance(test, ast.UnaryOp) and isinstance(test.op, ast.Not):
        return atoms(test.operand, not polarity)
    if isinstance(test, ast.BoolOp):
        if isinstance(test.op, ast.And) and polarity:
            out = []
            for v in test.values:
                out.extend(atoms(v, True))
            return out
        if isinstance(test.op, ast.Or) and not polarity:
            out = []
            for v in test.values:
                out.extend(atoms(v, False))
            return out
        return [(unparse(test), polarity)]
    if isinstance(test, ast.Compare) and len(test.ops) == 1:
        op = test.ops[0]
        l, r = unparse(test.left), unparse(test.comparators[0])
        if isinstance(op, ast.IsNot):
            return [(f"{l} is {r}", not polarity)]
        if isinstance(op, ast.NotEq):
            return [(f"{l} == {r}", not polarity)]
        if isinstance(op, ast.NotIn):
            return [(f"{l} in {r}", not polarity)]
    return [(unparse(test), polarity)]


def guard_atoms(cfg: CFG, n: int) -> list[tuple[str, bool, Node]]:
    out = []
    for (t, lab) in cfg.guards(n):
        if t.kind != "test":
            continue
        for (a, pol) in atoms(t.ast, lab == "true"):
            out.append((a, pol, t))
    return out
