"""Program index over /repo/src/execnet: modules, classes, functions, constants,
registries, field types and call resolution.  Pure ``ast`` -- nothing in the
analysed repository is imported or executed.
"""

from __future__ import annotations

import ast
import builtins
import hashlib
import os
import struct
from dataclasses import dataclass, field
from typing import Any, Iterable, Iterator


class AnalysisError(Exception):
    """The analysis itself cannot run (vanished anchor, unknown idiom...).

    Reported as ``ANALYSIS-ERROR`` with exit status 2 -- never as a pass and
    never as a property violation."""


REPO_ROOT = os.environ.get("VERIF_REPO_ROOT", "/repo")
PKG_REL = "src/execnet"


@dataclass
class FuncInfo:
    qualname: str  # module.Class.func / module.func / module.func.inner
    name: str
    node: ast.FunctionDef | ast.Lambda
    module: "Module"
    cls: "ClassInfo | None"
    parent: "FuncInfo | None"

    @property
    def file(self) -> str:
        return self.module.rel

    @property
    def line(self) -> int:
        return self.node.lineno

    @property
    def short(self) -> str:
        return self.qualname.split(".", 1)[1]

    def params(self) -> list[str]:
        a = self.node.args
        return [x.arg for x in (a.posonlyargs + a.args + a.kwonlyargs)] + (
            [a.vararg.arg] if a.vararg else []
        ) + ([a.kwarg.arg] if a.kwarg else [])

    def __hash__(self) -> int:
        return hash(self.qualname)

    def __eq__(self, other: object) -> bool:
        return isinstance(other, FuncInfo) and other.qualname == self.qualname

    def __repr__(self) -> str:
        return f"<Func {self.qualname}>"


@dataclass
class ClassInfo:
    name: str
    qualname: str
    node: ast.ClassDef
    module: "Module"
    bases: list[str]
    methods: dict[str, FuncInfo] = field(default_factory=dict)
    aliases: dict[str, str] = field(default_factory=dict)  # load_long -> load_int
    consts: dict[str, Any] = field(default_factory=dict)
    field_types: dict[str, str] = field(default_factory=dict)
    field_funcs: dict[str, str] = field(default_factory=dict)  # self.x = <module function>

    def __hash__(self) -> int:
        return hash(self.qualname)

    def __eq__(self, other: object) -> bool:
        return isinstance(other, ClassInfo) and other.qualname == self.qualname

    def __repr__(self) -> str:
        return f"<Class {self.qualname}>"


@dataclass
class Module:
    name: str  # e.g. gateway_base, script.socketserver
    rel: str  # src/execnet/gateway_base.py
    path: str
    source: str
    tree: ast.Module
    consts: dict[str, Any] = field(default_factory=dict)
    functions: dict[str, FuncInfo] = field(default_factory=dict)
    classes: dict[str, ClassInfo] = field(default_factory=dict)
    imports: dict[str, tuple[str, str | None]] = field(default_factory=dict)


class _ForElem(ast.AST):
    """marker: element of an iterable (loop variable)"""

    _fields = ()

    def __init__(self, it: ast.AST) -> None:
        self.it = it


class _Unknown:
    def __repr__(self) -> str:
        return "<unknown>"


UNKNOWN = _Unknown()


def unparse(node: ast.AST | None) -> str:
    if node is None:
        return ""
    try:
        return ast.unparse(node)
    except Exception:  # pragma: no cover
        return "<%s>" % type(node).__name__


def norm(node: ast.AST | None) -> str:
    """Normalised text of a construct: the finding key (stable under
    re-formatting and line shifts)."""
    return " ".join(unparse(node).split())


class Repo:
    def __init__(self, root: str | None = None) -> None:
        self.root = root or REPO_ROOT
        self.pkgdir = os.path.join(self.root, PKG_REL)
        if not os.path.isdir(self.pkgdir):
            raise AnalysisError(f"package directory missing: {self.pkgdir}")
        self.modules: dict[str, Module] = {}
        self.funcs: dict[str, FuncInfo] = {}
        self.classes: dict[str, ClassInfo] = {}  # by bare class name
        self.parents: dict[int, ast.AST] = {}
        self.func_of_node: dict[int, FuncInfo] = {}
        self._load()
        self._index()
        self._fold_all_consts()
        self._collect_field_types()
        self._callgraph: dict[str, set[str]] | None = None
        self._callsites: dict[str, list[tuple[FuncInfo, ast.Call]]] | None = None

    # ------------------------------------------------------------------ load
    def _load(self) -> None:
        for dirpath, dirnames, filenames in os.walk(self.pkgdir):
            dirnames[:] = sorted(d for d in dirnames if d != "__pycache__")
            for fn in sorted(filenames):
                if not fn.endswith(".py"):
                    continue
                path = os.path.join(dirpath, fn)
                rel = os.path.relpath(path, self.root)
                modname = os.path.relpath(path, self.pkgdir)[:-3].replace(os.sep, ".")
                with open(path, encoding="utf-8") as f:
                    src = f.read()
                try:
                    tree = ast.parse(src, filename=path)
                except SyntaxError as e:
                    raise AnalysisError(f"{rel} does not parse: {e}") from None
                self.modules[modname] = Module(modname, rel, path, src, tree)
        if "gateway_base" not in self.modules:
            raise AnalysisError("src/execnet/gateway_base.py is missing")
        # NamedTuple records defined in the repo are tuples: normalise constructor calls and typed field reads
        from .records import desugar_records

        self.records = desugar_records([m.tree for m in self.modules.values()])
        # one spelling per construct (see idioms.py)
        from .idioms import normalise_idioms

        self.idioms = normalise_idioms([m.tree for m in self.modules.values()])

    def digest(self, modnames: Iterable[str] | None = None) -> str:
        h = hashlib.sha256()
        for name in sorted(modnames or self.modules):
            m = self.modules.get(name)
            if m is not None:
                h.update(name.encode())
                h.update(m.source.encode("utf-8"))
        return h.hexdigest()[:16]

    # ----------------------------------------------------------------- index
    def _index(self) -> None:
        for mod in self.modules.values():
            for parent in ast.walk(mod.tree):
                for child in ast.iter_child_nodes(parent):
                    self.parents[id(child)] = parent
            self._index_body(mod, mod.tree.body, None, None, mod.name)
            self._index_imports(mod)

    def _index_imports(self, mod: Module) -> None:
        for node in ast.walk(mod.tree):
            if isinstance(node, ast.Import):
                for a in node.names:
                    mod.imports.setdefault(a.asname or a.name.split(".")[0], (a.name, None))
            elif isinstance(node, ast.ImportFrom):
                base = ("." * node.level) + (node.module or "")
                for a in node.names:
                    mod.imports.setdefault(a.asname or a.name, (base, a.name))

    def _index_body(self, mod, body, cls, parentfunc, prefix) -> None:
        for st in body:
            if isinstance(st, (ast.FunctionDef, ast.AsyncFunctionDef)):
                self._add_func(mod, st, cls, parentfunc, prefix)
            elif isinstance(st, ast.ClassDef):
                ci = ClassInfo(
                    st.name,
                    f"{prefix}.{st.name}",
                    st,
                    mod,
                    [unparse(b) for b in st.bases],
                )
                if parentfunc is None and cls is None:
                    mod.classes[st.name] = ci
                    # first definition wins for bare-name lookup, gateway_base first
                    if st.name not in self.classes or mod.name == "gateway_base":
                        self.classes[st.name] = ci
                self._index_body(mod, st.body, ci, parentfunc, ci.qualname)
            elif isinstance(st, (ast.If, ast.Try, ast.With, ast.For, ast.While)):
                for sub in _sub_bodies(st):
                    self._index_body(mod, sub, cls, parentfunc, prefix)
            elif isinstance(st, ast.Assign) and cls is not None and parentfunc is None:
                # class-body alias: load_long = load_int ; __next__ = next
                if (
                    len(st.targets) == 1
                    and isinstance(st.targets[0], ast.Name)
                    and isinstance(st.value, ast.Name)
                    and st.value.id in cls.methods
                ):
                    cls.aliases[st.targets[0].id] = st.value.id

    def _add_func(self, mod, st, cls, parentfunc, prefix) -> None:
        qn = f"{prefix}.{st.name}"
        # overloads / conditional redefinitions: keep the last one with a body
        fi = FuncInfo(qn, st.name, st, mod, cls if parentfunc is None else None, parentfunc)
        is_overload = any(unparse(d).endswith("overload") for d in st.decorator_list)
        if is_overload:
            return
        if qn in self.funcs:
            # conditional definitions (trace under DEBUG): keep all, suffix
            n = 2
            while f"{qn}#{n}" in self.funcs:
                n += 1
            fi.qualname = qn = f"{qn}#{n}"
        self.funcs[qn] = fi
        if cls is not None and parentfunc is None:
            cls.methods.setdefault(st.name, fi)
        elif parentfunc is None:
            mod.functions.setdefault(st.name, fi)
        for n in ast.walk(st):
            if id(n) not in self.func_of_node or True:
                pass
        self._mark_nodes(st, fi)
        self._index_body(mod, st.body, None, fi, qn)

    def _mark_nodes(self, fnode, fi) -> None:
        # every node lexically inside fnode (excluding nested defs, which
        # overwrite later because they are indexed after) maps to fi
        for n in ast.walk(fnode):
            self.func_of_node[id(n)] = fi

    # ----------------------------------------------------------- navigation
    def parent(self, node: ast.AST) -> ast.AST | None:
        return self.parents.get(id(node))

    def ancestors(self, node: ast.AST) -> Iterator[ast.AST]:
        p = self.parents.get(id(node))
        while p is not None:
            yield p
            p = self.parents.get(id(p))

    def enclosing_func(self, node: ast.AST) -> FuncInfo | None:
        return self.func_of_node.get(id(node))

    def module(self, name: str) -> Module:
        m = self.modules.get(name)
        if m is None:
            raise AnalysisError(f"anchor module vanished: {name}")
        return m

    def flat(self, fi: FuncInfo) -> FuncInfo:
        """fi with newly extracted helpers inlined (see sa/flatten.py); fi itself if nothing to inline"""
        cache = self.__dict__.setdefault("_flat_cache", {})
        if fi.qualname in cache:
            return cache[fi.qualname]
        cache[fi.qualname] = fi  # recursion guard
        from .flatten import Flattener

        fl = Flattener(self)
        node = fl.flatten(fi)
        if node is None:
            return fi
        nfi = FuncInfo(fi.qualname, fi.name, node, fi.module, fi.cls, fi.parent)
        nfi.inlined = list(fl.inlined)  # type: ignore[attr-defined]
        for parent in ast.walk(node):
            for child in ast.iter_child_nodes(parent):
                self.parents[id(child)] = parent
        if id(fi.node) in self.parents:
            self.parents[id(node)] = self.parents[id(fi.node)]
        self._mark_nodes(node, nfi)
        # nested defs of the copy keep working as their own functions
        for sub in ast.walk(node):
            if sub is not node and isinstance(sub, (ast.FunctionDef, ast.AsyncFunctionDef)):
                q = f"{fi.qualname}.{sub.name}"
                sfi = FuncInfo(q, sub.name, sub, fi.module, None, nfi)
                self._mark_nodes(sub, sfi)
        cache[fi.qualname] = nfi
        self.__dict__.setdefault("inlined_helpers", []).extend((fi.short, h) for (_c, h) in fl.inlined)
        return nfi

    def func(self, qualname: str) -> FuncInfo:
        fi = self._func(qualname)
        return self.flat(fi)

    def merged(self, qualname: str, callees: Iterable[str]) -> FuncInfo:
        """normal form of a function with the named (census) callees inlined as well, where they still exist: a rule about
        a caller/callee pair then sees one unit, whether the logic lives in the callee, the caller, or moved between them"""
        fi = self._func(qualname)
        force = frozenset(q for q in callees if q in self.funcs)
        key = (qualname, force)
        cache = self.__dict__.setdefault("_merged_cache", {})
        if key in cache:
            return cache[key]
        from .flatten import Flattener

        fl = Flattener(self, force=force)
        node = fl.flatten(fi)
        if node is None:
            cache[key] = fi
            return fi
        nfi = FuncInfo(fi.qualname, fi.name, node, fi.module, fi.cls, fi.parent)
        nfi.inlined = list(fl.inlined)  # type: ignore[attr-defined]
        for parent in ast.walk(node):
            for child in ast.iter_child_nodes(parent):
                self.parents[id(child)] = parent
        if id(fi.node) in self.parents:
            self.parents[id(node)] = self.parents[id(fi.node)]
        self._mark_nodes(node, nfi)
        cache[key] = nfi
        return nfi

    def scan_funcs(self) -> list[FuncInfo]:
        """every function a whole-program rule must look at: all functions with newly extracted helpers
        inlined, minus the helpers that were absorbed into all of their call sites"""
        cached = self.__dict__.get("_scan_funcs")
        if cached is not None:
            return cached
        from .known_funcs import KNOWN_FUNCS

        flats = {q: self.flat(fi) for q, fi in self.funcs.items()}
        events: dict[str, int] = {}
        for nfi in flats.values():
            for (_c, h) in getattr(nfi, "inlined", []):
                events[h] = events.get(h, 0) + 1
        absorbed = set()
        for q, fi in self.funcs.items():
            if self.is_known(q):
                continue
            sites = self.callsites(q)
            if sites and events.get(fi.short, 0) >= len([1 for (caller, _c) in sites if caller.qualname != q]):
                absorbed.add(q)
        out = [nfi for q, nfi in flats.items() if q not in absorbed]
        self.__dict__["_scan_funcs"] = out
        self.__dict__["absorbed_helpers"] = sorted(absorbed)
        return out

    def callsites_flat(self, qualname: str) -> list[tuple[FuncInfo, ast.Call]]:
        """call sites of a function over scan_funcs() (helpers inlined): (caller, call)"""
        cache = self.__dict__.setdefault("_callsites_flat", {})
        if not cache:
            for fi in self.scan_funcs():
                for c in self.calls_in(fi):
                    for t in self.resolve_call(c, fi):
                        cache.setdefault(t.qualname, []).append((fi, c))
            cache["__done__"] = []
        return cache.get(qualname, [])

    def _func(self, qualname: str) -> FuncInfo:
        fi = self.funcs.get(qualname)
        if fi is None:
            # method inherited?  module.Class.meth
            parts = qualname.split(".")
            if len(parts) >= 3:
                ci = self.modules.get(".".join(parts[:-2]), None)
                ci = ci.classes.get(parts[-2]) if ci else None
                if ci is not None:
                    m = self.lookup_method(ci, parts[-1])
                    if m is not None:
                        return m
            raise AnalysisError(f"anchor function vanished: {qualname}")
        return fi

    def is_known(self, qualname: str) -> bool:
        """the function belongs to the frozen census -- under its own name, or (a method moved up or down the class
        hierarchy keeps its identity) as `module.Other.name` for a class Other related to its class by inheritance"""
        from .known_funcs import KNOWN_FUNCS
        q0 = qualname.split("#")[0]
        if qualname in KNOWN_FUNCS or q0 in KNOWN_FUNCS:
            return True
        fi = self.funcs.get(qualname)
        if fi is None or fi.cls is None or fi.parent is not None:
            return False
        cache = self.__dict__.setdefault("_known_rel", {})
        if qualname in cache:
            return cache[qualname]
        ci = self.classes.get(fi.cls) if isinstance(fi.cls, str) else fi.cls
        res = False
        if ci is not None:
            related = {c.name for c in self.mro(ci)} | {c.name for c in self.subclasses(ci)}
            mod = fi.module.name
            res = any(f"{mod}.{r}.{fi.name}" in KNOWN_FUNCS for r in related if r != ci.name)
        cache[qualname] = res
        return res

    def has_func(self, qualname: str) -> bool:
        return qualname in self.funcs

    def cls(self, name: str) -> ClassInfo:
        ci = self.classes.get(name)
        if ci is None:
            raise AnalysisError(f"anchor class vanished: {name}")
        return ci

    def own_nodes(self, fi: FuncInfo) -> Iterator[ast.AST]:
        """Nodes of fi's body excluding nested function/class/lambda bodies."""
        stack: list[ast.AST] = list(
            fi.node.body if isinstance(fi.node.body, list) else [fi.node.body]
        )
        while stack:
            n = stack.pop()
            yield n
            if isinstance(n, (ast.FunctionDef, ast.AsyncFunctionDef, ast.ClassDef, ast.Lambda)):
                continue  # the def statement itself is yielded but not its body
            for c in ast.iter_child_nodes(n):
                stack.append(c)

    def calls_in(self, fi: FuncInfo) -> list[ast.Call]:
        res = [n for n in self.own_nodes(fi) if isinstance(n, ast.Call)]
        res.sort(key=lambda c: (c.lineno, c.col_offset))
        return res

    # ------------------------------------------------------------ class MRO
    def mro(self, ci: ClassInfo) -> list[ClassInfo]:
        out = [ci]
        for b in ci.bases:
            bname = b.split(".")[-1]
            bc = self.classes.get(bname)
            if bc is not None and bc is not ci:
                for x in self.mro(bc):
                    if x not in out:
                        out.append(x)
        return out

    def subclasses(self, ci: ClassInfo) -> list[ClassInfo]:
        out = []
        for mod in self.modules.values():
            for c in mod.classes.values():
                if c is not ci and ci in self.mro(c):
                    out.append(c)
        return out

    def lookup_method(self, ci: ClassInfo, name: str) -> FuncInfo | None:
        for c in self.mro(ci):
            if name in c.methods:
                return c.methods[name]
            if name in c.aliases and c.aliases[name] in c.methods:
                return c.methods[c.aliases[name]]
        return None

    def virtual_targets(self, ci: ClassInfo, name: str) -> list[FuncInfo]:
        out = []
        m = self.lookup_method(ci, name)
        if m is not None:
            out.append(m)
        for sc in self.subclasses(ci):
            m2 = sc.methods.get(name)
            if m2 is not None and m2 not in out:
                out.append(m2)
        return out

    def is_subclass_name(self, sub: str, sup: str) -> bool | None:
        """Exception-class hierarchy over builtins + repo classes."""
        if sub == sup:
            return True
        if sup in ("BaseException",):
            return True
        bsub = getattr(builtins, sub, None)
        bsup = getattr(builtins, sup, None)
        if sub == "IOError":
            bsub = OSError
        if sup == "IOError":
            bsup = OSError
        if sub == "struct.error":
            bsub = struct.error
        if sup == "struct.error":
            bsup = struct.error
        if isinstance(bsub, type) and isinstance(bsup, type):
            return issubclass(bsub, bsup)
        ci = self.classes.get(sub)
        if ci is not None:
            seen = set()
            work = [ci]
            while work:
                c = work.pop()
                if c.qualname in seen:
                    continue
                seen.add(c.qualname)
                for b in c.bases:
                    bn = b.split(".")[-1]
                    if bn == sup or b == sup:
                        return True
                    if bn in self.classes:
                        work.append(self.classes[bn])
                    else:
                        r = self.is_subclass_name(bn if b != "struct.error" else b, sup)
                        if r:
                            return True
            return False
        if isinstance(bsub, type) and self.classes.get(sup) is not None:
            return False
        if isinstance(bsub, type) and sup == "Exception":
            return issubclass(bsub, Exception)
        return None  # unknown

    # ------------------------------------------------------- constant folding
    def _fold_all_consts(self) -> None:
        for mod in self.modules.values():
            self._fold_block(mod, mod.tree.body, mod.consts, None)

    def _fold_block(self, mod, body, env, cls) -> None:
        for st in body:
            if isinstance(st, ast.Assign) and len(st.targets) == 1:
                t = st.targets[0]
                if isinstance(t, ast.Name):
                    v = self.fold(st.value, mod, cls)
                    if v is not UNKNOWN:
                        env[t.id] = v
                    elif t.id in env:
                        del env[t.id]
            elif isinstance(st, ast.AnnAssign) and isinstance(st.target, ast.Name) and st.value:
                v = self.fold(st.value, mod, cls)
                if v is not UNKNOWN:
                    env[st.target.id] = v
            elif isinstance(st, ast.ClassDef):
                ci = mod.classes.get(st.name)
                if ci is not None:
                    self._fold_block(mod, st.body, ci.consts, ci)

    def fold(self, node: ast.AST, mod: Module, cls: ClassInfo | None = None, env: dict | None = None) -> Any:
        """Constant-fold an expression; UNKNOWN if not a compile-time constant."""
        try:
            return self._fold(node, mod, cls, env or {})
        except Exception:
            return UNKNOWN

    def _fold(self, node, mod, cls, env) -> Any:
        if isinstance(node, ast.Constant):
            return node.value
        if isinstance(node, ast.Name):
            if node.id in env:
                return env[node.id]
            if cls is not None and node.id in cls.consts:
                return cls.consts[node.id]
            if node.id in mod.consts:
                return mod.consts[node.id]
            imp = mod.imports.get(node.id)
            if imp and imp[1]:
                src = self._resolve_import_module(mod, imp[0])
                if src is not None and imp[1] in src.consts:
                    return src.consts[imp[1]]
            return UNKNOWN
        if isinstance(node, ast.Attribute) and node.attr in ("size", "format") and isinstance(node.value, (ast.Name, ast.Attribute)):
            fmt = self._struct_format_of(node.value, mod, cls)
            if fmt is None and isinstance(node.value, ast.Attribute) and isinstance(node.value.value, ast.Name) and node.value.value.id in self.classes:
                fmt = self._struct_format_of(node.value, mod, self.classes[node.value.value.id])
            if fmt is not None:
                return struct.calcsize(fmt) if node.attr == "size" else fmt
        if isinstance(node, ast.Attribute):
            # self.CONST / cls.CONST: a class-level constant that is never stored as an instance attribute
            if isinstance(node.value, ast.Name) and node.value.id in ("self", "cls") and cls is not None and node.attr not in self._stored_attr_names():
                for c in self.mro(cls):
                    if node.attr in c.consts:
                        return c.consts[node.attr]
            # Class.CONST or module.CONST
            if isinstance(node.value, ast.Name):
                base = node.value.id
                ci = mod.classes.get(base) or self.classes.get(base)
                if ci is not None:
                    for c in self.mro(ci):
                        if node.attr in c.consts:
                            return c.consts[node.attr]
                imp = mod.imports.get(base)
                if imp and imp[1] is None or (imp and imp[0].startswith(".")):
                    src = self._resolve_import_module(mod, imp[0] if imp[1] is None else imp[0] + "." + (imp[1] or ""))
                    if src is not None:
                        if node.attr in src.consts:
                            return src.consts[node.attr]
            if isinstance(node.value, ast.Attribute) and isinstance(node.value.value, ast.Name):
                # gateway_base.Message.CHANNEL_EXEC
                ci = self.classes.get(node.value.attr)
                if ci is not None and node.attr in ci.consts:
                    return ci.consts[node.attr]
            return UNKNOWN
        if isinstance(node, ast.Tuple):
            vals = [self._fold(e, mod, cls, env) for e in node.elts]
            if any(v is UNKNOWN for v in vals):
                return UNKNOWN
            return tuple(vals)
        if isinstance(node, ast.UnaryOp):
            v = self._fold(node.operand, mod, cls, env)
            if v is UNKNOWN:
                return UNKNOWN
            if isinstance(node.op, ast.USub):
                return -v
            if isinstance(node.op, ast.UAdd):
                return +v
            if isinstance(node.op, ast.Not):
                return not v
            if isinstance(node.op, ast.Invert):
                return ~v
        if isinstance(node, ast.BinOp):
            l = self._fold(node.left, mod, cls, env)
            r = self._fold(node.right, mod, cls, env)
            if l is UNKNOWN or r is UNKNOWN:
                return UNKNOWN
            ops = {
                ast.Add: lambda a, b: a + b,
                ast.Sub: lambda a, b: a - b,
                ast.Mult: lambda a, b: a * b,
                ast.Mod: lambda a, b: a % b,
                ast.Pow: lambda a, b: a**b if abs(b) < 128 else UNKNOWN,
                ast.LShift: lambda a, b: a << b if b < 128 else UNKNOWN,
                ast.BitOr: lambda a, b: a | b,
                ast.BitAnd: lambda a, b: a & b,
                ast.FloorDiv: lambda a, b: a // b,
            }
            f = ops.get(type(node.op))
            if f is None:
                return UNKNOWN
            return f(l, r)
        if isinstance(node, ast.Call):
            fn = unparse(node.func)
            args = [self._fold(a, mod, cls, env) for a in node.args]
            if any(a is UNKNOWN for a in args) or node.keywords:
                return UNKNOWN
            if fn == "struct.calcsize":
                return struct.calcsize(args[0])
            if fn == "bchr" and "bchr" in mod.functions:
                return bytes([args[0]])
            if fn == "bytes" and len(args) == 1 and isinstance(args[0], (list, tuple)):
                return bytes(args[0])
            if fn == "object" and not args:
                return UNKNOWN
            return UNKNOWN
        if isinstance(node, ast.List):
            vals = [self._fold(e, mod, cls, env) for e in node.elts]
            if any(v is UNKNOWN for v in vals):
                return UNKNOWN
            return vals
        return UNKNOWN

    def param_alias(self, fi: FuncInfo, pname: str) -> ast.AST | None:
        """`self.<stable chain>` a parameter of a method always stands for: the method has exactly one call site in the
        repo, it is `self.method(..)` in a method of the same class, and the actual argument is (a hoisted local of) an
        attribute chain on self that nothing re-binds.  ("pass the value instead of re-reading the attribute")"""
        cache = self.__dict__.setdefault("_param_alias", {})
        key = (fi.qualname, pname)
        if key in cache:
            return cache[key]
        cache[key] = None
        if fi.cls is None or pname in ("self", "cls"):
            return None
        formals = [a.arg for a in fi.node.args.args]
        if pname not in formals or not formals or formals[0] != "self":
            return None
        # the parameter must not be re-bound inside the method
        if any(isinstance(x, ast.Name) and x.id == pname and isinstance(x.ctx, (ast.Store, ast.Del)) for x in ast.walk(fi.node)):
            return None
        idx = self.__dict__.get("_attr_ref_index")
        if idx is None:
            # one pass over the repo: attribute name -> (number of references, call sites)
            idx = {}
            for m in self.modules.values():
                for x in ast.walk(m.tree):
                    if isinstance(x, ast.Attribute):
                        ent = idx.setdefault(x.attr, [0, []])
                        ent[0] += 1
                    if isinstance(x, ast.Call) and isinstance(x.func, ast.Attribute):
                        g_ = self.func_of_node.get(id(x))
                        if g_ is not None:
                            idx.setdefault(x.func.attr, [0, []])[1].append((g_, x))
            self.__dict__["_attr_ref_index"] = idx
        refs, sites = idx.get(fi.name, [0, []])
        if len(sites) != 1 or refs != 1:
            return None
        g, call = sites[0]
        if g.cls is None or g.cls.name != fi.cls.name or not (isinstance(call.func.value, ast.Name) and call.func.value.id == "self"):
            return None
        idx = formals.index(pname) - 1
        actual = call.args[idx] if idx < len(call.args) and not any(isinstance(a, ast.Starred) for a in call.args[:idx + 1]) else next((k.value for k in call.keywords if k.arg == pname), None)
        if actual is None:
            return None
        from .util import _chain_mutable, _is_chain
        e = actual
        for _ in range(3):
            if isinstance(e, ast.Name):
                al = self.local_alias(e.id, g)
                if al is None or isinstance(al, ast.Constant):
                    break
                e = al
        if isinstance(e, ast.Attribute) and _is_chain(e) and not _chain_mutable(self, e):
            root = e
            while isinstance(root, ast.Attribute):
                root = root.value
            if isinstance(root, ast.Name) and root.id == "self":
                cache[key] = e
        return cache[key]

    def _stored_attr_names(self) -> set[str]:
        """attribute names assigned through any object anywhere in the repo (`x.name = ...`, also in tuple targets)"""
        cached = self.__dict__.get("_stored_attrs")
        if cached is None:
            cached = set()
            for m in self.modules.values():
                for n in ast.walk(m.tree):
                    if isinstance(n, ast.Attribute) and isinstance(n.ctx, (ast.Store, ast.Del)):
                        cached.add(n.attr)
                    elif isinstance(n, ast.Call) and isinstance(n.func, ast.Name) and n.func.id == "setattr" and len(n.args) >= 2 and isinstance(n.args[1], ast.Constant):
                        cached.add(n.args[1].value)
            self.__dict__["_stored_attrs"] = cached
        return cached

    def _struct_format_of(self, e: ast.AST, mod: Module, cls: ClassInfo | None) -> str | None:
        """format string of a module-/class-level ``X = struct.Struct(<const>)`` binding named by e"""
        name = e.id if isinstance(e, ast.Name) else (e.attr if isinstance(e, ast.Attribute) and unparse(e.value) in ("self", "cls", "self.__class__") or
                                                     (isinstance(e, ast.Attribute) and isinstance(e.value, ast.Name) and e.value.id in self.classes) else None)
        if name is None:
            return None
        bodies = []
        if cls is not None:
            for c in self.mro(cls):
                bodies.append((c.node.body, c.module, c))
        if isinstance(e, ast.Attribute) and isinstance(e.value, ast.Name) and e.value.id in self.classes:
            c = self.classes[e.value.id]
            bodies.append((c.node.body, c.module, c))
        bodies.append((mod.tree.body, mod, None))
        for body, m, c in bodies:
            for st in body:
                tgt = st.targets[0] if isinstance(st, ast.Assign) and len(st.targets) == 1 else (st.target if isinstance(st, ast.AnnAssign) else None)
                v = getattr(st, "value", None)
                if isinstance(tgt, ast.Name) and tgt.id == name and isinstance(v, ast.Call) and unparse(v.func) in ("struct.Struct", "Struct") and v.args:
                    fmt = self.fold(v.args[0], m, c)
                    return fmt if isinstance(fmt, str) else None
        return None

    def _resolve_import_module(self, mod: Module, base: str) -> Module | None:
        name = base.lstrip(".")
        if name.startswith("execnet."):
            name = name[len("execnet."):]
        elif name == "execnet":
            name = "__init__"
        if name in self.modules:
            return self.modules[name]
        # relative inside a sub-package
        return None

    def struct_binding(self, fn: ast.AST, fi: FuncInfo) -> tuple[str, str] | None:
        """(format, 'pack'|'unpack') if `fn` denotes a bound method of a precompiled
        ``struct.Struct(<constant format>)`` (module- or class-level binding)."""
        def of_value(v: ast.AST, mod, cls) -> tuple[str | None, str | None]:
            meth = None
            if isinstance(v, ast.Attribute) and v.attr in ("pack", "unpack"):
                meth, v = v.attr, v.value
            if isinstance(v, ast.Call) and unparse(v.func) in ("struct.Struct", "Struct") and v.args:
                fmt = self.fold(v.args[0], mod, cls)
                if isinstance(fmt, str):
                    return fmt, meth
            return None, None

        def lookup(name: str):
            cls = self.class_of_func(fi)
            scopes = []
            if cls is not None:
                for c in self.mro(cls):
                    scopes.append((c.node.body, c.module, c))
            scopes.append((fi.module.tree.body, fi.module, None))
            for body, mod, c in scopes:
                for st in body:
                    tgt = st.targets[0] if isinstance(st, ast.Assign) else (st.target if isinstance(st, ast.AnnAssign) else None)
                    if isinstance(tgt, ast.Name) and tgt.id == name and getattr(st, "value", None) is not None:
                        return of_value(st.value, mod, c)
            return None, None

        meth = None
        e = fn
        if isinstance(e, ast.Attribute) and e.attr in ("pack", "unpack") and not (isinstance(e.value, ast.Name) and e.value.id == "struct"):
            meth, e = e.attr, e.value
        name = None
        if isinstance(e, ast.Name):
            al = self.local_alias(e.id, fi)
            if isinstance(al, (ast.Attribute, ast.Name)) and unparse(al) != e.id:
                e = al  # hoisted into a local
        if isinstance(e, ast.Name):
            name = e.id
        elif isinstance(e, ast.Attribute) and unparse(e.value) in ("self", "cls", "self.__class__"):
            name = e.attr
        elif isinstance(e, ast.Attribute) and isinstance(e.value, ast.Name) and e.value.id in self.classes:
            f0 = self._struct_format_of(e, fi.module, self.classes[e.value.id])
            if f0 is not None:
                return (f0, meth) if meth else None
        if name is None:
            return None
        fmt, m2 = lookup(name)
        if fmt is None:
            return None
        m = meth or m2
        return (fmt, m) if m else None

    def fold_in(self, node: ast.AST, fi: FuncInfo, env: dict | None = None) -> Any:
        cls = fi.cls
        p = fi
        while cls is None and p.parent is not None:
            p = p.parent
            cls = p.cls
        return self.fold(node, fi.module, cls, env)

    # --------------------------------------------------------------- registry
    def registry(self, clsname: str, attr: str) -> list[tuple[Any, ast.AST, ast.Assign]]:
        """Statically evaluate ``attr[KEY] = VALUE`` statements in a class body.

        Returns (folded key, value node, statement) in source order."""
        ci = self.cls(clsname)
        out = []
        for st in ci.node.body:
            if (
                isinstance(st, ast.Assign)
                and len(st.targets) == 1
                and isinstance(st.targets[0], ast.Subscript)
                and isinstance(st.targets[0].value, ast.Name)
                and st.targets[0].value.id == attr
            ):
                key = self.fold(st.targets[0].slice, ci.module, ci)
                out.append((key, st.value, st))
        return out

    # ------------------------------------------------------------ field types
    def _ann_class(self, ann: ast.AST | None) -> str | None:
        """Class name named by an annotation (``X``, ``X | None``, ``"X"``)."""
        if ann is None:
            return None
        if isinstance(ann, ast.Constant) and isinstance(ann.value, str):
            try:
                ann = ast.parse(ann.value, mode="eval").body
            except SyntaxError:
                return None
        if isinstance(ann, ast.Name):
            return ann.id if (ann.id in self.classes or ann.id in _PROTOCOLS) else None
        if isinstance(ann, ast.Attribute):
            return ann.attr if ann.attr in self.classes else None
        if isinstance(ann, ast.BinOp) and isinstance(ann.op, ast.BitOr):
            l = self._ann_class(ann.left)
            r = self._ann_class(ann.right)
            if l and r and l != r:
                return None
            return l or r
        return None

    def _ann_elem_class(self, ann: ast.AST | None) -> str | None:
        if isinstance(ann, ast.Constant) and isinstance(ann.value, str):
            try:
                ann = ast.parse(ann.value, mode="eval").body
            except SyntaxError:
                return None
        if isinstance(ann, ast.Subscript) and unparse(ann.value).split(".")[-1] in (
            "Iterator", "Sequence", "list", "Iterable", "set", "frozenset"
        ):
            return self._ann_class(ann.slice)
        return None

    def elem_type_of(self, it: ast.AST, fi: FuncInfo) -> str | None:
        """Element class of an iterable expression (for-loop targets)."""
        t = self.type_of(it, fi)
        if t and t in self.classes:
            m = self.lookup_method(self.classes[t], "__iter__")
            if m is not None:
                return self._ann_elem_class(m.node.returns)
        if isinstance(it, ast.Attribute):
            bt = self.type_of(it.value, fi)
            if bt and bt in self.classes:
                for c in self.mro(self.classes[bt]):
                    for meth in c.methods.values():
                        for n in self.own_nodes(meth):
                            if (isinstance(n, ast.AnnAssign) and isinstance(n.target, ast.Attribute)
                                    and n.target.attr == it.attr):
                                e = self._ann_elem_class(n.annotation)
                                if e:
                                    return e
                            if (isinstance(n, ast.Assign) and isinstance(n.targets[0], ast.Attribute)
                                    and n.targets[0].attr == it.attr and isinstance(n.value, ast.Name)):
                                for arg in meth.node.args.args:
                                    if arg.arg == n.value.id:
                                        e = self._ann_elem_class(arg.annotation)
                                        if e:
                                            return e
        if isinstance(it, ast.Name):
            p = fi
            while p is not None:
                for arg in p.node.args.args:
                    if arg.arg == it.id:
                        return self._ann_elem_class(arg.annotation)
                p = p.parent
        return None

    def _collect_field_types(self) -> None:
        for ci in {c.qualname: c for m in self.modules.values() for c in m.classes.values()}.values():
            # class-level annotations
            for st in ci.node.body:
                if isinstance(st, ast.AnnAssign) and isinstance(st.target, ast.Name):
                    t = self._ann_class(st.annotation)
                    if t:
                        ci.field_types[st.target.id] = t
            for m in ci.methods.values():
                for n in self.own_nodes(m):
                    tgt = val = ann = None
                    if isinstance(n, ast.Assign) and len(n.targets) == 1:
                        tgt, val = n.targets[0], n.value
                    elif isinstance(n, ast.AnnAssign):
                        tgt, val, ann = n.target, n.value, n.annotation
                    if not (
                        isinstance(tgt, ast.Attribute)
                        and isinstance(tgt.value, ast.Name)
                        and tgt.value.id == "self"
                    ):
                        continue
                    t = self._ann_class(ann) if ann is not None else None
                    if t is None and val is not None:
                        t = self.type_of(val, m, _depth=1)
                    if t and tgt.attr not in ci.field_types:
                        ci.field_types[tgt.attr] = t
                    if isinstance(val, ast.Name) and val.id in ci.module.functions:
                        attr = tgt.attr
                        if attr.startswith("__") and not attr.endswith("__"):
                            attr = f"_{ci.name}{attr}"
                        ci.field_funcs.setdefault(attr, ci.module.functions[val.id].qualname)

    def field_type(self, clsname: str, attr: str) -> str | None:
        ci = self.classes.get(clsname)
        if ci is None:
            return _PROTOCOL_FIELDS.get((clsname, attr))
        for c in [*self.mro(ci), *self.subclasses(ci)]:
            if attr in c.field_types:
                return c.field_types[attr]
        return None

    def class_of_func(self, fi: FuncInfo) -> ClassInfo | None:
        p: FuncInfo | None = fi
        while p is not None:
            if p.cls is not None:
                return p.cls
            p = p.parent
        return None

    def type_of(self, node: ast.AST, fi: FuncInfo, _depth: int = 0) -> str | None:
        """Best-effort static class of an expression inside fi (None = unknown)."""
        if _depth > 6:
            return None
        if isinstance(node, ast.Name):
            if node.id == "self":
                ci = self.class_of_func(fi)
                return ci.name if ci else None
            # parameters (also of enclosing functions)
            p: FuncInfo | None = fi
            while p is not None:
                a = p.node.args
                for arg in a.posonlyargs + a.args + a.kwonlyargs:
                    if arg.arg == node.id:
                        t = self._ann_class(arg.annotation)
                        if t:
                            return t
                        # first param of Message handlers named message/gateway carry annotations already
                        return None
                # single-assignment locals
                t = self._local_type(node.id, p, _depth)
                if t:
                    return t
                p = p.parent
            if node.id in self.classes:
                return None  # the class object itself
            return None
        if isinstance(node, ast.Attribute):
            bt = self.type_of(node.value, fi, _depth + 1)
            if bt is not None:
                ft = self.field_type(bt, node.attr)
                if ft:
                    return ft
            return None
        if isinstance(node, ast.Call):
            fn = node.func
            if isinstance(fn, ast.Name):
                if fn.id in self.classes:
                    return fn.id
                imp = fi.module.imports.get(fn.id)
                if imp is not None and imp[0] == "threading" and imp[1] in ("Lock", "RLock"):
                    return "Lock"
                if fn.id == "cast" and node.args:
                    return self._ann_class(node.args[0])
                tgt = fi.module.functions.get(fn.id)
                if tgt is not None:
                    return self._ann_class(tgt.node.returns)
            if isinstance(fn, ast.Attribute):
                if fn.attr in self.classes and isinstance(fn.value, ast.Name):
                    return fn.attr  # gateway_base.ChannelFactory(...)
                if fn.attr == "makefile":
                    mode = node.args[0] if node.args else None
                    for k in node.keywords:
                        if k.arg == "mode":
                            mode = k.value
                    if isinstance(mode, ast.Constant) and mode.value == "r":
                        return "ChannelFileRead"
                    return "ChannelFileWrite"
                if isinstance(fn.value, ast.Name) and fn.value.id in self.classes and fn.value.id != "self":
                    m = self.lookup_method(self.classes[fn.value.id], fn.attr)
                    if m is not None and self._local_assignments(fn.value.id, fi) == []:
                        return self._ann_class(m.node.returns)
                bt = self.type_of(fn.value, fi, _depth + 1)
                if bt and bt in self.classes:
                    m = self.lookup_method(self.classes[bt], fn.attr)
                    if m is not None:
                        r = self._ann_class(m.node.returns)
                        if r is not None or fn.attr not in ("Lock", "RLock", "Event"):
                            return r
                # execmodel factories
                if fn.attr in ("Lock", "RLock"):
                    return "Lock"
                if fn.attr == "Event":
                    return "Event"
                if fn.attr in ("Queue",):
                    return "FifoQueue"
                if fn.attr in ("LifoQueue", "PriorityQueue", "SimpleQueue"):
                    return fn.attr
                if fn.attr == "WeakValueDictionary":
                    return "WeakValueDictionary"
            return None
        if isinstance(node, ast.IfExp):
            return self.type_of(node.body, fi, _depth + 1) or self.type_of(node.orelse, fi, _depth + 1)
        if isinstance(node, ast.Subscript):
            bt = self.type_of(node.value, fi, _depth + 1)
            if bt and bt in self.classes:
                m = self.lookup_method(self.classes[bt], "__getitem__")
                if m is not None:
                    return self._ann_class(m.node.returns)
            return None
        return None

    def _local_assignments(self, name: str, fi: FuncInfo) -> list[ast.AST]:
        cache = self.__dict__.setdefault("_la_cache", {})
        key = id(fi.node)
        table = cache.get(key)
        if table is None:
            table = cache[key] = self._all_local_assignments(fi)
        return list(table.get(name, ()))

    def _all_local_assignments(self, fi: FuncInfo) -> dict[str, list[ast.AST]]:
        """name -> values assigned to it in fi (one walk per function)"""
        table: dict[str, list[ast.AST]] = {}
        names: set[str] = set()
        nodes = list(self.own_nodes(fi))
        for n in nodes:
            if isinstance(n, ast.Name) and isinstance(n.ctx, ast.Store):
                names.add(n.id)
        for name in names:
            table[name] = self._local_assignments_scan(name, nodes)
        return table

    def _local_assignments_scan(self, name: str, nodes: list) -> list[ast.AST]:
        out = []
        for n in nodes:
            if isinstance(n, ast.Assign):
                for t in n.targets:
                    if isinstance(t, ast.Name) and t.id == name:
                        out.append(n.value)
                    elif isinstance(t, ast.Tuple):
                        for i, e in enumerate(t.elts):
                            if isinstance(e, ast.Name) and e.id == name:
                                if isinstance(n.value, ast.Tuple) and len(n.value.elts) == len(t.elts):
                                    out.append(n.value.elts[i])
                                else:
                                    out.append(ast.Constant(value=None))
            elif isinstance(n, ast.AnnAssign) and isinstance(n.target, ast.Name) and n.target.id == name:
                out.append(n)
            elif isinstance(n, (ast.For, ast.comprehension)) and any(
                isinstance(x, ast.Name) and x.id == name for x in ast.walk(n.target)
            ):
                if isinstance(n.target, ast.Name):
                    out.append(_ForElem(n.iter))
                else:
                    out.append(ast.Constant(value=None))
            elif isinstance(n, ast.withitem) and n.optional_vars is not None and any(
                isinstance(x, ast.Name) and x.id == name for x in ast.walk(n.optional_vars)
            ):
                out.append(ast.Constant(value=None))
        return out

    def _local_type(self, name: str, fi: FuncInfo, depth: int) -> str | None:
        vals = self._local_assignments(name, fi)
        types = set()
        declared = None
        for v in vals:
            if isinstance(v, ast.AnnAssign):
                t = self._ann_class(v.annotation)
                if t is not None:
                    declared = t
                if t is None and v.value is not None:
                    t = self.type_of(v.value, fi, depth + 1)
            elif isinstance(v, _ForElem):
                t = self.elem_type_of(v.it, fi)
            else:
                t = self.type_of(v, fi, depth + 1)
            types.add(t)
        if declared is not None:
            return declared
        if len(types) == 1:
            return types.pop()
        return None

    def local_alias(self, name: str, fi: FuncInfo) -> ast.AST | None:
        """Single-assignment local -> its defining expression."""
        vals = self._local_assignments(name, fi)
        if len(vals) == 1:
            v0 = vals[0].value if isinstance(vals[0], ast.AnnAssign) else vals[0]
            if isinstance(v0, (ast.List, ast.Dict, ast.Set)) or (isinstance(v0, ast.Call) and not v0.args):
                # the local is the origin and an attribute is bound to the same object:  x = []; self.A = x
                pubs = [n for n in self.own_nodes(fi) if isinstance(n, ast.Assign) and len(n.targets) == 1 and isinstance(n.targets[0], ast.Attribute)
                        and isinstance(n.value, ast.Name) and n.value.id == name and unparse(n.targets[0].value) == "self"]
                if len(pubs) == 1:
                    return ast.copy_location(ast.Attribute(value=ast.Name(id="self", ctx=ast.Load()), attr=pubs[0].targets[0].attr, ctx=ast.Load()), pubs[0])
        if len(vals) > 1 and all(not isinstance(v, (ast.AnnAssign, _ForElem)) for v in vals) and len({unparse(v) for v in vals}) == 1 \
                and isinstance(vals[0], (ast.Attribute, ast.Name)):
            return vals[0]  # re-bound to the same attribute chain every time
        if len(vals) == 1 and isinstance(vals[0], _ForElem):
            return None
        if len(vals) == 1 and not isinstance(vals[0], ast.AnnAssign):
            return vals[0]
        if len(vals) == 1 and isinstance(vals[0], ast.AnnAssign):
            return vals[0].value
        return None

    # ---------------------------------------------------------- call resolve
    def resolve_call(self, call: ast.Call, fi: FuncInfo) -> list[FuncInfo]:
        return self.resolve_callee(call.func, fi)

    def resolve_callee(self, fn: ast.AST, fi: FuncInfo, _depth: int = 0) -> list[FuncInfo]:
        if _depth > 4:
            return []
        if isinstance(fn, ast.Name):
            # nested def in enclosing functions
            p: FuncInfo | None = fi
            while p is not None:
                q = f"{p.qualname}.{fn.id}"
                if q in self.funcs:
                    return [self.funcs[q]]
                p = p.parent
            # local alias: put = self.gateway._send
            p = fi
            while p is not None:
                al = self.local_alias(fn.id, p)
                if al is not None and not isinstance(al, ast.Constant):
                    # value taken from a class-level dict of functions: every registered function is a target
                    tbl = None
                    if isinstance(al, ast.Call) and isinstance(al.func, ast.Attribute) and al.func.attr == "get":
                        tbl = al.func.value
                    elif isinstance(al, ast.Subscript):
                        tbl = al.value
                    if isinstance(tbl, ast.Attribute) and unparse(tbl.value) in ("self", "cls", "self.__class__"):
                        ci = self.class_of_func(p)
                        vals = []
                        for c in (self.mro(ci) if ci else []):
                            for st in c.node.body:
                                tgt = st.targets[0] if isinstance(st, ast.Assign) else (st.target if isinstance(st, ast.AnnAssign) else None)
                                if isinstance(tgt, ast.Name) and tgt.id == tbl.attr and isinstance(getattr(st, "value", None), ast.Dict):
                                    for v in st.value.values:
                                        if isinstance(v, ast.Name) and v.id in c.methods:
                                            vals.append(c.methods[v.id])
                        if vals:
                            return vals
                    if isinstance(al, ast.Call) and unparse(al.func) in ("partial", "functools.partial") and al.args:
                        return self.resolve_callee(al.args[0], p, _depth + 1)
                    if isinstance(al, (ast.Attribute, ast.Name)) and unparse(al) != fn.id:
                        r = self.resolve_callee(al, p, _depth + 1)
                        if r:
                            return r
                p = p.parent
            if fn.id in fi.module.functions:
                return [fi.module.functions[fn.id]]
            if fn.id in fi.module.classes or fn.id in self.classes:
                ci = fi.module.classes.get(fn.id) or self.classes[fn.id]
                m = self.lookup_method(ci, "__init__")
                return [m] if m else []
            imp = fi.module.imports.get(fn.id)
            if imp and imp[1]:
                src = self._resolve_import_module(fi.module, imp[0])
                if src is not None:
                    if imp[1] in src.functions:
                        return [src.functions[imp[1]]]
                    if imp[1] in src.classes:
                        m = self.lookup_method(src.classes[imp[1]], "__init__")
                        return [m] if m else []
            return []
        if isinstance(fn, ast.Attribute):
            # super().m()
            if (
                isinstance(fn.value, ast.Call)
                and isinstance(fn.value.func, ast.Name)
                and fn.value.func.id == "super"
            ):
                ci = self.class_of_func(fi)
                if ci is not None:
                    for c in self.mro(ci)[1:]:
                        if fn.attr in c.methods:
                            return [c.methods[fn.attr]]
                return []
            # module.func
            if isinstance(fn.value, ast.Name):
                imp = fi.module.imports.get(fn.value.id)
                if imp is not None and fn.value.id not in ("self",):
                    src = self._resolve_import_module(
                        fi.module, imp[0] if imp[1] is None else f"{imp[0].rstrip('.')}.{imp[1]}" if imp[0].strip(".") else imp[1]
                    )
                    if src is not None:
                        if fn.attr in src.functions:
                            return [src.functions[fn.attr]]
                        if fn.attr in src.classes:
                            m = self.lookup_method(src.classes[fn.attr], "__init__")
                            return [m] if m else []
                # ClassName.method (static)
                ci = fi.module.classes.get(fn.value.id) or self.classes.get(fn.value.id)
                if ci is not None and self.type_of(fn.value, fi) is None:
                    m = self.lookup_method(ci, fn.attr)
                    return [m] if m else []
            bt = self.type_of(fn.value, fi)
            if bt is not None:
                if bt in _PROTOCOLS:
                    return self.protocol_targets(bt, fn.attr)
                ci = self.classes.get(bt)
                if ci is not None:
                    r = self.virtual_targets(ci, fn.attr)
                    if r:
                        return r
                    attr = fn.attr
                    if attr.startswith("__") and not attr.endswith("__"):
                        own = self.class_of_func(fi)
                        if own is not None:
                            attr = f"_{own.name}{attr}"
                    for c in [*self.mro(ci), *self.subclasses(ci)]:
                        if attr in c.field_funcs:
                            return [self.funcs[c.field_funcs[attr]]]
            return []
        return []

    def protocol_targets(self, proto: str, meth: str) -> list[FuncInfo]:
        out = []
        for cname in self.io_implementors(proto, meth):
            m = self.lookup_method(self.classes[cname], meth)
            if m is not None and m not in out:
                out.append(m)
        return out

    def io_implementors(self, proto: str = "IO", meth: str | None = None) -> list[str]:
        """Classes structurally implementing the IO protocol (recomputed)."""
        need = {"IO": {"read", "write", "close_read", "close_write", "wait", "kill"},
                "ReadIO": {"read"}, "WriteIO": {"write"}}[proto]
        out = []
        for name, ci in sorted(self.classes.items()):
            if name in _PROTOCOLS:
                continue
            have = set()
            for c in self.mro(ci):
                have |= set(c.methods)
            if proto == "IO":
                # full transports: read+write+close_write at least
                if {"read", "write", "close_read", "close_write"} <= have:
                    out.append(name)
            elif need <= have and ("read" in have or "write" in have):
                if name.startswith("ChannelFile") or {"close_read", "close_write"} <= have:
                    out.append(name)
        return out

    # ------------------------------------------------------------ call graph
    def callgraph(self) -> dict[str, set[str]]:
        if self._callgraph is not None:
            return self._callgraph
        g: dict[str, set[str]] = {q: set() for q in self.funcs}
        sites: dict[str, list[tuple[FuncInfo, ast.Call]]] = {q: [] for q in self.funcs}
        self.unresolved = 0
        self.resolved = 0
        for fi in self.funcs.values():
            for call in self.calls_in(fi):
                tg = self.resolve_call(call, fi)
                if tg:
                    self.resolved += 1
                else:
                    self.unresolved += 1
                for t in tg:
                    g[fi.qualname].add(t.qualname)
                    sites[t.qualname].append((fi, call))
                # function-valued arguments (thread entries, callbacks, partial)
                for a in list(call.args) + [k.value for k in call.keywords]:
                    if isinstance(a, (ast.Name, ast.Attribute)):
                        for t in self.resolve_callee(a, fi):
                            if unparse(a) not in ("self",):
                                g[fi.qualname].add(t.qualname)
            # edges visible only in the normal form (hoisted aliases propagated, new helpers inlined)
            try:
                nfi = self.flat(fi)
            except Exception:
                nfi = fi
            if nfi is not fi:
                for call in self.calls_in(nfi):
                    for t in self.resolve_call(call, nfi):
                        g[fi.qualname].add(t.qualname)
        self._callgraph = g
        self._callsites = sites
        return g

    def callsites(self, qualname: str) -> list[tuple[FuncInfo, ast.Call]]:
        self.callgraph()
        assert self._callsites is not None
        return self._callsites.get(qualname, [])

    def reachable(self, roots: Iterable[str], stop: Iterable[str] = ()) -> set[str]:
        g = self.callgraph()
        seen: set[str] = set()
        stop = set(stop)
        work = list(roots)
        while work:
            q = work.pop()
            if q in seen or q in stop:
                continue
            seen.add(q)
            work.extend(g.get(q, ()))
        return seen

    def loc(self, fi_or_mod, node: ast.AST | None = None) -> str:
        if isinstance(fi_or_mod, FuncInfo):
            rel = fi_or_mod.module.rel
            line = node.lineno if node is not None and hasattr(node, "lineno") else fi_or_mod.line
        else:
            rel = fi_or_mod.rel
            line = node.lineno if node is not None and hasattr(node, "lineno") else 1
        return f"{rel}:{line}"


_PROTOCOLS = {"IO", "ReadIO", "WriteIO"}
_PROTOCOL_FIELDS = {("IO", "execmodel"): "ExecModel"}


def _sub_bodies(st: ast.AST) -> list[list[ast.stmt]]:
    out = []
    for name in ("body", "orelse", "finalbody"):
        b = getattr(st, name, None)
        if b:
            out.append(b)
    for h in getattr(st, "handlers", []) or []:
        out.append(h.body)
    return out


def walk_no_nested(node: ast.AST) -> Iterator[ast.AST]:
    """ast.walk that does not descend into nested function/class/lambda bodies."""
    stack = [node]
    first = True
    while stack:
        n = stack.pop()
        yield n
        for c in ast.iter_child_nodes(n):
            if isinstance(c, (ast.FunctionDef, ast.AsyncFunctionDef, ast.ClassDef, ast.Lambda)):
                continue
            stack.append(c)
        first = False
