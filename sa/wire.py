"""Wire summaries: a syntax-directed translation of the serializer's writer
methods and the unserializer's loader methods into small terms (an effect
summary -- no values, no execution, no solver).

Writer terms  (lists of tokens):
  ("OP", b"K")                      constant bytes written
  ("INT4", sym)                     struct.pack("!i", sym)
  ("PACK", fmt, (sym, ...))         struct.pack(fmt, ...)
  ("RAW", sym)                      the bytes denoted by sym
  ("REC", sym)                      recursive _save(sym)
  ("ALT", guard, termA, termB)      if guard: A else: B
  ("STAR", iter, (vars), body)      for vars in iter: body
  ("GUARD", guard)                  DumpError raised unless guard

Reader terms:
  ("READ", n) ("INT4",) ("PUSH", value) ("POP", name) ("STORE", key, val)
  ("PUSHCOLL", T, n) ("STOP",) ("ALTCFG", flag, A, B)

A construct the translator does not understand is an AnalysisError (exit 2),
never a violation.
"""

from __future__ import annotations

import ast
import copy
import struct
from typing import Any

from .index import AnalysisError, ClassInfo, FuncInfo, Repo, UNKNOWN, norm, unparse
from .util import _Subst

MAXDEPTH = 8


class Unsupported(AnalysisError):
    pass


# ===================================================================== writer
class WriterTranslator:
    def __init__(self, repo: Repo, clsname: str = "_Serializer") -> None:
        self.repo = repo
        self.ci = repo.cls(clsname)
        self.conversions: list[str] = []
        self.guards: list[tuple[str, str]] = []

    def method(self, name: str) -> FuncInfo:
        m = self.repo.lookup_method(self.ci, name)
        if m is None:
            raise AnalysisError(f"writer method {name} vanished")
        return self.repo.flat(m)  # newly extracted helpers / context managers inlined

    def term_of(self, name: str) -> list:
        fi = self.method(name)
        params = [p for p in fi.params() if p != "self"]
        if len(params) != 1:
            raise Unsupported(f"{fi.short}: expected one value parameter")
        env = {params[0]: ast.Name(id="v", ctx=ast.Load())}
        return self.block(fi.node.body, fi, env, 0)

    # -- symbols
    def sym(self, e: ast.AST, fi: FuncInfo, env: dict[str, ast.AST]) -> str:
        e2 = _Subst(env).visit(copy.deepcopy(e))
        return self._canon(e2, fi)

    def _canon(self, e: ast.AST, fi: FuncInfo) -> str:
        v = self.repo.fold_in(e, fi)
        if v is not UNKNOWN and not isinstance(e, ast.Name):
            return repr(v)
        if isinstance(e, ast.Name):
            v = self.repo.fold_in(e, fi)
            return repr(v) if v is not UNKNOWN else e.id
        if isinstance(e, ast.Attribute):
            return f"{self._canon(e.value, fi)}.{e.attr}"
        if isinstance(e, ast.Call):
            fn = e.func
            if isinstance(fn, ast.Name) and fn.id in ("len", "str", "int", "enumerate", "sorted", "reversed", "list", "tuple", "set", "repr", "float", "abs"):
                return f"{fn.id}({', '.join(self._canon(a, fi) for a in e.args)})"
            if isinstance(fn, ast.Attribute):
                recv = self._canon(fn.value, fi)
                if fn.attr == "encode":
                    codec = self.repo.fold_in(e.args[0], fi) if e.args else "utf-8"
                    return f"encode[{codec}]({recv})"
                if fn.attr == "rstrip" and e.args and self.repo.fold_in(e.args[0], fi) == "L" and recv.startswith("str("):
                    return recv  # py2 legacy: str(int) never ends in 'L' on py3 (frozen normalisation)
                if fn.attr in ("items", "keys", "values") and not e.args:
                    return f"{fn.attr}({recv})"
                return f"{recv}.{fn.attr}({', '.join(self._canon(a, fi) for a in e.args)})"
            if isinstance(fn, ast.Name):
                return f"{fn.id}({', '.join(self._canon(a, fi) for a in e.args)})"
        if isinstance(e, ast.BinOp):
            return f"({self._canon(e.left, fi)} {type(e.op).__name__} {self._canon(e.right, fi)})"
        if isinstance(e, ast.UnaryOp):
            return f"({type(e.op).__name__} {self._canon(e.operand, fi)})"
        if isinstance(e, ast.Subscript):
            return f"{self._canon(e.value, fi)}[{self._canon(e.slice, fi)}]"
        if isinstance(e, ast.Constant):
            return repr(e.value)
        if isinstance(e, ast.Tuple):
            return "(" + ", ".join(self._canon(x, fi) for x in e.elts) + ")"
        raise Unsupported(f"writer: expression {norm(e)} not understood in {fi.short}")

    # -- guards
    def guard(self, t: ast.AST, fi: FuncInfo, env: dict[str, ast.AST]) -> Any:
        t2 = _Subst(env).visit(copy.deepcopy(t))
        for _ in range(3):  # env values may themselves mention env-bound names
            t2 = _Subst(env).visit(t2)
        iv = interval_of(self.repo, fi, t2)
        if iv is not None:
            try:
                var = self._canon(ast.parse(iv[0], mode="eval").body, fi)
            except SyntaxError:
                var = iv[0]
            return ("interval", var, iv[1], iv[2])
        if isinstance(t2, ast.UnaryOp) and isinstance(t2.op, ast.Not):
            return ("not", self.guard(t2.operand, fi, {}))
        if isinstance(t2, ast.BoolOp) and isinstance(t2.op, ast.Or):
            # v < LO or v > HI  ==  not (LO <= v <= HI)
            inner = interval_of(self.repo, fi, ast.UnaryOp(op=ast.Not(), operand=t2))
            if inner is not None:
                try:
                    var = self._canon(ast.parse(inner[0], mode="eval").body, fi)
                except SyntaxError:
                    var = inner[0]
                return ("not", ("interval", var, inner[1], inner[2]))
        try:
            return ("truthy", self._canon(t2, fi))
        except Unsupported:
            if isinstance(t2, (ast.Compare, ast.BoolOp)):
                # a condition the format does not know: kept as an opaque guard (the encoding then differs from the reference
                # wherever the two arms differ -- reported as a deviation, not as an unreadable construct)
                return ("cond", norm(t2))
            raise

    # -- statements
    def block(self, stmts: list[ast.stmt], fi: FuncInfo, env: dict[str, ast.AST], depth: int) -> list:
        env = dict(env)
        out: list = []
        for i, s in enumerate(stmts):
            # guard clause with early return:  if c: A; return   <rest>   ==   if c: A  else: <rest>
            if isinstance(s, ast.If) and not s.orelse and s.body and isinstance(s.body[-1], ast.Return) and s.body[-1].value is None and i + 1 < len(stmts):
                a = self.block(s.body[:-1], fi, env, depth)
                b = self.block(stmts[i + 1:], fi, env, depth)
                out.append(("ALT", self.guard(s.test, fi, env), a, b))
                return out
            out.extend(self.stmt(s, fi, env, depth))
        return out

    def stmt(self, s: ast.stmt, fi: FuncInfo, env: dict[str, ast.AST], depth: int) -> list:
        if isinstance(s, ast.Expr) and isinstance(s.value, ast.Constant):
            return []  # docstring
        if isinstance(s, ast.Pass):
            return []
        if isinstance(s, ast.Expr) and isinstance(s.value, ast.Call):
            return self.call(s.value, fi, env, depth)
        if isinstance(s, (ast.Assign, ast.AnnAssign)):
            tgts = s.targets if isinstance(s, ast.Assign) else [s.target]
            if len(tgts) == 1 and isinstance(tgts[0], ast.Name) and s.value is not None:
                env[tgts[0].id] = _Subst(env).visit(copy.deepcopy(s.value))
                return []
            raise Unsupported(f"writer: assignment {norm(s)} in {fi.short}")
        if isinstance(s, ast.If):
            a = self.block(s.body, fi, env, depth)
            b = self.block(s.orelse, fi, env, depth)
            g = self.guard(s.test, fi, env)
            if _is_raise(s.body) and not s.orelse:
                self.guards.append((fi.short, repr(("not", g))))
                return [("GUARD", ("not", g))]
            if _is_raise(s.orelse):
                return [("GUARD", g)] + a
            if _is_raise(s.body):
                return [("GUARD", ("not", g))] + b
            return [("ALT", g, a, b)]
        if isinstance(s, ast.For) and s.body and isinstance(s.body[-1], ast.AugAssign) and isinstance(s.body[-1].op, ast.Add) \
                and isinstance(s.body[-1].target, ast.Name) and self.repo.fold_in(s.body[-1].value, fi) == 1 \
                and isinstance(env.get(s.body[-1].target.id), ast.Constant) and env[s.body[-1].target.id].value == 0 and isinstance(s.target, ast.Name):
            # counter idiom:  i = 0; for x in xs: ...; i += 1   ==   for i, x in enumerate(xs): ...
            cnt = s.body[-1].target.id
            s = ast.copy_location(ast.For(target=ast.Tuple(elts=[ast.Name(id=cnt, ctx=ast.Store()), s.target], ctx=ast.Store()),
                                          iter=ast.Call(func=ast.Name(id="enumerate", ctx=ast.Load()), args=[s.iter], keywords=[]), body=s.body[:-1], orelse=s.orelse), s)
            ast.fix_missing_locations(s)
        if isinstance(s, ast.For):
            it = s.iter
            tvars = [unparse(x) for x in (s.target.elts if isinstance(s.target, ast.Tuple) else [s.target])]
            canon_vars = tuple(f"x{depth}_{i}" for i in range(len(tvars)))
            env2 = dict(env)
            for tv, cv in zip(tvars, canon_vars):
                env2[tv] = ast.Name(id=cv, ctx=ast.Load())
            body = self.block(s.body, fi, env2, depth + 1)
            if s.orelse:
                raise Unsupported(f"writer: for/else in {fi.short}")
            return [("STAR", self.sym(it, fi, env), canon_vars, body)]
        if isinstance(s, ast.Try):
            # try: B except E: raise DumpError  ==> B (conversion recorded)
            for h in s.handlers:
                if not _is_raise(h.body):
                    raise Unsupported(f"writer: handler that does not raise in {fi.short}")
                self.conversions.append(f"{fi.short}: {unparse(h.type)} -> {norm(h.body[-1])[:60]}")
            if s.finalbody:
                raise Unsupported(f"writer: try/finally in {fi.short}")
            out: list = []
            for b in list(s.body) + list(s.orelse):  # same scope: names bound here stay visible; `else` continues the body
                out.extend(self.stmt(b, fi, env, depth))
            return out
        if isinstance(s, ast.Raise):
            return [("GUARD", ("never",))]
        if isinstance(s, ast.Return) and s.value is None:
            return []
        raise Unsupported(f"writer: statement {norm(s)[:60]} in {fi.short} not understood")

    def call(self, c: ast.Call, fi: FuncInfo, env: dict[str, ast.AST], depth: int) -> list:
        fn = unparse(c.func)
        if fn == "self._write" and len(c.args) == 1:
            return self.tok(c.args[0], fi, env)
        if fn == "self._save" and len(c.args) == 1:
            return [("REC", self.sym(c.args[0], fi, env))]
        if fn.startswith("self.") and isinstance(c.func, ast.Attribute):
            m = self.repo.lookup_method(self.ci, c.func.attr)
            if m is None:
                raise Unsupported(f"writer: call {fn} in {fi.short} does not resolve")
            if depth > MAXDEPTH:
                raise Unsupported(f"writer: inlining depth exceeded at {fn}")
            formals = [a for a in m.node.args.args if a.arg != "self"]
            defaults = m.node.args.defaults
            dmap = dict(zip([a.arg for a in formals][len(formals) - len(defaults):], defaults))
            env2: dict[str, ast.AST] = {}
            for i, f in enumerate(formals):
                if i < len(c.args):
                    env2[f.arg] = _Subst(env).visit(copy.deepcopy(c.args[i]))
                elif any(k.arg == f.arg for k in c.keywords):
                    env2[f.arg] = _Subst(env).visit(copy.deepcopy([k.value for k in c.keywords if k.arg == f.arg][0]))
                elif f.arg in dmap:
                    env2[f.arg] = dmap[f.arg]
                else:
                    raise Unsupported(f"writer: missing argument {f.arg} for {fn}")
            return self.block(m.node.body, m, env2, depth + 1)
        raise Unsupported(f"writer: call {fn} in {fi.short} not understood")

    def tok(self, e: ast.AST, fi: FuncInfo, env: dict[str, ast.AST]) -> list:
        e2 = _Subst(env).visit(copy.deepcopy(e))
        v = self.repo.fold_in(e2, fi)
        if isinstance(v, bytes):
            return [("OP", v)]
        if isinstance(e2, ast.BinOp) and isinstance(e2.op, ast.Add):
            return self.tok(e2.left, fi, {}) + self.tok(e2.right, fi, {})
        if isinstance(e2, ast.IfExp):
            return [("ALT", self.guard(e2.test, fi, {}), self.tok(e2.body, fi, {}), self.tok(e2.orelse, fi, {}))]
        if isinstance(e2, ast.Call) and unparse(e2.func) != "struct.pack":
            sb = self.repo.struct_binding(e2.func, fi)
            if sb is not None and sb[1] == "pack":
                e2 = ast.Call(func=ast.parse("struct.pack", mode="eval").body, args=[ast.Constant(value=sb[0])] + list(e2.args), keywords=[])
        if isinstance(e2, ast.Call) and unparse(e2.func) == "struct.pack":
            fmt = self.repo.fold_in(e2.args[0], fi)
            if not isinstance(fmt, str):
                raise Unsupported(f"writer: struct.pack format not constant in {fi.short}")
            syms = tuple(self._canon(a, fi) for a in e2.args[1:])
            if fmt == "!i" and len(syms) == 1:
                return [("INT4", syms[0])]
            return [("PACK", fmt, syms)]
        return [("RAW", self._canon(e2, fi))]


def _is_raise(stmts: list[ast.stmt]) -> bool:
    return bool(stmts) and isinstance(stmts[-1], ast.Raise) and all(isinstance(s, (ast.Raise, ast.Expr, ast.Assign)) for s in stmts)


def interval_of(repo: Repo, fi: FuncInfo, t: ast.AST) -> tuple[str, int | None, int | None] | None:
    """(var, lo, hi) if `t` holds exactly for lo <= var <= hi (ints)."""
    def cmp1(l, op, r):
        lv, rv = repo.fold_in(l, fi), repo.fold_in(r, fi)
        if isinstance(rv, int) and not isinstance(rv, bool) and lv is UNKNOWN:
            var = unparse(l)
            return {ast.LtE: (var, None, rv), ast.Lt: (var, None, rv - 1), ast.GtE: (var, rv, None), ast.Gt: (var, rv + 1, None)}.get(type(op))
        if isinstance(lv, int) and not isinstance(lv, bool) and rv is UNKNOWN:
            var = unparse(r)
            return {ast.LtE: (var, lv, None), ast.Lt: (var, lv + 1, None), ast.GtE: (var, None, lv), ast.Gt: (var, None, lv - 1)}.get(type(op))
        return None

    def meet(a, b):
        if a is None or b is None or a[0] != b[0]:
            return None
        lo = a[1] if b[1] is None else (b[1] if a[1] is None else max(a[1], b[1]))
        hi = a[2] if b[2] is None else (b[2] if a[2] is None else min(a[2], b[2]))
        return (a[0], lo, hi)

    if isinstance(t, ast.Compare):
        left = t.left
        res = None
        first = True
        for op, right in zip(t.ops, t.comparators):
            c = cmp1(left, op, right)
            if c is None:
                return None
            res = c if first else meet(res, c)
            first = False
            left = right
        return res
    if isinstance(t, ast.BoolOp) and isinstance(t.op, ast.And):
        res = None
        for i, v in enumerate(t.values):
            c = interval_of(repo, fi, v)
            if c is None:
                return None
            res = c if i == 0 else meet(res, c)
        return res
    if isinstance(t, ast.UnaryOp) and isinstance(t.op, ast.Not) and isinstance(t.operand, ast.BoolOp) and isinstance(t.operand.op, ast.Or):
        # not (a or b) == (not a) and (not b); complements of half-lines are half-lines
        res = None
        for i, v in enumerate(t.operand.values):
            c = interval_of(repo, fi, v)
            if c is None:
                return None
            var, lo, hi = c
            if lo is not None and hi is not None:
                return None
            comp = (var, None, lo - 1) if lo is not None else (var, hi + 1, None)
            res = comp if i == 0 else meet(res, comp)
        return res
    return None


# ===================================================================== reader
class ReaderTranslator:
    def __init__(self, repo: Repo, clsname: str = "Unserializer") -> None:
        self.repo = repo
        self.ci = repo.cls(clsname)
        self.counter = 0

    def fresh(self, base: str) -> str:
        self.counter += 1
        return f"{base}#{self.counter}"

    def term_of(self, fi: FuncInfo) -> list:
        self.counter = 0
        self.pops = 0
        fi = self.repo.flat(fi)  # newly extracted helpers / context managers inlined
        terms, _ret = self.block(fi.node.body, fi, {}, 0)
        return terms

    def block(self, stmts, fi, env, depth):
        env = dict(env)
        out: list = []
        ret = None
        for i, s in enumerate(stmts):
            if isinstance(s, ast.If) and not s.orelse and s.body and isinstance(s.body[-1], ast.Return) and s.body[-1].value is None and i + 1 < len(stmts) \
                    and not all(isinstance(x, (ast.Raise, ast.Return)) for x in s.body):
                a, _ra = self.block(s.body[:-1], fi, env, depth)
                b, rb = self.block(stmts[i + 1:], fi, env, depth)
                if a == b:
                    out.extend(a)   # both ways of continuing read/write the same: the test is not format
                    return out, rb
                ttoks, tv = self.value(s.test, fi, env, depth)
                out.extend(ttoks + [("ALT", tv, a, b)])
                return out, rb
            t, r, stop = self.stmt(s, fi, env, depth)
            out.extend(t)
            if r is not None:
                ret = r
            if stop:
                break
        return out, ret

    def stmt(self, s, fi, env, depth):
        """returns (tokens, return value symbol or None, terminated)"""
        if isinstance(s, ast.Expr) and isinstance(s.value, ast.Constant):
            return [], None, False
        if isinstance(s, ast.Pass):
            return [], None, False
        if isinstance(s, ast.Expr):
            toks, _v = self.value(s.value, fi, env, depth)
            return toks, None, False
        if isinstance(s, (ast.Assign, ast.AnnAssign)):
            tgts = s.targets if isinstance(s, ast.Assign) else [s.target]
            if s.value is None:
                return [], None, False
            toks, v = self.value(s.value, fi, env, depth)
            if len(tgts) == 1 and isinstance(tgts[0], ast.Name) and isinstance(s.value, ast.Attribute) and unparse(s.value) == "self.stack":
                env[tgts[0].id] = ("stack",)
                return toks, None, False
            t = tgts[0]
            if len(tgts) == 1 and isinstance(t, ast.Name):
                env[t.id] = v
                return toks, None, False
            if len(tgts) == 1 and isinstance(t, (ast.Tuple, ast.List)) and all(isinstance(x, ast.Name) for x in t.elts):
                for i, x in enumerate(t.elts):
                    env[x.id] = ("index", v, ("const", i))
                return toks, None, False
            if len(tgts) == 1 and isinstance(t, ast.Subscript):
                btoks, base = self.value(t.value, fi, env, depth)
                ktoks, key = self.value(t.slice, fi, env, depth)
                return toks + btoks + ktoks + [("STORE", base, key, v)], None, False
            raise Unsupported(f"reader: assignment {norm(s)} in {fi.short}")
        if isinstance(s, ast.Return):
            if s.value is None:
                return [], None, True
            toks, v = self.value(s.value, fi, env, depth)
            return toks, v, True
        if isinstance(s, ast.Raise):
            name = unparse(s.exc).split("(")[0] if s.exc is not None else "reraise"
            if name == "_Stop":
                return [("STOP",)], None, True
            return [("RAISE", name)], None, True
        if isinstance(s, ast.If) and len(s.body) == 1 and len(s.orelse) == 1 and all(
                isinstance(x, ast.Assign) and len(x.targets) == 1 and isinstance(x.targets[0], ast.Name) for x in (s.body[0], s.orelse[0])) \
                and s.body[0].targets[0].id == s.orelse[0].targets[0].id:
            # if c: v = A else: v = B   (no stream effect)  ==  v = A if c else B
            ta, va = self.value(s.body[0].value, fi, env, depth)
            tb, vb = self.value(s.orelse[0].value, fi, env, depth)
            if not ta and not tb:
                tt, tv_ = self.value(s.test, fi, env, depth)
                env[s.body[0].targets[0].id] = ("ifexp", tv_, va, vb)
                return tt, None, False
        if isinstance(s, ast.If) and s.orelse and s.body:
            # one arm is a pure validation failure (only raises): the other arm is straight-line code of this scope
            def only_raises(arm):
                return all(isinstance(x, ast.Raise) and not (x.exc is not None and unparse(x.exc).split("(")[0] == "_Stop") for x in arm)
            keep = s.body if only_raises(s.orelse) else (s.orelse if only_raises(s.body) else None)
            if keep is not None:
                toks_k: list = []
                r_k = None
                stop_k = False
                for b_ in keep:
                    t_, rv_, stop_k = self.stmt(b_, fi, env, depth)
                    toks_k.extend(t_)
                    if rv_ is not None:
                        r_k = rv_
                    if stop_k:
                        break
                return toks_k, r_k, stop_k
        if isinstance(s, ast.If):
            test = unparse(s.test)
            (a, ra) = self.block(s.body, fi, env, depth)
            (b, rb) = self.block(s.orelse, fi, env, depth)
            # validation arms that only raise are error paths, not format
            if a and a[-1][0] == "RAISE" and all(x[0] == "RAISE" for x in a):
                return b, rb, False
            if b and b[-1][0] == "RAISE" and all(x[0] == "RAISE" for x in b):
                return a, ra, False
            if test in ("self.py2str_as_py3str", "self.py3str_as_py2str"):
                if ra is not None or rb is not None:
                    return [("ALTCFG", test.split(".")[1], a, b)], ("altcfg", test.split(".")[1], ra, rb), False
                # join env for values assigned in both arms
                self._join_env(s, fi, env, depth, test.split(".")[1])
                return [("ALTCFG", test.split(".")[1], a, b)], None, False
            if a == b:
                return a, ra, False
            ttoks, tv = self.value(s.test, fi, env, depth)
            return ttoks + [("ALT", tv, a, b)], None, False
        if isinstance(s, ast.Try):
            for h in s.handlers:
                toks, _r = self.block(h.body, fi, env, depth)
                if not (toks and toks[-1][0] == "RAISE"):
                    raise Unsupported(f"reader: handler that does not raise in {fi.short}")
            if s.finalbody:
                raise Unsupported(f"reader: try/finally in {fi.short}")
            toks = []
            r = None
            stop = False
            for b in list(s.body) + list(s.orelse):  # same scope; `else` continues the body
                t, rv, stop = self.stmt(b, fi, env, depth)
                toks.extend(t)
                if rv is not None:
                    r = rv
                if stop:
                    break
            return toks, r, stop
        if isinstance(s, ast.Delete):
            out = []
            for t in s.targets:
                if isinstance(t, ast.Subscript):
                    _tk, base = self.value(t.value, fi, env, depth)
                    sl = self._slice(t.slice, fi, env, depth)
                    out.append(("DEL", base, sl))
                else:
                    raise Unsupported(f"reader: del {norm(t)} in {fi.short}")
            return out, None, False
        if isinstance(s, ast.Assert):
            return [], None, False
        raise Unsupported(f"reader: statement {norm(s)[:60]} in {fi.short} not understood")

    def _join_env(self, s: ast.If, fi, env, depth, flag) -> None:
        ea, eb = dict(env), dict(env)
        for st in s.body:
            self.stmt(st, fi, ea, depth)
        for st in s.orelse:
            self.stmt(st, fi, eb, depth)
        for k in set(ea) | set(eb):
            if ea.get(k) != eb.get(k):
                env[k] = ("altcfg", flag, ea.get(k), eb.get(k))

    def _slice(self, sl, fi, env, depth):
        if isinstance(sl, ast.Name) and isinstance(env.get(sl.id), tuple) and env[sl.id] and env[sl.id][0] == "slice":
            return env[sl.id]
        if isinstance(sl, ast.Slice):
            lo = self.value(sl.lower, fi, env, depth)[1] if sl.lower is not None else None
            hi = self.value(sl.upper, fi, env, depth)[1] if sl.upper is not None else None
            return ("slice", lo, hi)
        return self.value(sl, fi, env, depth)[1]

    def value(self, e, fi, env, depth):
        """(tokens, symbolic value)"""
        if e is None:
            return [], None
        v = self.repo.fold_in(e, fi)
        if v is not UNKNOWN and not isinstance(e, ast.Name):
            return [], ("const", v)
        if isinstance(e, ast.Constant):
            return [], ("const", e.value)
        if isinstance(e, ast.Name):
            if e.id in env:
                return [], env[e.id]
            v = self.repo.fold_in(e, fi)
            if v is not UNKNOWN:
                return [], ("const", v)
            if e.id in ("tuple", "set", "frozenset", "list", "dict", "int", "float", "complex", "bytes", "str"):
                return [], ("type", e.id)
            return [], ("name", e.id)
        if isinstance(e, ast.Attribute):
            if unparse(e) == "self.stack":
                return [], ("stack",)
            if unparse(e.value) == "self":
                return [], ("field", e.attr)
            t, b = self.value(e.value, fi, env, depth)
            return t, ("attr", b, e.attr)
        if isinstance(e, ast.UnaryOp) and isinstance(e.op, ast.USub):
            t, v = self.value(e.operand, fi, env, depth)
            return t, ("neg", v)
        if isinstance(e, ast.UnaryOp) and isinstance(e.op, ast.Not):
            t, v = self.value(e.operand, fi, env, depth)
            return t, ("not", v)
        if isinstance(e, ast.Subscript):
            t, b = self.value(e.value, fi, env, depth)
            if isinstance(e.slice, ast.Slice):
                return t, ("getslice", b, self._slice(e.slice, fi, env, depth))
            t2, k = self.value(e.slice, fi, env, depth)
            if isinstance(k, tuple) and k and k[0] == "slice":
                return t + t2, ("getslice", b, k)
            return t + t2, ("index", b, k)
        if isinstance(e, ast.BinOp):
            t1, l = self.value(e.left, fi, env, depth)
            t2, r = self.value(e.right, fi, env, depth)
            return t1 + t2, ("binop", type(e.op).__name__, l, r)
        if isinstance(e, ast.List):
            vals = [self.value(x, fi, env, depth) for x in e.elts]
            return sum((t for t, _ in vals), []), ("listlit", tuple(v for _, v in vals))
        if isinstance(e, ast.Dict) and not e.keys:
            return [], ("emptydict",)
        if isinstance(e, ast.Starred):
            t, v = self.value(e.value, fi, env, depth)
            return t, ("star", v)
        if isinstance(e, ast.Compare) and len(e.ops) == 1 and isinstance(e.ops[0], (ast.Eq, ast.NotEq, ast.Gt, ast.Lt)):
            # a count compared with zero is the count's truth value:  n == 0 -> not n;  n != 0, n > 0, 0 < n -> n
            l_, r_ = e.left, e.comparators[0]
            zero = lambda x: isinstance(x, ast.Constant) and x.value == 0 and not isinstance(x.value, bool)  # noqa: E731
            op = type(e.ops[0])
            sub = None
            if zero(r_) and op in (ast.Eq, ast.NotEq, ast.Gt):
                sub, neg = l_, op is ast.Eq
            elif zero(l_) and op in (ast.Eq, ast.NotEq, ast.Lt):
                sub, neg = r_, op is ast.Eq
            if sub is not None:
                t, v = self.value(sub, fi, env, depth)
                return t, (("not", v) if neg else v)
        if isinstance(e, ast.Compare) or isinstance(e, ast.BoolOp):
            return [], ("cond", norm(e))
        if isinstance(e, ast.IfExp):
            tt, tv = self.value(e.test, fi, env, depth)
            ta, va = self.value(e.body, fi, env, depth)
            tb, vb = self.value(e.orelse, fi, env, depth)
            if ta or tb:
                raise Unsupported(f"reader: conditional expression with stream effects in {fi.short}")
            if isinstance(tv, tuple) and tv[0] == "field" and tv[1] in ("py2str_as_py3str", "py3str_as_py2str"):
                return tt, ("altcfg", tv[1], va, vb)
            return tt, ("ifexp", tv, va, vb)
        if isinstance(e, ast.Call):
            return self.call(e, fi, env, depth)
        raise Unsupported(f"reader: expression {norm(e)} in {fi.short} not understood")

    def call(self, c, fi, env, depth):
        fn = unparse(c.func)
        toks: list = []
        args = []
        for a in c.args:
            t, v = self.value(a, fi, env, depth)
            toks += t
            args.append(v)
        if isinstance(c.func, ast.Attribute) and isinstance(c.func.value, ast.Name) and env.get(c.func.value.id) == ("stack",):
            fn = "self.stack." + c.func.attr
        if fn == "self.stream.read" and len(args) == 1:
            name = self.fresh("read")
            return toks + [("READ", args[0], name)], ("bytes", name, args[0])
        if fn == "self.stack.append" and len(args) == 1:
            return toks + [("PUSH", args[0])], None
        if fn == "self.stack.pop" and not args:
            self.pops += 1
            name = f"pop#{self.pops}"
            return toks + [("POP", name)], ("popped", name)
        if fn == "struct.unpack" and len(args) == 2:
            return toks, ("unpack", args[0], args[1])
        if fn == "int.from_bytes" and args and isinstance(args[0], tuple) and args[0][0] == "bytes" and args[0][2][0] == "const" and args[0][2][1] in (1, 2, 4, 8):
            # int.from_bytes(<n bytes read>, "big", signed=...) is struct's network-order integer of that width
            order = args[1] if len(args) > 1 else None
            kws = {k.arg: self.repo.fold_in(k.value, fi) for k in c.keywords}
            if order is None and "byteorder" in kws:
                order = ("const", kws["byteorder"])
            signed = kws.get("signed", False)
            if order == ("const", "big") and isinstance(signed, bool):
                code = {1: "b", 2: "h", 4: "i", 8: "q"}[args[0][2][1]]
                fmt = "!" + (code if signed else code.upper())
                return toks, ("index", ("unpack", ("const", fmt), args[0]), ("const", 0))
        sb = self.repo.struct_binding(c.func, fi)
        if sb is not None and sb[1] == "unpack" and len(args) == 1:
            return toks, ("unpack", ("const", sb[0]), args[0])
        if fn in ("len", "type", "isinstance"):
            return toks, (fn,) + tuple(args)
        if fn == "slice" and len(args) == 2:
            return toks, ("slice", args[0], None if args[1] == ("const", None) else args[1])
        if fn in ("tuple", "set", "frozenset") and isinstance(c.func, ast.Name) and c.func.id not in env:
            return toks, ("call", ("type", fn), tuple(args))   # the same value whether the type is named here or passed in
        if fn in ("int", "complex", "tuple", "set", "frozenset", "list", "bytes", "str", "float"):
            return toks, ("call", fn, tuple(args))
        if isinstance(c.func, ast.Name) and isinstance(env.get(c.func.id), tuple) and env[c.func.id] and env[c.func.id][0] == "dispatch":
            alts = []
            for m in env[c.func.id][1]:
                formals = [a.arg for a in m.node.args.args]
                env2 = dict(zip(formals, args))
                if depth > MAXDEPTH:
                    raise Unsupported("reader: inlining depth exceeded")
                t, _r = self.block(m.node.body, m, env2, depth + 1)
                alts.append(t)
            if all(a == alts[0] for a in alts):
                return toks + alts[0], None
            raise Unsupported(f"reader: dispatch targets of {fn} in {fi.short} have different stream effects")
        if isinstance(c.func, ast.Name) and c.func.id in env:
            return toks, ("call", env[c.func.id], tuple(args))
        if isinstance(c.func, ast.Attribute) and c.func.attr == "get" and isinstance(c.func.value, ast.Attribute) and unparse(c.func.value.value) in ("self", "cls"):
            ms = []
            for cc in self.repo.mro(self.ci):
                for st in cc.node.body:
                    tgt = st.targets[0] if isinstance(st, ast.Assign) else (st.target if isinstance(st, ast.AnnAssign) else None)
                    if isinstance(tgt, ast.Name) and tgt.id == c.func.value.attr and isinstance(getattr(st, "value", None), ast.Dict):
                        ms = [cc.methods[v.id] for v in st.value.values if isinstance(v, ast.Name) and v.id in cc.methods]
            if ms:
                return toks, ("dispatch", ms)
        if isinstance(c.func, ast.Attribute) and c.func.attr == "decode":
            t, recv = self.value(c.func.value, fi, env, depth)
            return toks + t, ("decode", args[0] if args else ("const", "utf-8"), recv)
        if fn.startswith("self.") and isinstance(c.func, ast.Attribute) and unparse(c.func.value) == "self":
            m = self.repo.lookup_method(self.ci, c.func.attr)
            if m is None:
                raise Unsupported(f"reader: call {fn} in {fi.short} does not resolve")
            m = self.repo.flat(m)
            if depth > MAXDEPTH:
                raise Unsupported("reader: inlining depth exceeded")
            formals = [a.arg for a in m.node.args.args if a.arg != "self"]
            env2 = dict(zip(formals, args))
            t, r = self.block(m.node.body, m, env2, depth + 1)
            return toks + t, r
        if isinstance(c.func, ast.Attribute) and isinstance(c.func.value, ast.Name) and env.get(c.func.value.id) == ("field", "channelfactory") and c.func.attr == "new" and len(args) == 1:
            return toks, ("channel", args[0])
        if fn == "self.channelfactory.new" and len(args) == 1:
            return toks, ("channel", args[0])
        if fn.split(".")[-1] in ("LoadError", "EOFError", "DataFormatError"):
            return toks, ("exc",)
        raise Unsupported(f"reader: call {fn} in {fi.short} not understood")


# ============================================================= canonical forms
def canon_reader(term: list) -> list:
    """Canonicalise reader terms: READ names -> positional, INT4 recognition,
    collection idiom, value normalisation."""
    reads: dict[str, int] = {}

    def val(v):
        if v is None:
            return None
        if not isinstance(v, tuple) or not v:
            return v
        k = v[0]
        if k == "bytes":
            return ("R", reads.get(v[1], v[1]))
        if k == "call" and len(v) == 3 and isinstance(v[2], tuple) and len(v[2]) == 1 and isinstance(v[2][0], tuple) and v[2][0] and v[2][0][0] == "star" \
                and isinstance(v[2][0][1], tuple) and v[2][0][1][0] == "unpack":
            u = v[2][0][1]
            fmt = u[1][1] if isinstance(u[1], tuple) and u[1][0] == "const" else None
            if isinstance(fmt, str):
                nf = len(struct.unpack(fmt, b"\0" * struct.calcsize(fmt)))
                return ("call", v[1], tuple(("index", val(u), ("const", i)) if not (nf == 1) else val(("index", u, ("const", 0))) for i in range(nf)))
        if k == "index" and isinstance(v[1], tuple) and v[1][0] == "unpack" and v[2] == ("const", 0) and isinstance(v[1][1], tuple) \
                and v[1][1][0] == "const" and isinstance(v[1][1][1], str) and len(struct.unpack(v[1][1][1], b"\0" * struct.calcsize(v[1][1][1]))) > 1:
            return ("index", ("unpack", val(v[1][1]), val(v[1][2])), ("const", 0))
        if k == "call" and v[1] == "int" and len(v[2]) == 1:
            inner = val(v[2][0])
            if isinstance(inner, tuple) and inner and inner[0] == "int4":
                return inner  # int() of an int is the identity
        if k == "index" and isinstance(v[1], tuple) and v[1][0] == "unpack" and v[2] == ("const", 0):
            fmt = val(v[1][1])
            if fmt == ("const", "!i"):
                return ("int4", val(v[1][2]))
            return ("unpack0", fmt, val(v[1][2]))
        return tuple(val(x) if isinstance(x, tuple) else x for x in v)

    # reads are numbered along a path: the two arms of an alternative continue from the same count (only one of them runs)
    counter = [0]
    out = _canon_sub(term, reads, val, counter)
    return _collection_idiom(out)


def _canon_sub(term, reads, val, counter=None):
    counter = counter if counter is not None else [len(reads)]
    out = []
    for tok in term:
        if tok[0] == "READ":
            reads[tok[2]] = counter[0]
            counter[0] += 1
            out.append(("READ", val(tok[1])))
        elif tok[0] in ("ALTCFG", "ALT"):
            head = tok[1] if tok[0] == "ALTCFG" else val(tok[1])
            base = counter[0]
            c1, c2 = [base], [base]
            a1 = _canon_sub(tok[2], reads, val, c1)
            a2 = _canon_sub(tok[3], reads, val, c2)
            counter[0] = max(c1[0], c2[0])
            out.append((tok[0], head, a1, a2))
        else:
            out.append(tuple(val(x) if isinstance(x, tuple) else x for x in tok))
    return out


def _collection_idiom(term: list) -> list:
    """ALT(n, [PUSH T(stack[-n:]) after DEL stack[-n:]], [PUSH T()])  ==>  PUSHCOLL T n
    also:  ALT(n, [DEL stack[-n:]], []) ; PUSH (T(stack[-n:]) if n else T())   (value built first, then the same stack effect)"""
    out = []
    k = 0
    while k + 1 < len(term):
        a_, b_ = term[k], term[k + 1]
        if a_[0] == "ALT" and b_[0] == "PUSH" and isinstance(b_[1], tuple) and b_[1] and b_[1][0] == "ifexp" and a_[3] == [] and len(a_[2]) == 1 and a_[2][0][0] == "DEL":
            n = a_[1]
            neg = ("neg", n)
            _t, cond, va, vb = b_[1]
            if cond == n and a_[2][0][1] == ("stack",) and a_[2][0][2] == ("slice", neg, None) and isinstance(va, tuple) and va[0] == "call" \
                    and va[2] == (("getslice", ("stack",), ("slice", neg, None)),) and vb in (("call", va[1], ()), ("call", va[1], (("tuplelit", ()),)), ("call", va[1], (("const", ()),))):
                term = term[:k] + [("PUSHCOLL", va[1], n)] + term[k + 2:]
                continue
        k += 1
    for tok in term:
        if tok[0] == "ALT":
            n, a, b = tok[1], tok[2], tok[3]
            while isinstance(n, tuple) and n and n[0] == "not":
                n, a, b = n[1], b, a
            neg = ("neg", n)
            want_a = None
            if len(a) == 2 and a[0][0] == "DEL" and a[1][0] == "PUSH":
                d, p = a
                if d[1] == ("stack",) and d[2] == ("slice", neg, None) and isinstance(p[1], tuple) and p[1][0] == "call" \
                        and p[1][2] == (("getslice", ("stack",), ("slice", neg, None)),):
                    want_a = p[1][1]
            if want_a is not None and len(b) == 1 and b[0] == ("PUSH", ("call", want_a, ())):
                out.append(("PUSHCOLL", want_a, n))
                continue
        out.append(tok)
    return out


# ============================================================ normalisation
def normalize_writer(term: list) -> list:
    """drop GUARD tokens (error paths), rename loop variables by order of appearance"""
    names: dict[str, str] = {}

    def ren(sym):
        if not isinstance(sym, str):
            return sym
        import re
        return re.sub(r"x\d+_\d+", lambda m: names.get(m.group(0), m.group(0)), sym)

    def walk(t):
        out = []
        for tok in t:
            k = tok[0]
            if k == "GUARD":
                continue
            if k == "STAR":
                for v in tok[2]:
                    names.setdefault(v, f"e{len(names)}")
                out.append(("STAR", ren(tok[1]), tuple(names[v] for v in tok[2]), walk(tok[3])))
            elif k == "ALT":
                g, a, b = tok[1], walk(tok[2]), walk(tok[3])
                while isinstance(g, tuple) and g and g[0] == "not":
                    g, a, b = g[1], b, a
                out.append(("ALT", g, a, b))
            elif k in ("INT4", "RAW", "REC"):
                out.append((k, ren(tok[1])))
            elif k == "PACK":
                out.append((k, tok[1], tuple(ren(x) for x in tok[2])))
            else:
                out.append(tok)
        return out

    return walk(term)


def eval_cfg(term: list, flags: dict[str, bool]) -> list:
    """eliminate ALTCFG / altcfg values under one string-coercion setting"""
    def val(v):
        if isinstance(v, tuple) and v and v[0] == "altcfg":
            return val(v[2] if flags[v[1]] else v[3])
        if isinstance(v, tuple):
            return tuple(val(x) for x in v)
        return v

    out = []
    for tok in term:
        if tok[0] == "ALTCFG":
            out.extend(eval_cfg(tok[2] if flags[tok[1]] else tok[3], flags))
        else:
            out.append(tuple(val(x) for x in tok))
    return out


def diff_terms(a, b, path="") -> str | None:
    """first difference between two terms, human readable"""
    if type(a) is not type(b):
        return f"{path}: {a!r} != {b!r}"
    if isinstance(a, (list, tuple)):
        if len(a) != len(b):
            return f"{path}: length {len(a)} != {len(b)}: {a!r} vs {b!r}"
        for i, (x, y) in enumerate(zip(a, b)):
            d = diff_terms(x, y, f"{path}[{i}]")
            if d:
                return d
        return None
    if a != b:
        return f"{path}: {a!r} != {b!r}"
    return None
