"""Wire summaries: a syntax-directed translation of the serializer's writer
methods and the unserializer's loader methods into small terms (an effect
summary -- no values, no execution, no solver).

Writer terms  (lists of tokens):
  ("OP", b"K")                      constant bytes written
  ("INT4", sym)                     struct.pack("!i", sym)
  ("PACK", fmt, (sym, ...))         struct.pack(fmt, ...)
  ("RAW", sym)                      the bytes denoted by sym
  ("REC", sym)                      recursive _save(sym)
  ("ALT", guard, termA, termB)      if guard: A else: B
  ("STAR", iter, (vars), body)      for vars in iter: body
  ("GUARD", guard)                  DumpError raised unless guard

Reader terms:
  ("READ", n) ("INT4",) ("PUSH", value) ("POP", name) ("STORE", key, val)
  ("PUSHCOLL", T, n) ("STOP",) ("ALTCFG", flag, A, B)

A construct the translator does not understand is an AnalysisError (exit 2),
never a violation.
"""

from __future__ import annotations

import ast
import copy
import struct
from typing import Any

from .index import AnalysisError, ClassInfo, FuncInfo, Repo, UNKNOWN, norm, unparse
from .util import _Subst

MAXDEPTH = 8


class Unsupported(AnalysisError):
    pass


# ===================================================================== writer
class WriterTranslator:
    def __init__(self, repo: Repo, clsname: str = "_Serializer") -> None:
        self.repo = repo
        self.ci = repo.cls(clsname)
        self.conversions: list[str] = []
        self.guards: list[tuple[str, str]] = []

    def method(self, name: str) -> FuncInfo:
        m = self.repo.lookup_method(self.ci, name)
        if m is None:
            raise AnalysisError(f"writer method {name} vanished")
        return m

    def term_of(self, name: str) -> list:
        fi = self.method(name)
        params = [p for p in fi.params() if p != "self"]
        if len(params) != 1:
            raise Unsupported(f"{fi.short}: expected one value parameter")
        env = {params[0]: ast.Name(id="v", ctx=ast.Load())}
        return self.block(fi.node.body, fi, env, 0)

    # -- symbols
    def sym(self, e: ast.AST, fi: FuncInfo, env: dict[str, ast.AST]) -> str:
        e2 = _Subst(env).visit(copy.deepcopy(e))
        return self._canon(e2, fi)

    def _canon(self, e: ast.AST, fi: FuncInfo) -> str:
        v = self.repo.fold_in(e, fi)
        if v is not UNKNOWN and not isinstance(e, ast.Name):
            return repr(v)
        if isinstance(e, ast.Name):
            v = self.repo.fold_in(e, fi)
            return repr(v) if v is not UNKNOWN else e.id
        if isinstance(e, ast.Attribute):
            return f"{self._canon(e.value, fi)}.{e.attr}"
        if isinstance(e, ast.Call):
            fn = e.func
            if isinstance(fn, ast.Name) and fn.id in ("len", "str", "int", "enumerate", "sorted", "reversed", "list", "tuple", "set", "repr", "float", "abs"):
                return f"{fn.id}({', '.join(self._canon(a, fi) for a in e.args)})"
            if isinstance(fn, ast.Attribute):
                recv = self._canon(fn.value, fi)
                if fn.attr == "encode":
                    codec = self.repo.fold_in(e.args[0], fi) if e.args else "utf-8"
                    return f"encode[{codec}]({recv})"
                if fn.attr == "rstrip" and e.args and self.repo.fold_in(e.args[0], fi) == "L" and recv.startswith("str("):
                    return recv  # py2 legacy: str(int) never ends in 'L' on py3 (frozen normalisation)
                if fn.attr in ("items", "keys", "values") and not e.args:
                    return f"{fn.attr}({recv})"
                return f"{recv}.{fn.attr}({', '.join(self._canon(a, fi) for a in e.args)})"
            if isinstance(fn, ast.Name):
                return f"{fn.id}({', '.join(self._canon(a, fi) for a in e.args)})"
        if isinstance(e, ast.BinOp):
            return f"({self._canon(e.left, fi)} {type(e.op).__name__} {self._canon(e.right, fi)})"
        if isinstance(e, ast.UnaryOp):
            return f"({type(e.op).__name__} {self._canon(e.operand, fi)})"
        if isinstance(e, ast.Subscript):
            return f"{self._canon(e.value, fi)}[{self._canon(e.slice, fi)}]"
        if isinstance(e, ast.Constant):
            return repr(e.value)
        if isinstance(e, ast.Tuple):
            return "(" + ", ".join(self._canon(x, fi) for x in e.elts) + ")"
        raise Unsupported(f"writer: expression {norm(e)} not understood in {fi.short}")

    # -- guards
    def guard(self, t: ast.AST, fi: FuncInfo, env: dict[str, ast.AST]) -> Any:
        t2 = _Subst(env).visit(copy.deepcopy(t))
        iv = interval_of(self.repo, fi, t2)
        if iv is not None:
            try:
                var = self._canon(ast.parse(iv[0], mode="eval").body, fi)
            except SyntaxError:
                var = iv[0]
            return ("interval", var, iv[1], iv[2])
        if isinstance(t2, ast.UnaryOp) and isinstance(t2.op, ast.Not):
            return ("not", self.guard(t2.operand, fi, {}))
        return ("truthy", self._canon(t2, fi))

    # -- statements
    def block(self, stmts: list[ast.stmt], fi: FuncInfo, env: dict[str, ast.AST], depth: int) -> list:
        env = dict(env)
        out: list = []
        for s in stmts:
            out.extend(self.stmt(s, fi, env, depth))
        return out

    def stmt(self, s: ast.stmt, fi: FuncInfo, env: dict[str, ast.AST], depth: int) -> list:
        if isinstance(s, ast.Expr) and isinstance(s.value, ast.Constant):
            return []  # docstring
        if isinstance(s, ast.Pass):
            return []
        if isinstance(s, ast.Expr) and isinstance(s.value, ast.Call):
            return self.call(s.value, fi, env, depth)
        if isinstance(s, (ast.Assign, ast.AnnAssign)):
            tgts = s.targets if isinstance(s, ast.Assign) else [s.target]
            if len(tgts) == 1 and isinstance(tgts[0], ast.Name) and s.value is not None:
                env[tgts[0].id] = _Subst(env).visit(copy.deepcopy(s.value))
                return []
            raise Unsupported(f"writer: assignment {norm(s)} in {fi.short}")
        if isinstance(s, ast.If):
            a = self.block(s.body, fi, env, depth)
            b = self.block(s.orelse, fi, env, depth)
            g = self.guard(s.test, fi, env)
            if _is_raise(s.body) and not s.orelse:
                self.guards.append((fi.short, repr(("not", g))))
                return [("GUARD", ("not", g))]
            if _is_raise(s.orelse):
                return [("GUARD", g)] + a
            if _is_raise(s.body):
                return [("GUARD", ("not", g))] + b
            return [("ALT", g, a, b)]
        if isinstance(s, ast.For):
            it = s.iter
            tvars = [unparse(x) for x in (s.target.elts if isinstance(s.target, ast.Tuple) else [s.target])]
            canon_vars = tuple(f"x{depth}_{i}" for i in range(len(tvars)))
            env2 = dict(env)
            for tv, cv in zip(tvars, canon_vars):
                env2[tv] = ast.Name(id=cv, ctx=ast.Load())
            body = self.block(s.body, fi, env2, depth + 1)
            if s.orelse:
                raise Unsupported(f"writer: for/else in {fi.short}")
            return [("STAR", self.sym(it, fi, env), canon_vars, body)]
        if isinstance(s, ast.Try):
            # try: B except E: raise DumpError  ==> B (conversion recorded)
            for h in s.handlers:
                if not _is_raise(h.body):
                    raise Unsupported(f"writer: handler that does not raise in {fi.short}")
                self.conversions.append(f"{fi.short}: {unparse(h.type)} -> {norm(h.body[-1])[:60]}")
            if s.finalbody or s.orelse:
                raise Unsupported(f"writer: try/else/finally in {fi.short}")
            out: list = []
            for b in s.body:  # same scope: names bound here stay visible
                out.extend(self.stmt(b, fi, env, depth))
            return out
        if isinstance(s, ast.Raise):
            return [("GUARD", ("never",))]
        if isinstance(s, ast.Return) and s.value is None:
            return []
        raise Unsupported(f"writer: statement {norm(s)[:60]} in {fi.short} not understood")

    def call(self, c: ast.Call, fi: FuncInfo, env: dict[str, ast.AST], depth: int) -> list:
        fn = unparse(c.func)
        if fn == "self._write" and len(c.args) == 1:
            return self.tok(c.args[0], fi, env)
        if fn == "self._save" and len(c.args) == 1:
            return [("REC", self.sym(c.args[0], fi, env))]
        if fn.startswith("self.") and isinstance(c.func, ast.Attribute):
            m = self.repo.lookup_method(self.ci, c.func.attr)
            if m is None:
                raise Unsupported(f"writer: call {fn} in {fi.short} does not resolve")
            if depth > MAXDEPTH:
                raise Unsupported(f"writer: inlining depth exceeded at {fn}")
            formals = [a for a in m.node.args.args if a.arg != "self"]
            defaults = m.node.args.defaults
            dmap = dict(zip([a.arg for a in formals][len(formals) - len(defaults):], defaults))
            env2: dict[str, ast.AST] = {}
            for i, f in enumerate(formals):
                if i < len(c.args):
                    env2[f.arg] = _Subst(env).visit(copy.deepcopy(c.args[i]))
                elif any(k.arg == f.arg for k in c.keywords):
                    env2[f.arg] = _Subst(env).visit(copy.deepcopy([k.value for k in c.keywords if k.arg == f.arg][0]))
                elif f.arg in dmap:
                    env2[f.arg] = dmap[f.arg]
                else:
                    raise Unsupported(f"writer: missing argument {f.arg} for {fn}")
            return self.block(m.node.body, m, env2, depth + 1)
        raise Unsupported(f"writer: call {fn} in {fi.short} not understood")

    def tok(self, e: ast.AST, fi: FuncInfo, env: dict[str, ast.AST]) -> list:
        e2 = _Subst(env).visit(copy.deepcopy(e))
        v = self.repo.fold_in(e2, fi)
        if isinstance(v, bytes):
            return [("OP", v)]
        if isinstance(e2, ast.BinOp) and isinstance(e2.op, ast.Add):
            return self.tok(e2.left, fi, {}) + self.tok(e2.right, fi, {})
        if isinstance(e2, ast.Call) and unparse(e2.func) == "struct.pack":
            fmt = self.repo.fold_in(e2.args[0], fi)
            if not isinstance(fmt, str):
                raise Unsupported(f"writer: struct.pack format not constant in {fi.short}")
            syms = tuple(self._canon(a, fi) for a in e2.args[1:])
            if fmt == "!i" and len(syms) == 1:
                return [("INT4", syms[0])]
            return [("PACK", fmt, syms)]
        return [("RAW", self._canon(e2, fi))]


def _is_raise(stmts: list[ast.stmt]) -> bool:
    return bool(stmts) and isinstance(stmts[-1], ast.Raise) and all(isinstance(s, (ast.Raise, ast.Expr, ast.Assign)) for s in stmts)


def interval_of(repo: Repo, fi: FuncInfo, t: ast.AST) -> tuple[str, int | None, int | None] | None:
    """(var, lo, hi) if `t` holds exactly for lo <= var <= hi (ints)."""
    def cmp1(l, op, r):
        lv, rv = repo.fold_in(l, fi), repo.fold_in(r, fi)
        if isinstance(rv, int) and not isinstance(rv, bool) and lv is UNKNOWN:
            var = unparse(l)
            return {ast.LtE: (var, None, rv), ast.Lt: (var, None, rv - 1), ast.GtE: (var, rv, None), ast.Gt: (var, rv + 1, None)}.get(type(op))
        if isinstance(lv, int) and not isinstance(lv, bool) and rv is UNKNOWN:
            var = unparse(r)
            return {ast.LtE: (var, lv, None), ast.Lt: (var, lv + 1, None), ast.GtE: (var, None, lv), ast.Gt: (var, None, lv - 1)}.get(type(op))
        return None

    def meet(a, b):
        if a is None or b is None or a[0] != b[0]:
            return None
        lo = a[1] if b[1] is None else (b[1] if a[1] is None else max(a[1], b[1]))
        hi = a[2] if b[2] is None else (b[2] if a[2] is None else min(a[2], b[2]))
        return (a[0], lo, hi)

    if isinstance(t, ast.Compare):
        left = t.left
        res = None
        first = True
        for op, right in zip(t.ops, t.comparators):
            c = cmp1(left, op, right)
            if c is None:
                return None
            res = c if first else meet(res, c)
            first = False
            left = right
        return res
    if isinstance(t, ast.BoolOp) and isinstance(t.op, ast.And):
        res = None
        for i, v in enumerate(t.values):
            c = interval_of(repo, fi, v)
            if c is None:
                return None
            res = c if i == 0 else meet(res, c)
        return res
    if isinstance(t, ast.UnaryOp) and isinstance(t.op, ast.Not) and isinstance(t.operand, ast.BoolOp) and isinstance(t.operand.op, ast.Or):
        # not (a or b) == (not a) and (not b); complements of half-lines are half-lines
        res = None
        for i, v in enumerate(t.operand.values):
            c = interval_of(repo, fi, v)
            if c is None:
                return None
            var, lo, hi = c
            if lo is not None and hi is not None:
                return None
            comp = (var, None, lo - 1) if lo is not None else (var, hi + 1, None)
            res = comp if i == 0 else meet(res, comp)
        return res
    return None


# ===================================================================== reader
class ReaderTranslator:
    def __init__(self, repo: Repo, clsname: str = "Unserializer") -> None:
        self.repo = repo
        self.ci = repo.cls(clsname)
        self.counter = 0

    def fresh(self, base: str) -> str:
        self.counter += 1
        return f"{base}#{self.counter}"

    def term_of(self, fi: FuncInfo) -> list:
        self.counter = 0
        self.pops = 0
        terms, _ret = self.block(fi.node.body, fi, {}, 0)
        return terms

    def block(self, stmts, fi, env, depth):
        env = dict(env)
        out: list = []
        ret = None
        for s in stmts:
            t, r, stop = self.stmt(s, fi, env, depth)
            out.extend(t)
            if r is not None:
                ret = r
            if stop:
                break
        return out, ret

    def stmt(self, s, fi, env, depth):
        """returns (tokens, return value symbol or None, terminated)"""
        if isinstance(s, ast.Expr) and isinstance(s.value, ast.Constant):
            return [], None, False
        if isinstance(s, ast.Pass):
            return [], None, False
        if isinstance(s, ast.Expr):
            toks, _v = self.value(s.value, fi, env, depth)
            return toks, None, False
        if isinstance(s, (ast.Assign, ast.AnnAssign)):
            tgts = s.targets if isinstance(s, ast.Assign) else [s.target]
            if s.value is None:
                return [], None, False
            toks, v = self.value(s.value, fi, env, depth)
            t = tgts[0]
            if len(tgts) == 1 and isinstance(t, ast.Name):
                env[t.id] = v
                return toks, None, False
            if len(tgts) == 1 and isinstance(t, ast.Subscript):
                btoks, base = self.value(t.value, fi, env, depth)
                ktoks, key = self.value(t.slice, fi, env, depth)
                return toks + btoks + ktoks + [("STORE", base, key, v)], None, False
            raise Unsupported(f"reader: assignment {norm(s)} in {fi.short}")
        if isinstance(s, ast.Return):
            if s.value is None:
                return [], None, True
            toks, v = self.value(s.value, fi, env, depth)
            return toks, v, True
        if isinstance(s, ast.Raise):
            name = unparse(s.exc).split("(")[0] if s.exc is not None else "reraise"
            if name == "_Stop":
                return [("STOP",)], None, True
            return [("RAISE", name)], None, True
        if isinstance(s, ast.If):
            test = unparse(s.test)
            (a, ra) = self.block(s.body, fi, env, depth)
            (b, rb) = self.block(s.orelse, fi, env, depth)
            # validation arms that only raise are error paths, not format
            if a and a[-1][0] == "RAISE" and all(x[0] == "RAISE" for x in a):
                return b, rb, False
            if b and b[-1][0] == "RAISE" and all(x[0] == "RAISE" for x in b):
                return a, ra, False
            if test in ("self.py2str_as_py3str", "self.py3str_as_py2str"):
                if ra is not None or rb is not None:
                    return [("ALTCFG", test.split(".")[1], a, b)], ("altcfg", test.split(".")[1], ra, rb), False
                # join env for values assigned in both arms
                self._join_env(s, fi, env, depth, test.split(".")[1])
                return [("ALTCFG", test.split(".")[1], a, b)], None, False
            if a == b:
                return a, ra, False
            ttoks, tv = self.value(s.test, fi, env, depth)
            return ttoks + [("ALT", tv, a, b)], None, False
        if isinstance(s, ast.Try):
            for h in s.handlers:
                toks, _r = self.block(h.body, fi, env, depth)
                if not (toks and toks[-1][0] == "RAISE"):
                    raise Unsupported(f"reader: handler that does not raise in {fi.short}")
            if s.orelse or s.finalbody:
                raise Unsupported(f"reader: try/else/finally in {fi.short}")
            toks = []
            r = None
            stop = False
            for b in s.body:  # same scope
                t, rv, stop = self.stmt(b, fi, env, depth)
                toks.extend(t)
                if rv is not None:
                    r = rv
                if stop:
                    break
            return toks, r, stop
        if isinstance(s, ast.Delete):
            out = []
            for t in s.targets:
                if isinstance(t, ast.Subscript):
                    _tk, base = self.value(t.value, fi, env, depth)
                    sl = self._slice(t.slice, fi, env, depth)
                    out.append(("DEL", base, sl))
                else:
                    raise Unsupported(f"reader: del {norm(t)} in {fi.short}")
            return out, None, False
        if isinstance(s, ast.Assert):
            return [], None, False
        raise Unsupported(f"reader: statement {norm(s)[:60]} in {fi.short} not understood")

    def _join_env(self, s: ast.If, fi, env, depth, flag) -> None:
        ea, eb = dict(env), dict(env)
        for st in s.body:
            self.stmt(st, fi, ea, depth)
        for st in s.orelse:
            self.stmt(st, fi, eb, depth)
        for k in set(ea) | set(eb):
            if ea.get(k) != eb.get(k):
                env[k] = ("altcfg", flag, ea.get(k), eb.get(k))

    def _slice(self, sl, fi, env, depth):
        if isinstance(sl, ast.Slice):
            lo = self.value(sl.lower, fi, env, depth)[1] if sl.lower is not None else None
            hi = self.value(sl.upper, fi, env, depth)[1] if sl.upper is not None else None
            return ("slice", lo, hi)
        return self.value(sl, fi, env, depth)[1]

    def value(self, e, fi, env, depth):
        """(tokens, symbolic value)"""
        if e is None:
            return [], None
        v = self.repo.fold_in(e, fi)
        if v is not UNKNOWN and not isinstance(e, ast.Name):
            return [], ("const", v)
        if isinstance(e, ast.Constant):
            return [], ("const", e.value)
        if isinstance(e, ast.Name):
            if e.id in env:
                return [], env[e.id]
            v = self.repo.fold_in(e, fi)
            if v is not UNKNOWN:
                return [], ("const", v)
            if e.id in ("tuple", "set", "frozenset", "list", "dict", "int", "float", "complex", "bytes", "str"):
                return [], ("type", e.id)
            return [], ("name", e.id)
        if isinstance(e, ast.Attribute):
            if unparse(e) == "self.stack":
                return [], ("stack",)
            if unparse(e.value) == "self":
                return [], ("field", e.attr)
            t, b = self.value(e.value, fi, env, depth)
            return t, ("attr", b, e.attr)
        if isinstance(e, ast.UnaryOp) and isinstance(e.op, ast.USub):
            t, v = self.value(e.operand, fi, env, depth)
            return t, ("neg", v)
        if isinstance(e, ast.UnaryOp) and isinstance(e.op, ast.Not):
            t, v = self.value(e.operand, fi, env, depth)
            return t, ("not", v)
        if isinstance(e, ast.Subscript):
            t, b = self.value(e.value, fi, env, depth)
            if isinstance(e.slice, ast.Slice):
                return t, ("getslice", b, self._slice(e.slice, fi, env, depth))
            t2, k = self.value(e.slice, fi, env, depth)
            return t + t2, ("index", b, k)
        if isinstance(e, ast.BinOp):
            t1, l = self.value(e.left, fi, env, depth)
            t2, r = self.value(e.right, fi, env, depth)
            return t1 + t2, ("binop", type(e.op).__name__, l, r)
        if isinstance(e, ast.List):
            vals = [self.value(x, fi, env, depth) for x in e.elts]
            return sum((t for t, _ in vals), []), ("listlit", tuple(v for _, v in vals))
        if isinstance(e, ast.Dict) and not e.keys:
            return [], ("emptydict",)
        if isinstance(e, ast.Starred):
            t, v = self.value(e.value, fi, env, depth)
            return t, ("star", v)
        if isinstance(e, ast.Compare) or isinstance(e, ast.BoolOp):
            return [], ("cond", norm(e))
        if isinstance(e, ast.Call):
            return self.call(e, fi, env, depth)
        raise Unsupported(f"reader: expression {norm(e)} in {fi.short} not understood")

    def call(self, c, fi, env, depth):
        fn = unparse(c.func)
        toks: list = []
        args = []
        for a in c.args:
            t, v = self.value(a, fi, env, depth)
            toks += t
            args.append(v)
        if fn == "self.stream.read" and len(args) == 1:
            name = self.fresh("read")
            return toks + [("READ", args[0], name)], ("bytes", name, args[0])
        if fn == "self.stack.append" and len(args) == 1:
            return toks + [("PUSH", args[0])], None
        if fn == "self.stack.pop" and not args:
            self.pops += 1
            name = f"pop#{self.pops}"
            return toks + [("POP", name)], ("popped", name)
        if fn == "struct.unpack" and len(args) == 2:
            return toks, ("unpack", args[0], args[1])
        sb = self.repo.struct_binding(c.func, fi)
        if sb is not None and sb[1] == "unpack" and len(args) == 1:
            return toks, ("unpack", ("const", sb[0]), args[0])
        if fn in ("len", "type", "isinstance"):
            return toks, (fn,) + tuple(args)
        if fn in ("int", "complex", "tuple", "set", "frozenset", "list", "bytes", "str", "float"):
            return toks, ("call", fn, tuple(args))
        if isinstance(c.func, ast.Name) and c.func.id in env:
            return toks, ("call", env[c.func.id], tuple(args))
        if isinstance(c.func, ast.Attribute) and c.func.attr == "decode":
            t, recv = self.value(c.func.value, fi, env, depth)
            return toks + t, ("decode", args[0] if args else ("const", "utf-8"), recv)
        if fn.startswith("self.") and isinstance(c.func, ast.Attribute) and unparse(c.func.value) == "self":
            m = self.repo.lookup_method(self.ci, c.func.attr)
            if m is None:
                raise Unsupported(f"reader: call {fn} in {fi.short} does not resolve")
            if depth > MAXDEPTH:
                raise Unsupported("reader: inlining depth exceeded")
            formals = [a.arg for a in m.node.args.args if a.arg != "self"]
            env2 = dict(zip(formals, args))
            t, r = self.block(m.node.body, m, env2, depth + 1)
            return toks + t, r
        if fn == "self.channelfactory.new" and len(args) == 1:
            return toks, ("channel", args[0])
        if fn.split(".")[-1] in ("LoadError", "EOFError", "DataFormatError"):
            return toks, ("exc",)
        raise Unsupported(f"reader: call {fn} in {fi.short} not understood")


# ============================================================= canonical forms
def canon_reader(term: list) -> list:
    """Canonicalise reader terms: READ names -> positional, INT4 recognition,
    collection idiom, value normalisation."""
    reads: dict[str, int] = {}

    def val(v):
        if v is None:
            return None
        if not isinstance(v, tuple) or not v:
            return v
        k = v[0]
        if k == "bytes":
            return ("R", reads.get(v[1], v[1]))
        if k == "index" and isinstance(v[1], tuple) and v[1][0] == "unpack" and v[2] == ("const", 0):
            fmt = val(v[1][1])
            if fmt == ("const", "!i"):
                return ("int4", val(v[1][2]))
            return ("unpack0", fmt, val(v[1][2]))
        return tuple(val(x) if isinstance(x, tuple) else x for x in v)

    out = []
    for tok in term:
        if tok[0] == "READ":
            reads[tok[2]] = len(reads)
            out.append(("READ", val(tok[1])))
        elif tok[0] in ("ALTCFG",):
            out.append(("ALTCFG", tok[1], _canon_sub(tok[2], reads, val), _canon_sub(tok[3], reads, val)))
        elif tok[0] == "ALT":
            out.append(("ALT", val(tok[1]), _canon_sub(tok[2], reads, val), _canon_sub(tok[3], reads, val)))
        else:
            out.append(tuple(val(x) if isinstance(x, tuple) else x for x in tok))
    return _collection_idiom(out)


def _canon_sub(term, reads, val):
    out = []
    for tok in term:
        if tok[0] == "READ":
            reads[tok[2]] = len(reads)
            out.append(("READ", val(tok[1])))
        elif tok[0] in ("ALTCFG", "ALT"):
            out.append((tok[0], tok[1] if tok[0] == "ALTCFG" else val(tok[1]), _canon_sub(tok[2], reads, val), _canon_sub(tok[3], reads, val)))
        else:
            out.append(tuple(val(x) if isinstance(x, tuple) else x for x in tok))
    return out


def _collection_idiom(term: list) -> list:
    """ALT(n, [PUSH T(stack[-n:]) after DEL stack[-n:]], [PUSH T()])  ==>  PUSHCOLL T n"""
    out = []
    for tok in term:
        if tok[0] == "ALT":
            n, a, b = tok[1], tok[2], tok[3]
            neg = ("neg", n)
            want_a = None
            if len(a) == 2 and a[0][0] == "DEL" and a[1][0] == "PUSH":
                d, p = a
                if d[1] == ("stack",) and d[2] == ("slice", neg, None) and isinstance(p[1], tuple) and p[1][0] == "call" \
                        and p[1][2] == (("getslice", ("stack",), ("slice", neg, None)),):
                    want_a = p[1][1]
            if want_a is not None and len(b) == 1 and b[0] == ("PUSH", ("call", want_a, ())):
                out.append(("PUSHCOLL", want_a, n))
                continue
        out.append(tok)
    return out


# ============================================================ normalisation
def normalize_writer(term: list) -> list:
    """drop GUARD tokens (error paths), rename loop variables by order of appearance"""
    names: dict[str, str] = {}

    def ren(sym):
        if not isinstance(sym, str):
            return sym
        import re
        return re.sub(r"x\d+_\d+", lambda m: names.get(m.group(0), m.group(0)), sym)

    def walk(t):
        out = []
        for tok in t:
            k = tok[0]
            if k == "GUARD":
                continue
            if k == "STAR":
                for v in tok[2]:
                    names.setdefault(v, f"e{len(names)}")
                out.append(("STAR", ren(tok[1]), tuple(names[v] for v in tok[2]), walk(tok[3])))
            elif k == "ALT":
                out.append(("ALT", tok[1], walk(tok[2]), walk(tok[3])))
            elif k in ("INT4", "RAW", "REC"):
                out.append((k, ren(tok[1])))
            elif k == "PACK":
                out.append((k, tok[1], tuple(ren(x) for x in tok[2])))
            else:
                out.append(tok)
        return out

    return walk(term)


def eval_cfg(term: list, flags: dict[str, bool]) -> list:
    """eliminate ALTCFG / altcfg values under one string-coercion setting"""
    def val(v):
        if isinstance(v, tuple) and v and v[0] == "altcfg":
            return val(v[2] if flags[v[1]] else v[3])
        if isinstance(v, tuple):
            return tuple(val(x) for x in v)
        return v

    out = []
    for tok in term:
        if tok[0] == "ALTCFG":
            out.extend(eval_cfg(tok[2] if flags[tok[1]] else tok[3], flags))
        else:
            out.append(tuple(val(x) for x in tok))
    return out


def diff_terms(a, b, path="") -> str | None:
    """first difference between two terms, human readable"""
    if type(a) is not type(b):
        return f"{path}: {a!r} != {b!r}"
    if isinstance(a, (list, tuple)):
        if len(a) != len(b):
            return f"{path}: length {len(a)} != {len(b)}: {a!r} vs {b!r}"
        for i, (x, y) in enumerate(zip(a, b)):
            d = diff_terms(x, y, f"{path}[{i}]")
            if d:
                return d
        return None
    if a != b:
        return f"{path}: {a!r} != {b!r}"
    return None
