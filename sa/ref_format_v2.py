"""Frozen, independently written reference of execnet dump format version 2.

Written from the format description (doc/basics.rst "cross-interpreter
serialization", the 1.1 changelog and the opcode table pinned by
testing/test_serializer.py::test_opcodes) -- bytes and layout only, no source
fragments of the implementation.

  stream   := [version] value STOP            version = 0x02 (dumps/dump only)
  value    := 'L'                              None
            | 'R' | 'C'                        True | False
            | 'F' int4                         int in [-2**31, 2**31-1]
            | 'H' int4(len) decimal-ascii      any other int
            | 'G' int4 | 'I' int4(len) decimal py2 long (legacy, load: int)
            | 'D' ieee754-be-double            float   (struct '!d')
            | 'T' double double                complex (struct '!dd': real, imag)
            | 'A' int4(len) bytes              bytes
            | 'N' int4(len) utf-8              py3 str
            | 'M' int4(len) bytes              py2 str   (legacy)
            | 'S' int4(len) utf-8              py2 unicode (legacy)
            | 'K' int4(n) (value value 'P')*n  list: index, item, SETITEM
            | 'J' (value value 'P')*           dict: key, value, SETITEM in order
            | value*n '@' int4(n)              tuple
            | value*n 'O' int4(n)              set
            | value*n 'E' int4(n)              frozenset
            | 'B' int4(id)                     channel
  STOP     := 'Q'
  int4     := struct '!i' (big-endian signed 32 bit)
"""

from __future__ import annotations

OPCODES = {
    "BUILDTUPLE": b"@", "BYTES": b"A", "CHANNEL": b"B", "FALSE": b"C", "FLOAT": b"D", "FROZENSET": b"E",
    "INT": b"F", "LONG": b"G", "LONGINT": b"H", "LONGLONG": b"I", "NEWDICT": b"J", "NEWLIST": b"K",
    "NONE": b"L", "PY2STRING": b"M", "PY3STRING": b"N", "SET": b"O", "SETITEM": b"P", "STOP": b"Q",
    "TRUE": b"R", "UNICODE": b"S", "COMPLEX": b"T",
}
VERSION = b"\x02"
INT4_MIN, INT4_MAX = -(2**31), 2**31 - 1
INT4_FORMAT = "!i"
FLOAT_FORMAT = "!d"
COMPLEX_FORMAT = "!dd"
HEADER_FORMAT = "!bii"  # message frame: type, channel id, payload length

O = OPCODES


def _op(name):
    return ("OP", O[name])


def _integral(short, long):
    dec = "encode[ascii](str(v))"
    return [("ALT", ("interval", "v", INT4_MIN, INT4_MAX),
             [_op(short), ("INT4", "v")],
             [_op(long), ("INT4", f"len({dec})"), ("RAW", dec)])]


def _postorder(name):
    return [("STAR", "v", ("e0",), [("REC", "e0")]), _op(name), ("INT4", "len(v)")]


#: python type name -> writer term (guards that only raise DumpError omitted)
WRITER = {
    "NoneType": [_op("NONE")],
    "bool": [("ALT", ("truthy", "v"), [_op("TRUE")], [_op("FALSE")])],
    "int": _integral("INT", "LONGINT"),
    "long": _integral("LONG", "LONGLONG"),
    "float": [_op("FLOAT"), ("PACK", FLOAT_FORMAT, ("v",))],
    "complex": [_op("COMPLEX"), ("PACK", COMPLEX_FORMAT, ("v.real", "v.imag"))],
    "bytes": [_op("BYTES"), ("INT4", "len(v)"), ("RAW", "v")],
    "str": [_op("PY3STRING"), ("INT4", "len(encode[utf-8](v))"), ("RAW", "encode[utf-8](v)")],
    "list": [_op("NEWLIST"), ("INT4", "len(v)"),
             ("STAR", "enumerate(v)", ("e0", "e1"), [("REC", "e0"), ("REC", "e1"), _op("SETITEM")])],
    "dict": [_op("NEWDICT"),
             ("STAR", "items(v)", ("e0", "e1"), [("REC", "e0"), ("REC", "e1"), _op("SETITEM")])],
    "tuple": _postorder("BUILDTUPLE"),
    "set": _postorder("SET"),
    "frozenset": _postorder("FROZENSET"),
    "Channel": [_op("CHANNEL"), ("INT4", "v.id")],
}

_I4 = [("READ", ("const", 4))]
_INT = ("int4", ("R", 0))
_BSTR = _I4 + [("READ", _INT)]
_PAYLOAD = ("R", 1)


def reader(py2str_as_py3str: bool, py3str_as_py2str: bool) -> dict[bytes, list]:
    """opcode -> reader term under one string-coercion setting."""
    utf8 = ("decode", ("const", "utf-8"), _PAYLOAD)
    latin1 = ("decode", ("const", "latin-1"), _PAYLOAD)
    return {
        O["NONE"]: [("PUSH", ("const", None))],
        O["TRUE"]: [("PUSH", ("const", True))],
        O["FALSE"]: [("PUSH", ("const", False))],
        O["INT"]: _I4 + [("PUSH", _INT)],
        O["LONG"]: _I4 + [("PUSH", _INT)],
        O["LONGINT"]: _BSTR + [("PUSH", ("call", "int", (_PAYLOAD,)))],
        O["LONGLONG"]: _BSTR + [("PUSH", ("call", "int", (_PAYLOAD,)))],
        O["FLOAT"]: [("READ", ("const", 8)), ("PUSH", ("unpack0", ("const", FLOAT_FORMAT), ("R", 0)))],
        O["COMPLEX"]: [("READ", ("const", 16)),
                       ("PUSH", ("call", "complex", (("index", ("unpack", ("const", COMPLEX_FORMAT), ("R", 0)), ("const", 0)),
                                                      ("index", ("unpack", ("const", COMPLEX_FORMAT), ("R", 0)), ("const", 1)))))],
        O["BYTES"]: _BSTR + [("PUSH", _PAYLOAD)],
        O["PY3STRING"]: _BSTR + [("PUSH", _PAYLOAD if py3str_as_py2str else utf8)],
        O["PY2STRING"]: _BSTR + [("PUSH", latin1 if py2str_as_py3str else _PAYLOAD)],
        O["UNICODE"]: _BSTR + [("PUSH", utf8)],
        O["NEWLIST"]: _I4 + [("PUSH", ("binop", "Mult", ("const", [None]), _INT))],
        O["NEWDICT"]: [("PUSH", ("emptydict",))],
        O["SETITEM"]: [("POP", "pop#1"), ("POP", "pop#2"),
                       ("STORE", ("index", ("stack",), ("const", -1)), ("popped", "pop#2"), ("popped", "pop#1"))],
        O["BUILDTUPLE"]: _I4 + [("PUSHCOLL", ("type", "tuple"), _INT)],
        O["SET"]: _I4 + [("PUSHCOLL", ("type", "set"), _INT)],
        O["FROZENSET"]: _I4 + [("PUSHCOLL", ("type", "frozenset"), _INT)],
        O["STOP"]: [("STOP",)],
        O["CHANNEL"]: _I4 + [("PUSH", ("channel", _INT))],
    }


#: documented defaults of the string-coercion switches
DEFAULT_PUBLIC = (False, False)  # execnet.loads / load
DEFAULT_CHANNEL = (True, False)  # channels and gateways
