"""May-raise effect analysis: which exception classes can escape a function.

Syntax-directed walk with a small abstract state (guard facts, lower bound of
``len(self.stack)``, nullness of receiver fields), handler filtering through
the class hierarchy and bottom-up function summaries.  Origins are a frozen
table of *partial primitives* (DESIGN.md section 2.5); everything else a
function can do must be classified -- an unclassified callee at a rule site is
an analysis error (exit 2), never a silent pass.
"""

from __future__ import annotations

import ast
import struct
from dataclasses import dataclass, field
from typing import Callable, Iterable

from .cfg import ANY, handler_class_names, match
from .index import AnalysisError, FuncInfo, Repo, UNKNOWN, norm, unparse


@dataclass(frozen=True)
class Esc:
    cls: str
    exact: bool
    origin: str  # "file:line func: construct"
    kind: str  # primitive kind
    chain: tuple[str, ...] = ()

    def via(self, fn: str) -> "Esc":
        if len(self.chain) > 8:
            return self
        return Esc(self.cls, self.exact, self.origin, self.kind, (fn,) + self.chain)


class State:
    def __init__(self) -> None:
        self.facts: set[str] = set()
        self.stackmin = 0
        self.dead = False

    def copy(self) -> "State":
        s = State()
        s.facts = set(self.facts)
        s.stackmin = self.stackmin
        s.dead = self.dead
        return s

    @staticmethod
    def merge(a: "State", b: "State") -> "State":
        if a.dead:
            return b.copy()
        if b.dead:
            return a.copy()
        s = State()
        s.facts = a.facts & b.facts
        s.stackmin = min(a.stackmin, b.stackmin)
        return s


#: builtins / methods that cannot raise on the argument types they get here
TOTAL_CALLS = {
    "len", "isinstance", "type", "repr", "id", "bool", "callable", "hasattr", "tuple", "list", "dict",
    "bytes.decode:latin-1", "cast", "getattr3", "object", "enumerate", "iter", "super", "min", "max", "abs",
    "hex", "oct", "bin", "slice", "sorted", "reversed", "zip", "range", "memoryview", "bytearray", "divmod", "round", "sum", "any", "all",
}
TOTAL_METHODS = {
    "append", "items", "values", "keys", "join", "rstrip", "lstrip", "strip", "startswith", "endswith", "is_set",
    "copy", "getvalue", "format", "lower", "upper", "find", "split",
    "isdigit", "isalpha", "isalnum", "isascii", "isspace", "isdecimal", "removeprefix", "removesuffix", "partition", "rpartition", "rsplit", "count", "zfill",
}
EXC_CTORS = {"LoadError", "DumpError", "DataFormatError", "EOFError", "OSError", "ValueError", "TypeError",
             "KeyError", "IndexError", "RemoteError", "AttributeError", "RuntimeError", "NotImplementedError",
             "_Stop", "GatewayReceivedTerminate", "TimeoutError", "StopIteration", "AssertionError", "HostNotFound",
             "UnicodeDecodeError"}
EFFECTFUL = {"eval", "exec", "compile", "__import__", "open", "input", "breakpoint", "globals", "setattr", "delattr"}
EFFECTFUL_MODULES = {"os", "subprocess", "socket", "sys", "pickle", "marshal", "shutil", "importlib", "ctypes",
                     "tempfile", "shelve", "signal", "threading", "_thread"}

INT_CODES = {"b": (-128, 127), "B": (0, 255), "h": (-2**15, 2**15 - 1), "H": (0, 2**16 - 1),
             "i": (-2**31, 2**31 - 1), "I": (0, 2**32 - 1), "l": (-2**31, 2**31 - 1), "L": (0, 2**32 - 1),
             "q": (-2**63, 2**63 - 1), "Q": (0, 2**64 - 1)}


class Effects:
    def __init__(self, repo: Repo, *, field_null: dict[str, bool] | None = None,
                 dynamic: dict[tuple[str, str], list[FuncInfo]] | None = None,
                 stream_total: bool = True, strict: bool = True,
                 extra_total: Iterable[str] = (), io_write_raises: bool = False) -> None:
        self.repo = repo
        self.field_null = field_null or {}  # "self.channelfactory" -> True (is None) / False (not None)
        self.dynamic = dynamic or {}
        self.strict = strict
        self.extra_total = set(extra_total)
        self.summaries: dict[str, list[Esc]] = {}
        self.in_progress: set[str] = set()
        self.unclassified: list[tuple[FuncInfo, ast.Call]] = []
        self.effect_calls: list[tuple[FuncInfo, ast.Call, str]] = []
        self.alloc_sites: list[tuple[FuncInfo, ast.AST, bool]] = []
        self.analysed: list[str] = []
        self.exact_helpers: dict[str, bool] = {}
        self.primitive_sites: list[dict] = []
        self.used_a1 = False

    # ------------------------------------------------------------ summaries
    def escapes(self, fi: FuncInfo, init_facts: frozenset = frozenset()) -> list[Esc]:
        fi = self.repo.flat(fi)  # newly extracted helpers are analysed in the context of their caller
        q = fi.qualname if not init_facts else fi.qualname + "|" + ",".join(sorted(init_facts))
        if q in self.summaries:
            return self.summaries[q]
        if q in self.in_progress:
            return []  # recursion: fixed point reached by the outer iteration
        self.in_progress.add(q)
        if fi.qualname not in self.analysed:
            self.analysed.append(fi.qualname)
        body = fi.node.body if isinstance(fi.node.body, list) else [ast.Expr(value=fi.node.body)]
        st = State()
        st.facts = set(init_facts)
        res = self.block(body, fi, st)
        self.in_progress.discard(q)
        out = _dedup(res)
        self.summaries[q] = out
        return out

    # ------------------------------------------------------------- statements
    def block(self, stmts: list[ast.stmt], fi: FuncInfo, st: State) -> list[Esc]:
        out: list[Esc] = []
        for s in stmts:
            if st.dead:
                break
            out.extend(self.stmt(s, fi, st))
        return out

    def stmt(self, s: ast.stmt, fi: FuncInfo, st: State) -> list[Esc]:
        out: list[Esc] = []
        if isinstance(s, ast.Expr):
            return self.expr(s.value, fi, st)
        if isinstance(s, (ast.Assign, ast.AnnAssign, ast.AugAssign)):
            val = s.value
            if val is not None:
                out.extend(self.expr(val, fi, st))
            tgts = s.targets if isinstance(s, ast.Assign) else [s.target]
            for t in tgts:
                out.extend(self.store(t, fi, st, val))
            # (a, b) = <struct unpack>: element types and ranges follow from the format
            if len(tgts) == 1 and isinstance(tgts[0], (ast.Tuple, ast.List)) and isinstance(val, ast.Call):
                fmt = None
                if unparse(val.func) == "struct.unpack" and val.args:
                    fmt = self.repo.fold_in(val.args[0], fi)
                else:
                    sb = self.repo.struct_binding(val.func, fi)
                    if sb is not None and sb[1] == "unpack":
                        fmt = sb[0]
                if isinstance(fmt, str):
                    codes = [ch for ch in fmt.lstrip("!<>=@")]
                    for x, code in zip(tgts[0].elts, codes):
                        if isinstance(x, ast.Name):
                            if code in INT_CODES:
                                st.facts.add(f"type({x.id}) is int")
                                st.facts.add(f"{x.id}>={INT_CODES[code][0]}")
                                st.facts.add(f"{x.id}<={INT_CODES[code][1]}")
                            elif code in "df":
                                st.facts.add(f"type({x.id}) is float")
            # value-origin facts
            if isinstance(s, (ast.Assign, ast.AnnAssign)) and len(tgts) == 1 and isinstance(tgts[0], ast.Name) and val is not None:
                self._kill_name(st, tgts[0].id)
                self._origin_facts(tgts[0].id, val, fi, st)
            return out
        if isinstance(s, ast.Return):
            if s.value is not None:
                out.extend(self.expr(s.value, fi, st))
            st.dead = True
            return out
        if isinstance(s, ast.Raise):
            if s.exc is not None:
                if isinstance(s.exc, ast.Call):
                    for a in s.exc.args:
                        out.extend(self.expr(a, fi, st))
                    name = unparse(s.exc.func).split(".")[-1]
                    out.append(self.esc(name, True, fi, s, "raise"))
                elif isinstance(s.exc, ast.Name):
                    out.append(self.esc(s.exc.id, s.exc.id[:1].isupper() or s.exc.id.startswith("_"), fi, s, "raise"))
                else:
                    out.append(self.esc(ANY, False, fi, s, "raise"))
            else:
                out.append(self.esc("<reraise>", False, fi, s, "reraise"))
            st.dead = True
            return out
        if isinstance(s, ast.Assert):
            out.extend(self.expr(s.test, fi, st))
            v = self.truth(s.test, fi, st)
            if v is not True:
                out.append(self.esc("AssertionError", True, fi, s, "assert"))
            if v is False:
                st.dead = True
            # an assert is not a guard: it vanishes under -O
            return out
        if isinstance(s, ast.If):
            out.extend(self.expr(s.test, fi, st))
            v = self.truth(s.test, fi, st)
            s1, s2 = st.copy(), st.copy()
            self.assume(s.test, True, fi, s1)
            self.assume(s.test, False, fi, s2)
            if v is True:
                s2.dead = True
            if v is False:
                s1.dead = True
            if not s1.dead:
                out.extend(self.block(s.body, fi, s1))
            if not s2.dead:
                out.extend(self.block(s.orelse, fi, s2))
            m = State.merge(s1, s2)
            st.facts, st.stackmin, st.dead = m.facts, m.stackmin, (s1.dead and s2.dead)
            return out
        if isinstance(s, (ast.While, ast.For)):
            if isinstance(s, ast.While):
                out.extend(self.expr(s.test, fi, st))
            else:
                out.extend(self.expr(s.iter, fi, st))
            body_st = State()  # loop body: no facts survive the back edge
            body_st.facts = set()
            if isinstance(s, ast.While):
                self.assume(s.test, True, fi, body_st)
            out.extend(self.block(s.body, fi, body_st))
            infinite = isinstance(s, ast.While) and isinstance(s.test, ast.Constant) and bool(s.test.value) \
                and not any(isinstance(x, ast.Break) for b in s.body for x in ast.walk(b))
            st.facts = set()
            st.stackmin = 0
            if infinite:
                st.dead = True
            else:
                out.extend(self.block(s.orelse, fi, st))
            return out
        if isinstance(s, ast.Try):
            return self.try_stmt(s, fi, st)
        if isinstance(s, ast.With):
            sup: list[str] | None = None
            for it in s.items:
                ce = it.context_expr
                if isinstance(ce, ast.Call) and unparse(ce.func).split(".")[-1] == "suppress":
                    sup = []
                    for a in ce.args:
                        sup.extend(handler_class_names(self.repo, fi, a))
                else:
                    out.extend(self.expr(ce, fi, st))
            inner = self.block(s.body, fi, st)
            if sup is not None:
                inner = [e for e in inner if match(self.repo, e.cls, e.exact, sup) != "yes"]
                st.dead = False
            out.extend(inner)
            return out
        if isinstance(s, (ast.FunctionDef, ast.ClassDef, ast.Pass, ast.Import, ast.ImportFrom, ast.Global, ast.Nonlocal,
                          ast.Break, ast.Continue)):
            return out
        if isinstance(s, ast.Delete):
            for t in s.targets:
                if isinstance(t, ast.Subscript):
                    out.extend(self.expr(t.value, fi, st))
                    sl_alias = self.repo.local_alias(t.slice.id, fi) if isinstance(t.slice, ast.Name) else None
                    if not isinstance(t.slice, ast.Slice) and not (isinstance(sl_alias, ast.Call) and unparse(sl_alias.func) == "slice"):
                        out.extend(self.subscript(t, fi, st, store=True))
                if isinstance(t, ast.Name):
                    self._kill_name(st, t.id)
            return out
        raise AnalysisError(f"effects: statement kind {type(s).__name__} not modelled at {fi.module.rel}:{s.lineno}")

    def try_stmt(self, s: ast.Try, fi: FuncInfo, st: State) -> list[Esc]:
        out: list[Esc] = []
        entry = st.copy()
        body_st = st
        inner = self.block(s.body, fi, body_st)
        else_esc: list[Esc] = []
        if not body_st.dead:
            else_esc = self.block(s.orelse, fi, body_st)
        states = [body_st.copy()]
        remaining: list[Esc] = []
        caught_by: dict[int, list[Esc]] = {}
        for e in inner:
            handled = False
            for i, h in enumerate(s.handlers):
                m = match(self.repo, e.cls, e.exact, handler_class_names(self.repo, fi, h.type))
                if m == "yes":
                    caught_by.setdefault(i, []).append(e)
                    handled = True
                    break
                if m == "maybe":
                    caught_by.setdefault(i, []).append(e)
            if not handled:
                remaining.append(e)
        for i, h in enumerate(s.handlers):
            hs = entry.copy()
            hs.stackmin = 0
            hs.facts = set(entry.facts)
            hesc = self.block(h.body, fi, hs)
            # bare re-raise re-raises what reached the handler
            fixed = []
            for e in hesc:
                if e.kind == "reraise" and e.cls == "<reraise>":
                    for c in caught_by.get(i, []):
                        fixed.append(c)
                else:
                    fixed.append(e)
            # an unreachable handler contributes nothing
            if i in caught_by or not self.strict:
                remaining.extend(fixed)
                states.append(hs)
        out.extend(remaining)
        out.extend(else_esc)
        m = states[0]
        for x in states[1:]:
            m = State.merge(m, x)
        all_dead = all(x.dead for x in states)
        st.facts, st.stackmin, st.dead = m.facts, m.stackmin, all_dead
        if s.finalbody:
            fs = st.copy()
            fs.dead = False
            fs.stackmin = 0
            out.extend(self.block(s.finalbody, fi, fs))
            if fs.dead:
                st.dead = True
        return out

    # ------------------------------------------------------------ expressions
    def esc(self, cls: str, exact: bool, fi: FuncInfo, node: ast.AST, kind: str) -> Esc:
        return Esc(cls, exact, f"{fi.module.rel}:{getattr(node, 'lineno', fi.line)} {fi.short}: {norm(node)[:90]}", kind)

    def expr(self, e: ast.AST | None, fi: FuncInfo, st: State) -> list[Esc]:
        out: list[Esc] = []
        if e is None or isinstance(e, (ast.Constant, ast.Name)):
            return out
        if isinstance(e, ast.Call):
            return self.call(e, fi, st)
        if isinstance(e, ast.Attribute):
            out.extend(self.expr(e.value, fi, st))
            return out
        if isinstance(e, ast.Subscript):
            out.extend(self.expr(e.value, fi, st))
            sl_alias = self.repo.local_alias(e.slice.id, fi) if isinstance(e.slice, ast.Name) else None
            if isinstance(sl_alias, ast.Call) and unparse(sl_alias.func) == "slice":
                return out  # slicing never raises on list/bytes
            if isinstance(e.slice, ast.Slice):
                for x in (e.slice.lower, e.slice.upper, e.slice.step):
                    out.extend(self.expr(x, fi, st))
                return out
            out.extend(self.expr(e.slice, fi, st))
            out.extend(self.subscript(e, fi, st, store=False))
            return out
        if isinstance(e, ast.BinOp):
            out.extend(self.expr(e.left, fi, st))
            out.extend(self.expr(e.right, fi, st))
            if isinstance(e.op, ast.Mod) and isinstance(e.left, ast.Constant) and isinstance(e.left.value, (str, bytes)) \
                    and not isinstance(e.right, (ast.Tuple, ast.Dict)) and self._loaded_object(e.right, fi) \
                    and not any(f.startswith(f"type({unparse(e.right)}) is ") and not f.endswith(" is tuple") for f in st.facts):
                # `"...%r" % x` with x an arbitrary loaded object: a tuple x is taken as the argument *list*
                out.append(self.esc("TypeError", True, fi, e, "format"))
            if isinstance(e.op, ast.Mult):
                # sequence repetition sized by data: allocation site
                for seq, n in ((e.left, e.right), (e.right, e.left)):
                    if isinstance(seq, ast.Name):
                        al = self.repo.local_alias(seq.id, fi)
                        if isinstance(al, (ast.List, ast.Tuple)):
                            seq = al
                    if isinstance(seq, (ast.List, ast.Tuple)) or (isinstance(seq, ast.Constant) and isinstance(seq.value, (bytes, str))):
                        bounded = self._bounded(n, fi, st)
                        self.alloc_sites.append((fi, e, bounded))
            return out
        if isinstance(e, (ast.BoolOp,)):
            for v in e.values:
                out.extend(self.expr(v, fi, st))
            return out
        if isinstance(e, ast.Compare):
            out.extend(self.expr(e.left, fi, st))
            for c in e.comparators:
                out.extend(self.expr(c, fi, st))
            return out
        if isinstance(e, ast.UnaryOp):
            return self.expr(e.operand, fi, st)
        if isinstance(e, ast.IfExp):
            out.extend(self.expr(e.test, fi, st))
            out.extend(self.expr(e.body, fi, st))
            out.extend(self.expr(e.orelse, fi, st))
            return out
        if isinstance(e, (ast.Tuple, ast.List, ast.Set)):
            for x in e.elts:
                out.extend(self.expr(x, fi, st))
            return out
        if isinstance(e, ast.Dict):
            for x in list(e.keys) + list(e.values):
                out.extend(self.expr(x, fi, st))
            return out
        if isinstance(e, ast.Starred):
            return self.expr(e.value, fi, st)
        if isinstance(e, ast.JoinedStr):
            for v in e.values:
                if isinstance(v, ast.FormattedValue):
                    out.extend(self.expr(v.value, fi, st))
            return out
        if isinstance(e, (ast.ListComp, ast.SetComp, ast.GeneratorExp, ast.DictComp)):
            inner = State()
            for g in e.generators:
                out.extend(self.expr(g.iter, fi, inner))
                for c in g.ifs:
                    out.extend(self.expr(c, fi, inner))
            if isinstance(e, ast.DictComp):
                out.extend(self.expr(e.key, fi, inner))
                out.extend(self.expr(e.value, fi, inner))
            else:
                out.extend(self.expr(e.elt, fi, inner))
            return out
        if isinstance(e, ast.Lambda):
            return out
        if isinstance(e, ast.NamedExpr):
            return self.expr(e.value, fi, st)
        raise AnalysisError(f"effects: expression kind {type(e).__name__} not modelled at {fi.module.rel}:{getattr(e, 'lineno', 0)}")

    def _loaded_object(self, x: ast.AST, fi: FuncInfo, depth: int = 0) -> bool:
        """x is an element of the loader stack: an object of any serialisable type, tuples included"""
        if isinstance(x, ast.Name) and depth < 4:
            al = self.repo.local_alias(x.id, fi)
            return al is not None and self._loaded_object(al, fi, depth + 1)
        base = None
        if isinstance(x, ast.Call) and isinstance(x.func, ast.Attribute) and x.func.attr == "pop":
            base = x.func.value
        elif isinstance(x, ast.Subscript) and not isinstance(x.slice, ast.Slice):
            base = x.value
        if base is None:
            return False
        if isinstance(base, ast.Name):
            al = self.repo.local_alias(base.id, fi)
            base = al if al is not None else base
        return unparse(base) == "self.stack"

    def _is_bytes_value(self, e: ast.AST, fi: FuncInfo) -> bool:
        """a value that is a bytes object by construction: the result of an exact-read helper or of stream.read"""
        if isinstance(e, ast.Name):
            al = self.repo.local_alias(e.id, fi)
            return al is not None and self._is_bytes_value(al, fi)
        if isinstance(e, ast.Call):
            if isinstance(e.func, ast.Attribute) and e.func.attr == "read" and unparse(e.func.value).endswith("stream"):
                return True
            return any(self.is_exact_read(t) for t in self.repo.resolve_call(e, fi))
        return False

    def _bounded(self, n: ast.AST, fi: FuncInfo, st: State) -> bool:
        if isinstance(n, ast.Constant):
            return True
        return f"bounded({unparse(n)})" in st.facts

    def store(self, t: ast.AST, fi: FuncInfo, st: State, val: ast.AST | None) -> list[Esc]:
        out: list[Esc] = []
        if isinstance(t, ast.Subscript):
            out.extend(self.expr(t.value, fi, st))
            if not isinstance(t.slice, ast.Slice):
                out.extend(self.expr(t.slice, fi, st))
                out.extend(self.subscript(t, fi, st, store=True))
        elif isinstance(t, (ast.Tuple, ast.List)):
            # unpacking a value of unknown arity
            if not (isinstance(val, (ast.Tuple, ast.List)) and len(val.elts) == len(t.elts)) and not self._arity_known(val, len(t.elts), fi):
                out.append(self.esc("ValueError", False, fi, t, "unpack"))
                out.append(self.esc("TypeError", False, fi, t, "unpack"))
            for x in t.elts:
                out.extend(self.store(x, fi, st, None))
        elif isinstance(t, ast.Attribute):
            out.extend(self.expr(t.value, fi, st))
            for f in list(st.facts):
                if unparse(t) in f:
                    st.facts.discard(f)
        elif isinstance(t, ast.Name):
            self._kill_name(st, t.id)
        return out

    def _arity_known(self, val: ast.AST | None, n: int, fi: FuncInfo) -> bool:
        if isinstance(val, ast.Call) and unparse(val.func) == "struct.unpack" and val.args:
            fmt = self.repo.fold_in(val.args[0], fi)
            if isinstance(fmt, str):
                try:
                    return len(struct.unpack(fmt, b"\0" * struct.calcsize(fmt))) == n
                except struct.error:
                    return False
        if isinstance(val, ast.Call):
            sb = self.repo.struct_binding(val.func, fi)
            if sb is not None and sb[1] == "unpack":
                try:
                    return len(struct.unpack(sb[0], b"\0" * struct.calcsize(sb[0]))) == n
                except struct.error:
                    return False
        if isinstance(val, ast.Name) and val.id == "strconfig":
            return n == 2  # annotated tuple[bool, bool] (A5)
        if isinstance(val, ast.Attribute) and val.attr in ("task",):
            return True
        return False

    def _kill_name(self, st: State, name: str) -> None:
        import re
        pat = re.compile(r"(?<![\w.])" + re.escape(name) + r"(?![\w])")
        for f in list(st.facts):
            if pat.search(f):
                st.facts.discard(f)

    def _origin_facts(self, name: str, val: ast.AST, fi: FuncInfo, st: State) -> None:
        """facts established by the defining expression of a local"""
        if isinstance(val, ast.Name):
            # y = x: what is known about x's length / type / bounds holds for y
            import re
            pat = re.compile(r"(?<![\w.])" + re.escape(val.id) + r"(?![\w])")
            for f in list(st.facts):
                if pat.search(f):
                    st.facts.add(pat.sub(name, f))
        if isinstance(val, ast.Call):
            fn = val.func
            # exact-read helper: len(result) == arg
            for t in self.repo.resolve_call(val, fi):
                if self.is_exact_read(t) and val.args:
                    st.facts.add(f"len({name})=={self._size_text(val.args[0], fi)}")
            if isinstance(fn, ast.Name) and fn.id == "len":
                st.facts.add(f"{name}>=0")
        if isinstance(val, ast.Subscript) and isinstance(val.value, ast.Call) and unparse(val.value.func) == "struct.unpack":
            st.facts.add(f"type({name}) is int" if self._unpack_is_int(val.value, fi) else f"type({name}) is float")
        if isinstance(val, ast.Subscript) and unparse(val.value) == "self.stack":
            pass

    def _unpack_is_int(self, call: ast.Call, fi: FuncInfo) -> bool:
        fmt = self.repo.fold_in(call.args[0], fi) if call.args else UNKNOWN
        return isinstance(fmt, str) and all(c in INT_CODES for c in fmt.lstrip("!<>=@"))

    def _size_text(self, e: ast.AST, fi: FuncInfo) -> str:
        v = self.repo.fold_in(e, fi)
        if v is not UNKNOWN:
            return repr(v)
        return unparse(e)

    # ------------------------------------------------------- exact-read helper
    def is_exact_read(self, fi: FuncInfo) -> bool:
        """f(self, n) returns bytes of length exactly n, or raises: every returning path has established
        `len(<returned value>) == n` (decided on value terms, whatever the form of the test)."""
        q = fi.qualname
        if q in self.exact_helpers:
            return self.exact_helpers[q]
        self.exact_helpers[q] = False
        params = [p for p in fi.params() if p != "self"]
        if len(params) != 1:
            return False
        from .terms import cmp_term, evaluator, tv
        try:
            ev = evaluator(self.repo, self.repo.flat(fi))
            paths = list(ev.run(limit=4000))
        except AnalysisError:
            return False
        n = ("sym", params[0])
        nret = 0
        ok = True
        for (pth, st) in paths:
            if pth[-1][0] != ev.cfg.exit.id:
                continue
            nret += 1
            R = st.ret
            if R is None or R[0] == "const":
                ok = False
                break
            L = ("pcall", "len", (R,), ())
            known = dict(st.cond)
            if tv(cmp_term("eq", L, n), known) is not True and tv(cmp_term("ne", L, n), known) is not False:
                ok = False
                break
        ok = ok and nret >= 1
        self.exact_helpers[q] = ok
        return ok

    # ------------------------------------------------------------- subscripts
    def subscript(self, e: ast.Subscript, fi: FuncInfo, st: State, store: bool) -> list[Esc]:
        base = unparse(e.value)
        if isinstance(e.value, ast.Name):
            al = self.repo.local_alias(e.value.id, fi)
            if isinstance(al, ast.Attribute) and unparse(al) == "self.stack":
                base = "self.stack"
            elif isinstance(al, ast.Attribute) and unparse(al).split(".")[0] in ("self", "cls") and e.value.id not in fi.params():
                # a hoisted table / field (`num2func = self.num2func`): analyse the access on the field itself
                e = ast.copy_location(ast.Subscript(value=al, slice=e.slice, ctx=e.ctx), e)
                base = unparse(e.value)
        key = unparse(e.slice)
        site = {"site": f"{fi.module.rel}:{e.lineno} {fi.short}", "construct": norm(e), "kind": "subscript"}
        if base == "self.stack" and not store:
            if isinstance(e.slice, ast.UnaryOp) and isinstance(e.slice.op, ast.USub) and isinstance(e.slice.operand, ast.Constant):
                need = e.slice.operand.value
                if st.stackmin >= need:
                    site["discharged"] = f"len(self.stack) >= {st.stackmin}"
                    self.primitive_sites.append(site)
                    return []
            site["discharged"] = None
            self.primitive_sites.append(site)
            return [self.esc("IndexError", True, fi, e, "subscript")]
        base_v = e.value
        if isinstance(base_v, ast.Name):
            al_v = self.repo.local_alias(base_v.id, fi)    # the unpacked record bound to a local (inlined helper result) first
            if isinstance(al_v, ast.Call):
                base_v = al_v
        if isinstance(base_v, ast.Call) and (unparse(base_v.func) == "struct.unpack" or (self.repo.struct_binding(base_v.func, fi) or ("", ""))[1] == "unpack"):
            return []  # non-empty tuple by format
        if isinstance(e.value, ast.Attribute) and unparse(e.value) in ("self.num2func", "self._dispatch", "self._types"):
            if store:
                return []
            return [self.esc("KeyError", True, fi, e, "subscript")]
        if isinstance(e.value, ast.Attribute) and e.value.attr == "args":
            return [self.esc("IndexError", True, fi, e, "exc-args")]
        tlist = f"type({base}) is list" in st.facts
        tdict = f"type({base}) is dict" in st.facts
        if tlist and f"type({key}) is int" in st.facts and f"inrange({key},{base})" in st.facts:
            site["discharged"] = "list with int index proven in range"
            self.primitive_sites.append(site)
            return []
        if tdict and store:
            site["discharged"] = "dict store: only TypeError (unhashable key) remains"
            self.primitive_sites.append(site)
            return [self.esc("TypeError", True, fi, e, "subscript")]
        known_mapping = self._annotated_mapping(e.value, fi)
        if known_mapping:
            if store:
                return []
            return [self.esc("KeyError", True, fi, e, "subscript")]
        if store:
            shape = self._store_shape_on_terms(fi, e)
            if shape == "list":
                site["discharged"] = "list with int index proven in range (path conditions on value terms)"
                self.primitive_sites.append(site)
                return []
            if shape == "dict":
                site["discharged"] = "dict store: only TypeError (unhashable key) remains (path conditions on value terms)"
                self.primitive_sites.append(site)
                return [self.esc("TypeError", True, fi, e, "subscript")]
        site["discharged"] = None
        self.primitive_sites.append(site)
        res = [self.esc("TypeError", True, fi, e, "subscript"), self.esc("IndexError", True, fi, e, "subscript")]
        if not store:
            res.append(self.esc("KeyError", True, fi, e, "subscript"))
        return res

    def _store_shape_on_terms(self, fi: FuncInfo, e: ast.Subscript) -> str | None:
        """`base[key] = v`: what every path reaching the store has established about base and key, decided on value
        terms (so the form of the tests -- nested, split, inverted, through a local holding type(base) -- is irrelevant):
        "list" = type(base) is list, type(key) is int and 0 <= key < len(base);  "dict" = type(base) is dict."""
        from .terms import cmp_term, const, evaluator, implies
        cache = self.__dict__.setdefault("_term_paths", {})
        if fi.qualname not in cache:
            try:
                ev = evaluator(self.repo, fi)
                cache[fi.qualname] = list(ev.run(limit=6000))
            except AnalysisError:
                cache[fi.qualname] = None
        paths = cache[fi.qualname]
        if not paths:
            return None
        stmt = next((n for n in self.repo.own_nodes(fi) if isinstance(n, ast.Assign) and any(t is e for t in n.targets)), None)
        if stmt is None:
            return None
        verdicts = set()
        seen = 0
        for (_pth, st) in paths:
            for ev_ in st.events:
                if ev_.kind == "store" and ev_.node is stmt and ev_.recv is not None and ev_.key is not None:
                    seen += 1
                    R, K = ev_.recv, ev_.key
                    cond = st.cond[:ev_.ncond]

                    def ty(x, name):
                        return cmp_term("is", ("pcall", "type", (x,), ()), ("sym", name))
                    ln = ("pcall", "len", (R,), ())
                    try:
                        if implies(cond, ("and", ty(R, "list"), ty(K, "int"), cmp_term("le", const(0), K), cmp_term("lt", K, ln))) is True:
                            verdicts.add("list")
                        elif implies(cond, ty(R, "dict")) is True:
                            verdicts.add("dict")
                        else:
                            verdicts.add("?")
                    except Exception:  # a term shape the prover does not handle: no discharge
                        verdicts.add("?")
        if seen and len(verdicts) == 1 and "?" not in verdicts:
            return verdicts.pop()
        return None

    def _annotated_mapping(self, v: ast.AST, fi: FuncInfo) -> bool:
        if isinstance(v, ast.Name):
            for n in self.repo.own_nodes(fi):
                if isinstance(n, ast.AnnAssign) and isinstance(n.target, ast.Name) and n.target.id == v.id \
                        and unparse(n.annotation).startswith("dict"):
                    return True
                if isinstance(n, ast.Assign) and any(isinstance(t, ast.Name) and t.id == v.id for t in n.targets) \
                        and isinstance(n.value, ast.Dict):
                    return True
        if isinstance(v, ast.Attribute) and unparse(v.value) in ("self", "cls", "self.__class__"):
            ci = self.repo.class_of_func(fi)
            if ci is not None:
                for c in self.repo.mro(ci):
                    for st in c.node.body:
                        tgt = st.targets[0] if isinstance(st, ast.Assign) else (st.target if isinstance(st, ast.AnnAssign) else None)
                        if isinstance(tgt, ast.Name) and tgt.id == v.attr and (
                                (isinstance(st, ast.AnnAssign) and unparse(st.annotation).startswith("dict")) or isinstance(getattr(st, "value", None), ast.Dict)):
                            return True
                    for m in c.methods.values():
                        for n in self.repo.own_nodes(m):
                            if isinstance(n, ast.AnnAssign) and unparse(n.target) == unparse(v) and unparse(n.annotation).startswith(("dict", "weakref.WeakValueDictionary")):
                                return True
        return False

    # ------------------------------------------------------------------ calls
    def call(self, c: ast.Call, fi: FuncInfo, st: State) -> list[Esc]:
        out: list[Esc] = []
        fn = c.func
        if isinstance(fn, ast.Attribute) and isinstance(fn.value, ast.Name) and fn.value.id not in ("self", "cls"):
            al = self.repo.local_alias(fn.value.id, fi)
            if isinstance(al, ast.Attribute) and unparse(al).startswith(("self.", "cls.")):
                fn = ast.copy_location(ast.Attribute(value=al, attr=fn.attr, ctx=ast.Load()), fn)
                c = ast.copy_location(ast.Call(func=fn, args=c.args, keywords=c.keywords), c)
        if isinstance(fn, ast.Name) and (fi.qualname, fn.id) not in self.dynamic:
            # a local bound once to a method/function reference (`read = self.stream.read`): analyse the call as that
            al = self.repo.local_alias(fn.id, fi)
            if isinstance(al, ast.Attribute) and unparse(al).split(".")[0] in ("self", "cls"):
                fn = ast.copy_location(al, fn)
                c = ast.copy_location(ast.Call(func=fn, args=c.args, keywords=c.keywords), c)
        fname = unparse(fn)
        # receiver and arguments first
        if isinstance(fn, ast.Attribute):
            out.extend(self.expr(fn.value, fi, st))
        elif isinstance(fn, ast.Call):
            out.extend(self.expr(fn, fi, st))
        for a in c.args:
            out.extend(self.expr(a, fi, st))
        for k in c.keywords:
            out.extend(self.expr(k.value, fi, st))
        last = fn.attr if isinstance(fn, ast.Attribute) else (fn.id if isinstance(fn, ast.Name) else "")

        # -- stack machine of the Unserializer
        if fname == "self.stack.append":
            st.stackmin += 1
            return out
        if fname == "self.stack.pop":
            if st.stackmin >= 1:
                st.stackmin -= 1
            else:
                out.append(self.esc("IndexError", True, fi, c, "pop"))
            return out
        # -- effectful
        root = fname.split(".")[0]
        if (isinstance(fn, ast.Name) and fn.id in EFFECTFUL) or (root in EFFECTFUL_MODULES and isinstance(fn, ast.Attribute)
                                                                   and root in fi.module.imports and fname not in ("os.getpid", "sys.stderr.write", "sys.stderr.flush")):
            self.effect_calls.append((fi, c, fname))
            out.append(self.esc(ANY, False, fi, c, "effectful-call"))
            return out
        # -- partial primitives
        sb = self.repo.struct_binding(fn, fi) if fname not in ("struct.unpack", "struct.pack") else None
        if sb is not None:
            # precompiled struct.Struct(F).unpack / .pack: same contract as struct.unpack(F, b) / struct.pack(F, ...)
            fake = ast.Call(func=ast.parse(f"struct.{sb[1]}", mode="eval").body, args=[ast.Constant(value=sb[0])] + list(c.args), keywords=[])
            ast.copy_location(fake, c)
            ast.fix_missing_locations(fake)
            if sb[1] == "pack":
                out.extend(self.pack(fake, fi, st))
                return out
            c = fake
            fname = "struct.unpack"
        if fname == "struct.unpack":
            fmt = self.repo.fold_in(c.args[0], fi) if c.args else UNKNOWN
            site = {"site": f"{fi.module.rel}:{c.lineno} {fi.short}", "construct": norm(c), "kind": "struct.unpack"}
            ok = False
            if isinstance(fmt, str) and len(c.args) == 2:
                size = struct.calcsize(fmt)
                b = c.args[1]
                if isinstance(b, ast.Name) and f"len({b.id})=={size!r}" in st.facts:
                    ok = True
                    site["discharged"] = f"len({b.id}) == {size} (exact-read post-condition)"
                if isinstance(b, ast.Call) and b.args:
                    for t in self.repo.resolve_call(b, fi):
                        if self.is_exact_read(t) and self.repo.fold_in(b.args[0], fi) == size:
                            ok = True
                            site["discharged"] = f"{t.short}({size}) returns exactly {size} bytes or raises"
            self.primitive_sites.append(site)
            if not ok:
                site["discharged"] = None
                out.append(self.esc("struct.error", True, fi, c, "struct.unpack"))
            return out
        if fname == "struct.pack":
            out.extend(self.pack(c, fi, st))
            return out
        if last == "decode" and isinstance(fn, ast.Attribute):
            codec = self.repo.fold_in(c.args[0], fi) if c.args else "utf-8"
            site = {"site": f"{fi.module.rel}:{c.lineno} {fi.short}", "construct": norm(c), "kind": "decode",
                    "discharged": "latin-1 is total" if codec == "latin-1" else None}
            self.primitive_sites.append(site)
            if codec != "latin-1":
                out.append(self.esc("UnicodeDecodeError", True, fi, c, "decode"))
            return out
        if last == "encode" and isinstance(fn, ast.Attribute):
            codec = self.repo.fold_in(c.args[0], fi) if c.args else "utf-8"
            recv = fn.value
            if isinstance(recv, ast.Name):
                al_ = self.repo.local_alias(recv.id, fi)   # text bound to a local first
                if isinstance(al_, ast.Call):
                    recv = al_
            total = False
            if codec == "ascii" and isinstance(recv, ast.Call) and callee_last(recv) in ("rstrip", "str", "hex", "oct", "bin", "repr"):
                total = self._is_str_of_int(recv) or callee_last(recv) in ("hex", "oct", "bin")
            if isinstance(recv, ast.Constant):
                total = True
            self.primitive_sites.append({"site": f"{fi.module.rel}:{c.lineno} {fi.short}", "construct": norm(c), "kind": "encode",
                                         "discharged": "ascii text of an int" if total else None})
            if not total:
                out.append(self.esc("UnicodeEncodeError", True, fi, c, "encode"))
            return out
        if isinstance(fn, ast.Name) and fn.id == "int" and c.args:
            a = c.args[0]
            if not (isinstance(a, ast.Constant) and isinstance(a.value, (int, float))) and f"type({unparse(a)}) is int" not in st.facts:
                self.primitive_sites.append({"site": f"{fi.module.rel}:{c.lineno} {fi.short}", "construct": norm(c), "kind": "int()", "discharged": None})
                out.append(self.esc("ValueError", True, fi, c, "int()"))
                ann_ok = False
                out.append(self.esc("TypeError", False, fi, c, "int()")) if self._maybe_nonstr(a, fi) else None
            return out
        if isinstance(fn, ast.Name) and fn.id == "str" and c.args:
            if self._param_annot(c.args[0], fi) == "int":
                # CPython >= 3.11: int -> str conversion limit (4300 digits)
                self.primitive_sites.append({"site": f"{fi.module.rel}:{c.lineno} {fi.short}", "construct": norm(c), "kind": "str(int)", "discharged": None})
                out.append(self.esc("ValueError", True, fi, c, "str(int)"))
            return out
        if isinstance(fn, ast.Name) and fn.id in ("set", "frozenset") and c.args:
            out.append(self.esc("TypeError", True, fi, c, "hash"))
            return out
        if isinstance(fn, ast.Name) and fn.id == "complex":
            return out
        if isinstance(fn, ast.Name) and fn.id in ("ord", "chr") and len(c.args) == 1:
            # ord(x) is total only on a string/bytes of length exactly one (a literal, or an element `s[i]` of a str); a read of
            # "up to one byte" may be empty at end of input.  chr(i) needs an int in range.
            a = c.args[0]
            one = isinstance(a, ast.Constant) and isinstance(a.value, (str, bytes)) and len(a.value) == 1
            if fn.id == "ord" and not one and not (f"len({unparse(a)}) == 1" in st.facts):
                self.primitive_sites.append({"site": f"{fi.module.rel}:{c.lineno} {fi.short}", "construct": norm(c), "kind": "ord()", "discharged": None})
                out.append(self.esc("TypeError", True, fi, c, "ord()"))
            if fn.id == "chr" and not (isinstance(a, ast.Constant) and isinstance(a.value, int)):
                out.append(self.esc("ValueError", True, fi, c, "chr()"))
            return out
        if isinstance(fn, ast.Name) and fn.id in ("set", "frozenset") and self.repo.local_alias(fn.id, fi) is None:
            # building a set hashes its members
            if c.args:
                out.append(self.esc("TypeError", True, fi, c, "hash"))
            return out
        # call of a parameter holding a type (``type_(...)``)
        if isinstance(fn, ast.Name) and self._param_annot(fn, fi) == "type":
            if c.args:
                out.append(self.esc("TypeError", True, fi, c, "hash"))
            return out
        # -- exception constructors / total builtins
        if last in EXC_CTORS or (isinstance(fn, ast.Name) and (fn.id in TOTAL_CALLS or fn.id in self.extra_total)):
            return out
        if isinstance(fn, ast.Name) and fn.id == "getattr" and len(c.args) == 3:
            return out
        if isinstance(fn, ast.Name) and fn.id == "BytesIO":
            return out
        if fname == "int.from_bytes" and c.args and self._is_bytes_value(c.args[0], fi) \
                and all(k.arg in ("byteorder", "signed") and isinstance(k.value, ast.Constant) for k in c.keywords) \
                and all(isinstance(a, ast.Constant) for a in c.args[1:]):
            return out  # total on a bytes object with literal byteorder/signed
        if isinstance(fn, ast.Attribute) and last in TOTAL_METHODS:
            return out
        if isinstance(fn, ast.Attribute) and last == "get" and self._annotated_mapping(fn.value, fi):
            return out  # dict.get is total
        if isinstance(fn, ast.Attribute) and last == "read" and unparse(fn.value).endswith("stream"):
            return out  # A4
        if isinstance(fn, ast.Attribute) and last == "pop" and c.args:
            # dict.pop(k, default) total; list.pop(i) partial
            if len(c.args) == 2:
                return out
            if unparse(fn.value) == "self.stack":
                if "len(self.stack)==1" in st.facts or st.stackmin >= 1:
                    return out
            out.append(self.esc("IndexError", True, fi, c, "pop"))
            return out
        if isinstance(fn, ast.Attribute) and last in ("write", "_write") and fname.startswith("self._write"):
            return out  # list.append or the caller's stream (dump): outside the claim
        # -- dynamic dispatch through a registry
        dyn = self.dynamic.get((fi.qualname, fname))
        if dyn is not None:
            st.stackmin = 0
            for t in dyn:
                out.extend(x.via(t.short) for x in self.escapes(t))
            return out
        # -- possibly-None receiver
        if isinstance(fn, ast.Attribute) and isinstance(fn.value, ast.Attribute) and unparse(fn.value.value) == "self":
            recv = unparse(fn.value)
            null = self.field_null.get(recv)
            if null is True or (null is None and self._field_may_be_none(fn.value, fi)):
                if f"{recv} is not None" not in st.facts:
                    out.append(self.esc("AttributeError", True, fi, c, "none-receiver"))
                    if null is True:
                        return out
        # -- dispatch through a class-level dict keyed by type(x): each target is analysed knowing type(formal) is <key>
        if isinstance(fn, ast.Name):
            al = self.repo.local_alias(fn.id, fi)
            tbl = keyexpr = None
            if isinstance(al, ast.Call) and isinstance(al.func, ast.Attribute) and al.func.attr == "get" and al.args:
                tbl, keyexpr = al.func.value, al.args[0]
            elif isinstance(al, ast.Subscript):
                tbl, keyexpr = al.value, al.slice
            if isinstance(tbl, ast.Attribute) and unparse(tbl.value) in ("self", "cls") and isinstance(keyexpr, ast.Call) and unparse(keyexpr.func) == "type" and keyexpr.args:
                subject = unparse(keyexpr.args[0])
                ci = self.repo.class_of_func(fi)
                pairs = []
                for cc in (self.repo.mro(ci) if ci else []):
                    for st_ in cc.node.body:
                        tgt = st_.targets[0] if isinstance(st_, ast.Assign) else (st_.target if isinstance(st_, ast.AnnAssign) else None)
                        if isinstance(tgt, ast.Name) and tgt.id == tbl.attr and isinstance(getattr(st_, "value", None), ast.Dict):
                            for k, v in zip(st_.value.keys, st_.value.values):
                                if isinstance(k, ast.Name) and isinstance(v, ast.Name) and v.id in cc.methods:
                                    pairs.append((k.id, cc.methods[v.id]))
                if pairs:
                    st.stackmin = 0
                    for key, m in pairs:
                        formals = [a.arg for a in m.node.args.args]
                        facts = set(self._arg_facts(c, m, fi, st)) if False else set()
                        for i, a in enumerate(c.args):
                            if unparse(a) == subject and i < len(formals):
                                facts.add(f"type({formals[i]}) is {key}")
                        out.extend(x.via(m.short) for x in self.escapes(m, frozenset(facts)))
                    return out
        # -- resolved repo callee
        targets = self.repo.resolve_call(c, fi)
        if targets:
            for t in targets:
                if t.name == "__init__" and t.cls is not None and t.cls.name in EXC_CTORS:
                    continue
                out.extend(x.via(t.short) for x in self.escapes(t, self._arg_facts(c, t, fi, st)))
            if any(t.cls is not None and t.cls.name == "Unserializer" for t in targets):
                # a loader/helper may have changed the stack arbitrarily
                if not all(self._stack_neutral(t) for t in targets):
                    st.stackmin = 0
            return out
        if self.strict:
            self.unclassified.append((fi, c))
        return out

    def _arg_facts(self, c: ast.Call, t: FuncInfo, fi: FuncInfo, st: State) -> frozenset:
        """integer bounds of the actual arguments, expressed on the callee's formals"""
        formals = [a.arg for a in t.node.args.args]
        if formals and formals[0] == "self":
            formals = formals[1:]
        out = set()
        for i, a in enumerate(c.args):
            if i >= len(formals) or isinstance(a, ast.Starred):
                break
            lo, hi = self.bounds(a, fi, st)
            if lo is not None:
                out.add(f"{formals[i]}>={lo}")
            if hi is not None:
                out.add(f"{formals[i]}<={hi}")
        return frozenset(out)

    def _stack_neutral(self, t: FuncInfo) -> bool:
        return not any(isinstance(n, ast.Attribute) and n.attr == "stack" for n in ast.walk(t.node))

    def _is_str_of_int(self, e: ast.AST) -> bool:
        while isinstance(e, ast.Call) and isinstance(e.func, ast.Attribute) and e.func.attr in ("rstrip", "strip", "lstrip"):
            e = e.func.value
        return isinstance(e, ast.Call) and isinstance(e.func, ast.Name) and e.func.id == "str"

    def _maybe_nonstr(self, a: ast.AST, fi: FuncInfo) -> bool:
        return False

    def _param_annot(self, e: ast.AST, fi: FuncInfo) -> str | None:
        if isinstance(e, ast.Name):
            for arg in fi.node.args.args + fi.node.args.kwonlyargs:
                if arg.arg == e.id and arg.annotation is not None:
                    return unparse(arg.annotation)
        return None

    def _field_may_be_none(self, attr: ast.Attribute, fi: FuncInfo) -> bool:
        ci = self.repo.class_of_func(fi)
        if ci is None:
            return False
        for c in self.repo.mro(ci):
            for m in c.methods.values():
                for n in self.repo.own_nodes(m):
                    if isinstance(n, ast.Assign) and any(unparse(t) == unparse(attr) for t in n.targets) \
                            and isinstance(n.value, ast.Constant) and n.value.value is None:
                        return True
                    if isinstance(n, ast.AnnAssign) and unparse(n.target) == unparse(attr) and "None" in unparse(n.annotation):
                        return True
        return False

    # ---------------------------------------------------------- struct.pack
    def pack(self, c: ast.Call, fi: FuncInfo, st: State) -> list[Esc]:
        out: list[Esc] = []
        fmt = self.repo.fold_in(c.args[0], fi) if c.args else UNKNOWN
        site = {"site": f"{fi.module.rel}:{c.lineno} {fi.short}", "construct": norm(c), "kind": "struct.pack"}
        self.primitive_sites.append(site)
        if not isinstance(fmt, str):
            site["discharged"] = None
            return [self.esc("struct.error", True, fi, c, "struct.pack")]
        codes = [ch for ch in fmt.lstrip("!<>=@")]
        args = c.args[1:]
        if len(codes) != len(args):
            site["discharged"] = None
            return [self.esc("struct.error", True, fi, c, "struct.pack")]
        notes = []
        for code, a in zip(codes, args):
            if code in INT_CODES:
                lo, hi = INT_CODES[code]
                blo, bhi = self.bounds(a, fi, st)
                if blo is not None and bhi is not None and blo >= lo and bhi <= hi:
                    notes.append(f"{unparse(a)} in [{blo},{bhi}]")
                    continue
                site["discharged"] = None
                site["interval"] = f"{unparse(a)} in [{blo},{bhi}] not within [{lo},{hi}]"
                out.append(self.esc("struct.error", True, fi, c, "struct.pack"))
            elif code in "df":
                notes.append(f"{unparse(a)} float (annotation)")
            else:
                out.append(self.esc("struct.error", True, fi, c, "struct.pack"))
        if not out:
            site["discharged"] = "; ".join(notes)
        return out

    def bounds(self, a: ast.AST, fi: FuncInfo, st: State) -> tuple[int | None, int | None]:
        v = self.repo.fold_in(a, fi)
        if isinstance(v, int) and not isinstance(v, bool):
            return (v, v)
        t = unparse(a)
        lo = hi = None
        for f in st.facts:
            if f.startswith(f"{t}>="):
                try:
                    lo = max(lo, int(f.split(">=")[1])) if lo is not None else int(f.split(">=")[1])
                except ValueError:
                    pass
            if f.startswith(f"{t}<="):
                try:
                    hi = min(hi, int(f.split("<=")[1])) if hi is not None else int(f.split("<=")[1])
                except ValueError:
                    pass
        if isinstance(a, ast.Call) and isinstance(a.func, ast.Name) and a.func.id == "len":
            lo = 0 if lo is None else max(lo, 0)
        if lo is None and hi is None and isinstance(a, ast.Name):
            # a single-assignment local stands for its defining expression (hoisted `wire_id = channel.id`)
            al = self.repo.local_alias(a.id, fi)
            if al is not None and not isinstance(al, ast.Constant) and not any(isinstance(x, ast.Name) and x.id == a.id for x in ast.walk(al)):
                return self.bounds(al, fi, st)
        if isinstance(a, ast.Attribute) and a.attr == "id" and self.repo.type_of(a.value, fi) == "Channel":
            # A1: channel ids are counter-derived or read as int4 from the wire
            self.used_a1 = True
            lo = -2**31 if lo is None else lo
            hi = 2**31 - 1 if hi is None else hi
        return (lo, hi)

    # --------------------------------------------------------------- guards
    def truth(self, t: ast.AST, fi: FuncInfo, st: State) -> bool | None:
        if isinstance(t, ast.Constant):
            return bool(t.value)
        if isinstance(t, ast.UnaryOp) and isinstance(t.op, ast.Not):
            v = self.truth(t.operand, fi, st)
            return None if v is None else not v
        if isinstance(t, ast.Compare) and len(t.ops) == 1 and isinstance(t.comparators[0], ast.Constant) \
                and t.comparators[0].value is None:
            l = unparse(t.left)
            if isinstance(t.left, ast.Name) and l not in self.field_null:
                al = self.repo.local_alias(l, fi)
                if isinstance(al, ast.Attribute) and unparse(al) in self.field_null:
                    l = unparse(al)
            null = self.field_null.get(l)
            if null is None and f"{l} is not None" in st.facts:
                null = False
            if null is not None:
                if isinstance(t.ops[0], ast.Is):
                    return null
                if isinstance(t.ops[0], ast.IsNot):
                    return not null
        if isinstance(t, ast.Attribute) or isinstance(t, ast.Name):
            l = unparse(t)
            if self.field_null.get(l) is True:
                return False
        if isinstance(t, ast.Compare) and all(isinstance(o, (ast.LtE, ast.Lt)) for o in t.ops):
            # lo <= x <= hi decided from known bounds of x
            parts = [t.left] + list(t.comparators)
            ok = True
            for (a, op, b) in zip(parts, t.ops, parts[1:]):
                alo, ahi = self.bounds(a, fi, st)
                blo, bhi = self.bounds(b, fi, st)
                if ahi is None or blo is None or not (ahi <= blo if isinstance(op, ast.LtE) else ahi < blo):
                    ok = False
            if ok:
                return True
        return None

    def assume(self, t: ast.AST, val: bool, fi: FuncInfo, st: State) -> None:
        if isinstance(t, ast.UnaryOp) and isinstance(t.op, ast.Not):
            self.assume(t.operand, not val, fi, st)
            return
        if isinstance(t, ast.BoolOp):
            if isinstance(t.op, ast.And) and val or isinstance(t.op, ast.Or) and not val:
                for v in t.values:
                    self.assume(v, val, fi, st)
            return
        if isinstance(t, ast.Compare):
            # chained: a <= b < c
            if len(t.ops) > 1 and val:
                left = t.left
                for op, right in zip(t.ops, t.comparators):
                    self.assume(ast.Compare(left=left, ops=[op], comparators=[right]), True, fi, st)
                    left = right
                if len(t.ops) == 2 and isinstance(t.ops[0], ast.LtE) and isinstance(t.ops[1], ast.Lt) \
                        and self.repo.fold_in(t.left, fi) == 0 and unparse(t.comparators[1]).startswith("len("):
                    seq = unparse(t.comparators[1])[4:-1]
                    st.facts.add(f"inrange({unparse(t.comparators[0])},{seq})")
                return
            if len(t.ops) != 1:
                return
            op = t.ops[0]
            l, r = t.left, t.comparators[0]
            ls, rs = unparse(l), unparse(r)
            if isinstance(op, (ast.Is, ast.IsNot)):
                truth = val if isinstance(op, ast.Is) else not val
                if isinstance(r, ast.Constant) and r.value is None:
                    st.facts.add(f"{ls} is None" if truth else f"{ls} is not None")
                elif ls.startswith("type(") and truth:
                    st.facts.add(f"{ls} is {rs}")
                return
            # len(self.stack) comparisons
            rv = self.repo.fold_in(r, fi)
            lv = self.repo.fold_in(l, fi)
            if ls.startswith("len(") and isinstance(l, ast.Call) and l.args and isinstance(l.args[0], ast.Name):
                al = self.repo.local_alias(l.args[0].id, fi)
                if isinstance(al, ast.Attribute) and unparse(al) == "self.stack":
                    ls = "len(self.stack)"
            if ls == "len(self.stack)" and isinstance(rv, int):
                if isinstance(op, ast.Lt) and not val:
                    st.stackmin = max(st.stackmin, rv)
                if isinstance(op, ast.GtE) and val:
                    st.stackmin = max(st.stackmin, rv)
                if isinstance(op, ast.NotEq) and not val or isinstance(op, ast.Eq) and val:
                    st.stackmin = max(st.stackmin, rv)
                    st.facts.add(f"len(self.stack)=={rv}")
                if isinstance(op, ast.Gt) and val:
                    st.stackmin = max(st.stackmin, rv + 1)
                return
            if rs.startswith("len(") and (isinstance(op, ast.Lt) and val or isinstance(op, ast.GtE) and not val):
                st.facts.add(f"{ls}<{rs}")
                if f"{ls}>=0" in st.facts:
                    st.facts.add(f"inrange({ls},{rs[4:-1]})")
            if ls.startswith("len(") and (isinstance(op, ast.NotEq) and not val or isinstance(op, ast.Eq) and val):
                st.facts.add(f"{ls}=={repr(rv) if rv is not UNKNOWN else rs}")
                return
            # numeric bounds on names:  i > MAX (false) => i <= MAX
            if isinstance(rv, int) and not isinstance(rv, bool):
                if isinstance(op, ast.Gt):
                    st.facts.add(f"{ls}>={rv + 1}" if val else f"{ls}<={rv}")
                elif isinstance(op, ast.GtE):
                    st.facts.add(f"{ls}>={rv}" if val else f"{ls}<={rv - 1}")
                elif isinstance(op, ast.Lt):
                    st.facts.add(f"{ls}<={rv - 1}" if val else f"{ls}>={rv}")
                    if not val and rv == 0:
                        for f_ in list(st.facts):
                            if f_.startswith(f"{ls}<len("):
                                st.facts.add(f"inrange({ls},{f_[len(ls) + 5:-1]})")
                elif isinstance(op, ast.LtE):
                    st.facts.add(f"{ls}<={rv}" if val else f"{ls}>={rv + 1}")
                if isinstance(op, (ast.Lt, ast.LtE)) and val or isinstance(op, (ast.Gt, ast.GtE)) and not val:
                    st.facts.add(f"bounded({ls})")
            elif isinstance(lv, int) and not isinstance(lv, bool):
                # MIN <= i
                if isinstance(op, ast.LtE):
                    st.facts.add(f"{rs}>={lv}" if val else f"{rs}<={lv - 1}")
                elif isinstance(op, ast.Lt):
                    st.facts.add(f"{rs}>={lv + 1}" if val else f"{rs}<={lv}")
                elif isinstance(op, ast.GtE):
                    st.facts.add(f"{rs}<={lv}" if val else f"{rs}>={lv + 1}")
                elif isinstance(op, ast.Gt):
                    st.facts.add(f"{rs}<={lv - 1}" if val else f"{rs}>={lv}")
            elif isinstance(op, (ast.Gt, ast.GtE)) and not val and ("len(" in rs or "remaining" in rs):
                st.facts.add(f"bounded({ls})")
            elif isinstance(op, (ast.Lt, ast.LtE)) and val and ("len(" in rs or "remaining" in rs):
                st.facts.add(f"bounded({ls})")
            return
        if isinstance(t, ast.Call) and isinstance(t.func, ast.Name) and t.func.id == "isinstance" and val and len(t.args) == 2:
            st.facts.add(f"isinstance({unparse(t.args[0])},{unparse(t.args[1])})")
            return
        if isinstance(t, ast.Name):
            al = self.repo.local_alias(t.id, fi)
            if isinstance(al, (ast.Compare, ast.BoolOp, ast.UnaryOp)) and not any(isinstance(x, ast.Call) and not (isinstance(x.func, ast.Name) and x.func.id in ("len", "type", "isinstance")) for x in ast.walk(al)):
                self.assume(al, val, fi, st)
                return
        if isinstance(t, (ast.Name, ast.Attribute)):
            if val:
                st.facts.add(f"{unparse(t)} is not None")
            return


def callee_last(c: ast.Call) -> str:
    f = c.func
    return f.attr if isinstance(f, ast.Attribute) else (f.id if isinstance(f, ast.Name) else "")


def _dedup(es: list[Esc]) -> list[Esc]:
    seen = set()
    out = []
    for e in es:
        k = (e.cls, e.origin)
        if k not in seen:
            seen.add(k)
            out.append(e)
    return out


def init_field_nullness(repo: Repo, ctor: FuncInfo, call: ast.Call, caller: FuncInfo) -> dict[str, bool]:
    """Abstractly evaluate ``__init__`` over {None, NotNone, unknown} with the
    actual arguments of one constructor call: which ``self.x`` are None."""
    params = [a.arg for a in ctor.node.args.args][1:]
    defaults = ctor.node.args.defaults
    env: dict[str, bool | None] = {}
    dvals = [None] * (len(params) - len(defaults)) + list(defaults)
    for p, d in zip(params, dvals):
        env[p] = (isinstance(d, ast.Constant) and d.value is None) if d is not None else None
        if d is not None and not (isinstance(d, ast.Constant) and d.value is None):
            env[p] = False
    for i, a in enumerate(call.args):
        if i < len(params):
            env[params[i]] = True if (isinstance(a, ast.Constant) and a.value is None) else (None if isinstance(a, ast.Name) else False)
    for k in call.keywords:
        if k.arg in env:
            env[k.arg] = True if (isinstance(k.value, ast.Constant) and k.value.value is None) else None
    fields: dict[str, bool] = {}

    def null(e: ast.AST) -> bool | None:
        if isinstance(e, ast.Constant):
            return e.value is None
        if isinstance(e, ast.IfExp):
            tv = truth(e.test)
            if tv is True:
                return null(e.body)
            if tv is False:
                return null(e.orelse)
            a, b = null(e.body), null(e.orelse)
            return a if a == b else None
        if isinstance(e, ast.Name):
            return env.get(e.id)
        if isinstance(e, ast.Attribute):
            b = null(e.value)
            if b is True:
                return None
            return False if isinstance(e.value, ast.Name) and env.get(e.value.id) is False else None
        return None

    def truth(t: ast.AST) -> bool | None:
        if isinstance(t, ast.Call) and isinstance(t.func, ast.Name) and t.func.id == "isinstance":
            if null(t.args[0]) is True:
                return False
            return None
        if isinstance(t, ast.Compare) and len(t.ops) == 1 and isinstance(t.comparators[0], ast.Constant) and t.comparators[0].value is None:
            n = null(t.left)
            if n is None:
                return None
            return n if isinstance(t.ops[0], ast.Is) else (not n if isinstance(t.ops[0], ast.IsNot) else None)
        if isinstance(t, ast.UnaryOp) and isinstance(t.op, ast.Not):
            v = truth(t.operand)
            return None if v is None else not v
        if isinstance(t, ast.Name):
            n = env.get(t.id)
            return False if n is True else None
        return None

    broke = [False]

    def run(stmts: list[ast.stmt]) -> None:
        for s in stmts:
            if broke[0]:
                return
            if isinstance(s, ast.While) and isinstance(s.test, ast.Constant) and s.test.value is True:
                run(s.body)
                broke[0] = False
                continue
            if isinstance(s, ast.Break):
                broke[0] = True
                return
            if isinstance(s, ast.If):
                v = truth(s.test)
                if v is True:
                    run(s.body)
                elif v is False:
                    run(s.orelse)
                else:
                    before_env, before_f = dict(env), dict(fields)
                    run(s.body)
                    e1, f1 = dict(env), dict(fields)
                    env.clear(); env.update(before_env); fields.clear(); fields.update(before_f)
                    run(s.orelse)
                    for k in set(env) | set(e1):
                        if env.get(k) != e1.get(k):
                            env[k] = None
                    for k in set(fields) | set(f1):
                        if fields.get(k) != f1.get(k):
                            fields.pop(k, None)
            elif isinstance(s, (ast.Assign, ast.AnnAssign)):
                tgts = s.targets if isinstance(s, ast.Assign) else [s.target]
                for t in tgts:
                    if isinstance(t, ast.Name) and s.value is not None:
                        env[t.id] = null(s.value)
                    elif isinstance(t, ast.Attribute) and unparse(t.value) == "self" and s.value is not None:
                        n = null(s.value)
                        if n is None:
                            fields.pop(unparse(t), None)
                        else:
                            fields[unparse(t)] = n
                    elif isinstance(t, ast.Tuple):
                        vals = s.value.elts if isinstance(s.value, ast.Tuple) and len(s.value.elts) == len(t.elts) else [None] * len(t.elts)
                        for x, v in zip(t.elts, vals):
                            if isinstance(x, ast.Name):
                                env[x.id] = null(v) if v is not None else None
                            elif isinstance(x, ast.Attribute) and unparse(x.value) == "self" and v is not None and null(v) is not None:
                                fields[unparse(x)] = null(v)

    run(ctor.node.body)
    return fields
