"""Helper inlining ("flattening") of anchored functions.

Extracting a few statements of an anchored function into a new private helper
is the most common behaviour-preserving refactoring; a rule that looks for a
mechanism inside the anchored function must not mistake it for the mechanism
being removed.  Before a rule sees a function, every call (in statement,
assignment, return or if-test position) to a function that is **not part of the
frozen census** `known_funcs.KNOWN_FUNCS` -- i.e. a helper that did not exist
when the rules were confirmed -- and that resolves to exactly one in-repo
target called on `self` / as a nested or module-level function, is replaced
by a copy of the helper's body with the actual arguments bound to the formals
(AST level, depth <= 3).  `return` inside the helper becomes an assignment of
the result plus `break` out of a one-trip `while True:` wrapper, which the
statement CFG models exactly.  Helpers that cannot be inlined soundly
(generators, star-arguments, recursion)
are left as opaque calls.
"""

from __future__ import annotations

import ast
import copy
import itertools

from .index import FuncInfo, Repo, unparse
from .known_funcs import KNOWN_FUNCS

MAXDEPTH = 3
_counter = itertools.count(1)


class _Rename(ast.NodeTransformer):
    def __init__(self, mapping: dict[str, str]) -> None:
        self.mapping = mapping

    def visit_Name(self, node: ast.Name) -> ast.AST:
        if node.id in self.mapping:
            return ast.copy_location(ast.Name(id=self.mapping[node.id], ctx=node.ctx), node)
        return node

    def visit_arg(self, node: ast.arg) -> ast.AST:
        return node

    def visit_FunctionDef(self, node):  # do not descend into nested scopes' own parameters blindly
        self.generic_visit(node)
        return node


class _SubstLoad(ast.NodeTransformer):
    def __init__(self, mapping: dict[str, ast.AST]) -> None:
        self.mapping = mapping

    def visit_Name(self, node: ast.Name) -> ast.AST:
        if isinstance(node.ctx, ast.Load) and node.id in self.mapping:
            return copy.deepcopy(self.mapping[node.id])
        return node


def _names_stored(nodes: list[ast.stmt]) -> set[str]:
    out = set()
    for s in nodes:
        for x in ast.walk(s):
            if isinstance(x, ast.Name) and isinstance(x.ctx, (ast.Store, ast.Del)):
                out.add(x.id)
            elif isinstance(x, ast.ExceptHandler) and x.name:
                out.add(x.name)
    return out


def _names_used(node: ast.AST) -> set[str]:
    return {x.id for x in ast.walk(node) if isinstance(x, ast.Name)}


def _has_return_in_loop(body: list[ast.stmt]) -> bool:
    def walk(stmts, in_loop):
        for s in stmts:
            if isinstance(s, (ast.FunctionDef, ast.AsyncFunctionDef, ast.ClassDef)):
                continue
            if isinstance(s, ast.Return) and in_loop:
                return True
            for name in ("body", "orelse", "finalbody"):
                sub = getattr(s, name, None)
                if isinstance(sub, list) and walk(sub, in_loop or isinstance(s, (ast.For, ast.While))):
                    return True
            for h in getattr(s, "handlers", []) or []:
                if walk(h.body, in_loop):
                    return True
        return False
    return walk(body, False)


def _always_leaves(stmts: list[ast.stmt]) -> bool:
    """control never falls off the end of this block (every path ends in return / raise)"""
    if not stmts:
        return False
    s = stmts[-1]
    if isinstance(s, (ast.Return, ast.Raise)):
        return True
    if isinstance(s, ast.If):
        return bool(s.orelse) and _always_leaves(s.body) and _always_leaves(s.orelse)
    if isinstance(s, ast.Try):
        if s.finalbody and _always_leaves(s.finalbody):
            return True
        main = _always_leaves(s.orelse) if s.orelse else _always_leaves(s.body)
        return main and all(_always_leaves(h.body) for h in s.handlers)
    if isinstance(s, (ast.With, ast.AsyncWith)):
        return _always_leaves(s.body)
    if isinstance(s, ast.While) and isinstance(s.test, ast.Constant) and s.test.value and not any(isinstance(x, ast.Break) for x in ast.walk(s)):
        return True
    return False


def _simple_expr(e: ast.AST) -> bool:
    """cheap, effect-free, re-evaluable key expression: names, attribute chains, constants, type(x)/len(x) of those"""
    if _simple(e):
        return True
    if isinstance(e, ast.Call) and isinstance(e.func, ast.Name) and e.func.id in ("type", "len") and len(e.args) == 1 and not e.keywords:
        return _simple_expr(e.args[0])
    if isinstance(e, ast.Subscript) and isinstance(e.slice, ast.Constant) and _simple(e.value):
        return True
    return False


def _simple(e: ast.AST) -> bool:
    if isinstance(e, (ast.Name, ast.Constant)):
        return True
    if isinstance(e, ast.Attribute):
        return _simple(e.value)
    return False


class Flattener:
    def __init__(self, repo: Repo, force: frozenset[str] = frozenset()) -> None:
        self.repo = repo
        self.inlined: list[tuple[str, str]] = []
        #: census functions a rule wants merged into their caller (analysis of the caller/callee pair as one unit)
        self.force = force

    def inlinable_target(self, call: ast.Call, ctx_fi: FuncInfo, stack: tuple[str, ...], gen: bool = False, cm: bool = False) -> FuncInfo | None:
        fn = call.func
        if any(isinstance(a, ast.Starred) for a in call.args) or any(k.arg is None for k in call.keywords):
            return None
        if isinstance(fn, ast.Attribute):
            if not _simple(fn.value):
                # self.helper(..), Class.helper(..), channel.helper(..), self.gateway.helper(..): the receiver must be
                # re-evaluable (a name or attribute chain), anything else is not inlined
                return None
        elif not isinstance(fn, ast.Name):
            return None
        try:
            targets = self.repo.resolve_call(call, ctx_fi)
        except Exception:
            return None
        if not targets and isinstance(fn, ast.Attribute):
            # receiver type unknown: a *new* helper method whose name is defined exactly once in the repo
            cands = [f for f in self.repo.funcs.values() if f.name == fn.attr and f.cls is not None]
            if len(cands) == 1 and not self.repo.is_known(cands[0].qualname):
                targets = cands
        if len(targets) != 1:
            return None
        t = targets[0]
        if self.repo.is_known(t.qualname) and t.qualname not in self.force:
            return None
        if t.qualname in stack or t.name == "__init__":
            return None
        if isinstance(t.node, ast.Lambda) or isinstance(t.node, ast.AsyncFunctionDef):
            return None
        ys = [x for x in ast.walk(t.node) if isinstance(x, (ast.Yield, ast.YieldFrom, ast.Await))]
        decos0 = {unparse(d) for d in t.node.decorator_list}
        is_cm = bool(decos0 & {"contextmanager", "contextlib.contextmanager"})
        if cm != is_cm:
            return None
        if cm:
            # @contextmanager helper with exactly one statement-level yield outside any loop, and no return
            stmts_y = [x for x in ast.walk(t.node) if isinstance(x, ast.Expr) and isinstance(x.value, ast.Yield)]
            in_loop = any(isinstance(x, (ast.For, ast.While)) and any(y is stmts_y[0] for y in ast.walk(x)) for x in ast.walk(t.node)) if stmts_y else True
            if len(ys) != 1 or len(stmts_y) != 1 or in_loop or any(isinstance(x, ast.Return) for x in ast.walk(t.node)):
                return None
        elif gen:
            # simple generators only: every yield is a statement of its own
            stmts_y = [x.value for x in ast.walk(t.node) if isinstance(x, ast.Expr) and isinstance(x.value, ast.Yield)]
            if not ys or len(stmts_y) != len(ys) or any(not isinstance(y, ast.Yield) or y.value is None for y in ys):
                return None
        elif ys:
            return None
        a = t.node.args
        if a.vararg or a.kwarg or a.posonlyargs and False:
            return None
        decos = {unparse(d) for d in t.node.decorator_list}
        if decos - {"staticmethod", "classmethod"} - ({"contextmanager", "contextlib.contextmanager"} if cm else set()):
            return None
        return t

    def bind(self, call: ast.Call, t: FuncInfo, caller_names: set[str]) -> tuple[list[ast.stmt], list[ast.stmt]] | None:
        """(prologue assignments, renamed copy of the helper body)"""
        formals = [a.arg for a in t.node.args.args]
        decos = {unparse(d) for d in t.node.decorator_list}
        is_method = t.cls is not None and "staticmethod" not in decos
        if is_method and formals:
            recv_formal = formals[0]
            formals = formals[1:]
        else:
            recv_formal = None
        kwonly = [a.arg for a in t.node.args.kwonlyargs]
        defaults = t.node.args.defaults
        dmap = dict(zip(formals[len(formals) - len(defaults):], defaults)) if defaults else {}
        for a, d in zip(t.node.args.kwonlyargs, t.node.args.kw_defaults):
            if d is not None:
                dmap[a.arg] = d
        actual: dict[str, ast.AST] = {}
        call_args = list(call.args)
        explicit_recv = None
        if recv_formal is not None and isinstance(call.func, ast.Attribute) and isinstance(call.func.value, ast.Name) and call.func.value.id in self.repo.classes \
                and "classmethod" not in decos and call_args:
            # Class.method(obj, ...): the receiver is the first positional argument
            explicit_recv, call_args = call_args[0], call_args[1:]
            if not _simple(explicit_recv):
                return None
        if len(call_args) > len(formals):
            return None
        for f, a in zip(formals, call_args):
            actual[f] = a
        for k in call.keywords:
            if k.arg not in formals + kwonly or k.arg in actual:
                return None
            actual[k.arg] = k.value
        for f in formals + kwonly:
            if f not in actual:
                if f in dmap:
                    actual[f] = dmap[f]
                else:
                    return None
        body = copy.deepcopy([s for s in t.node.body if not (isinstance(s, ast.Expr) and isinstance(s.value, ast.Constant) and isinstance(s.value.value, str))])
        n = next(_counter)
        locals_ = _names_stored(body) | set(formals + kwonly)
        rename = {}
        subst: dict[str, ast.AST] = {}
        prologue: list[ast.stmt] = []
        if recv_formal is not None:
            recv = explicit_recv if explicit_recv is not None else (call.func.value if isinstance(call.func, ast.Attribute) else ast.Name(id="self", ctx=ast.Load()))
            if recv_formal != unparse(recv):
                subst[recv_formal] = recv
        stored_in_body = _names_stored(body)
        for f in formals + kwonly:
            a = actual[f]
            if isinstance(a, ast.Name) and a.id == f:
                continue  # same name on both sides
            if _simple(a) and f not in stored_in_body and not (_names_used(a) & stored_in_body):
                subst[f] = a
            else:
                new = f if f not in caller_names else f"{f}_h{n}"
                if new != f:
                    rename[f] = new
                prologue.append(ast.Assign(targets=[ast.Name(id=new, ctx=ast.Store())], value=copy.deepcopy(a), lineno=call.lineno, col_offset=call.col_offset))
        for name in sorted(stored_in_body - set(formals + kwonly)):
            if name in caller_names:
                rename[name] = f"{name}_h{n}"
        new_body = []
        for s in body:
            s = _Rename(rename).visit(s) if rename else s
            s = _SubstLoad(subst).visit(s) if subst else s
            new_body.append(s)
        return prologue, new_body

    def replace_returns(self, body: list[ast.stmt], make) -> tuple[list[ast.stmt], bool]:
        """rewrite `return e` with make(e) + break; returns (body, needs_wrapper).  A return inside a loop of the
        helper sets a flag, breaks that loop, and the flag is tested right after the loop (`if flag: break`)."""
        needs = False
        flag = f"returned_h{next(_counter)}"
        used_flag = False

        def rw(stmts: list[ast.stmt], top: bool, in_loop: bool) -> list[ast.stmt]:
            nonlocal needs, used_flag
            out = []
            for i, s in enumerate(stmts):
                if isinstance(s, (ast.FunctionDef, ast.AsyncFunctionDef, ast.ClassDef)):
                    out.append(s)
                    continue
                if isinstance(s, ast.Return):
                    out.extend(make(s.value, s))
                    # `top` = tail position: nothing of the helper runs after this block falls through
                    last_top = top and i == len(stmts) - 1
                    if in_loop:
                        used_flag = True
                        out.append(ast.copy_location(ast.Assign(targets=[ast.Name(id=flag, ctx=ast.Store())], value=ast.Constant(value=True)), s))
                    if not last_top:
                        needs = True
                        out.append(ast.copy_location(ast.Break(), s))
                    continue
                is_loop = isinstance(s, (ast.For, ast.While, ast.AsyncFor))
                before = used_flag
                if is_loop:
                    used_flag = False
                tail_here = top and i == len(stmts) - 1 and not is_loop
                for name in ("body", "orelse", "finalbody"):
                    sub = getattr(s, name, None)
                    if isinstance(sub, list) and sub and isinstance(sub[0], ast.stmt):
                        # tail position is inherited by the arms of a trailing if / with, by the else and (if there is
                        # neither else nor finally) the body of a trailing try, and by its handlers
                        t_ = tail_here and (isinstance(s, (ast.If, ast.With)) or (isinstance(s, ast.Try) and not s.finalbody and (name == "orelse" or (name == "body" and not s.orelse))))
                        setattr(s, name, rw(sub, t_, (in_loop or is_loop) if name == "body" else in_loop))
                for h in getattr(s, "handlers", []) or []:
                    h.body = rw(h.body, tail_here and isinstance(s, ast.Try) and not s.finalbody, in_loop)
                out.append(s)
                if is_loop:
                    if used_flag:
                        # a return happened inside this loop: leave the enclosing loop / the one-trip wrapper too
                        needs = True
                        out.append(ast.copy_location(ast.If(test=ast.Name(id=flag, ctx=ast.Load()), body=[ast.copy_location(ast.Break(), s)], orelse=[]), s))
                    used_flag = used_flag or before
            return out

        res = rw(body, True, False)
        if used_flag:
            res = [ast.Assign(targets=[ast.Name(id=flag, ctx=ast.Store())], value=ast.Constant(value=False), lineno=body[0].lineno if body else 0, col_offset=0)] + res
        return res, needs

    def expand_stmt(self, s: ast.stmt, ctx_fi: FuncInfo, caller_names: set[str], stack: tuple[str, ...], depth: int) -> list[ast.stmt] | None:
        call = None
        mode = None
        if isinstance(s, ast.Expr) and isinstance(s.value, ast.Call) and isinstance(s.value.func, ast.Call) \
                and self.inlinable_target(s.value.func, ctx_fi, stack) is not None:
            # helper()(args)  ==>  tmp = helper(); tmp(args)
            tmp = f"callee_h{next(_counter)}"
            first = ast.copy_location(ast.Assign(targets=[ast.Name(id=tmp, ctx=ast.Store())], value=s.value.func), s)
            second = ast.copy_location(ast.Expr(value=ast.Call(func=ast.Name(id=tmp, ctx=ast.Load()), args=s.value.args, keywords=s.value.keywords)), s)
            ast.fix_missing_locations(first)
            ast.fix_missing_locations(second)
            rep = self.expand_stmt(first, ctx_fi, caller_names | {tmp}, stack, depth)
            return (rep if rep is not None else [first]) + [second]
        if isinstance(s, (ast.Expr, ast.Assign)) and isinstance(s.value, ast.Call) and len(s.value.args) == 1 and isinstance(s.value.args[0], ast.Starred) \
                and isinstance(s.value.args[0].value, ast.Call) and (isinstance(s.value.func, ast.Name) or (isinstance(s.value.func, ast.Attribute) and _simple(s.value.func.value))):
            # f(*helper(a, b))  ==>  the helper's body with `return (x, y)` replaced by `f(x, y)`
            inner = s.value.args[0].value
            t = self.inlinable_target(inner, ctx_fi, stack)
            bound = self.bind(inner, t, caller_names) if t is not None else None
            if bound is not None:
                prologue, body = bound
                outer_call = s.value

                def make(v, at):
                    if isinstance(v, ast.Tuple) and not any(isinstance(x, ast.Starred) for x in v.elts):
                        args = list(v.elts)
                    else:
                        args = [ast.Starred(value=v if v is not None else ast.Constant(value=None), ctx=ast.Load())]
                    call = ast.Call(func=copy.deepcopy(outer_call.func), args=args, keywords=copy.deepcopy(outer_call.keywords))
                    if isinstance(s, ast.Assign):
                        return [ast.copy_location(ast.Assign(targets=copy.deepcopy(s.targets), value=call), at)]
                    return [ast.copy_location(ast.Expr(value=call), at)]
                falls = bool(body) and not _always_leaves(body)  # (before the returns are rewritten in place)
                body2, needs = self.replace_returns(body, make)
                if falls:
                    body2 = body2 + make(None, s)
                if needs:
                    new = prologue + [ast.copy_location(ast.While(test=ast.Constant(value=True), body=body2 + [ast.copy_location(ast.Break(), s)], orelse=[]), s)]
                else:
                    new = prologue + body2
                for x in new:
                    ast.fix_missing_locations(x)
                self.inlined.append((ctx_fi.short, t.short))
                if depth > 1:
                    new = self.flatten_block(new, ctx_fi, caller_names | _names_stored(new), stack + (t.qualname,), depth - 1, resolve_ctx=t)
                return new
        if isinstance(s, ast.Raise) and isinstance(s.exc, ast.Call) and self.inlinable_target(s.exc, ctx_fi, stack) is not None:
            # raise helper(args)  ==>  exc = helper(args); raise exc
            tmp = f"exc_h{next(_counter)}"
            first = ast.copy_location(ast.Assign(targets=[ast.Name(id=tmp, ctx=ast.Store())], value=s.exc), s)
            second = ast.copy_location(ast.Raise(exc=ast.Name(id=tmp, ctx=ast.Load()), cause=s.cause), s)
            ast.fix_missing_locations(first)
            ast.fix_missing_locations(second)
            rep = self.expand_stmt(first, ctx_fi, caller_names | {tmp}, stack, depth)
            return (rep if rep is not None else [first]) + [second]
        if isinstance(s, ast.If) and isinstance(s.test, ast.BoolOp) and len(s.test.values) >= 2 \
                and any(isinstance(x, ast.Call) and self.inlinable_target(x, ctx_fi, stack) is not None for v in s.test.values[1:] for x in ast.walk(v)):
            # short-circuit expansion so that a helper call in a later operand gets a statement position of its own:
            #   if a or b: S else: T   ==>  if a: S else: (if b: S else: T)
            #   if a and b: S else: T  ==>  if a: (if b: S else: T) else: T
            first = s.test.values[0]
            rest = s.test.values[1] if len(s.test.values) == 2 else ast.BoolOp(op=s.test.op, values=s.test.values[1:])
            inner = ast.copy_location(ast.If(test=rest, body=copy.deepcopy(s.body), orelse=copy.deepcopy(s.orelse)), s)
            if isinstance(s.test.op, ast.Or):
                new_if = ast.If(test=first, body=s.body, orelse=[inner])
            else:
                new_if = ast.If(test=first, body=[inner], orelse=s.orelse)
            ast.copy_location(new_if, s)
            ast.fix_missing_locations(new_if)
            return self.flatten_block([new_if], ctx_fi, caller_names, stack, depth)
        if isinstance(s, ast.With) and len(s.items) == 1 and isinstance(s.items[0].context_expr, ast.Call):
            t = self.inlinable_target(s.items[0].context_expr, ctx_fi, stack, cm=True)
            bound = self.bind(s.items[0].context_expr, t, caller_names) if t is not None else None
            if bound is not None:
                # with helper_cm(args) [as v]: body   ==>   the helper's body with `yield x` replaced by `[v = x;] body`
                prologue, body = bound
                with_body, as_var = s.body, s.items[0].optional_vars

                class _Y(ast.NodeTransformer):
                    def visit_Expr(self_, node):  # noqa: N805
                        if isinstance(node.value, ast.Yield):
                            out = []
                            if as_var is not None:
                                out.append(ast.copy_location(ast.Assign(targets=[copy.deepcopy(as_var)], value=node.value.value or ast.Constant(value=None)), node))
                            out.extend(with_body)
                            return out
                        return node

                    def visit_FunctionDef(self_, node):  # noqa: N805
                        return node
                new = prologue + [x for st_ in body for x in (lambda r: r if isinstance(r, list) else [r])(_Y().visit(st_))]
                for x in new:
                    ast.fix_missing_locations(x)
                self.inlined.append((ctx_fi.short, t.short))
                if depth > 1:
                    new = self.flatten_block(new, ctx_fi, caller_names | _names_stored(new), stack + (t.qualname,), depth - 1, resolve_ctx=t)
                return new
        if isinstance(s, ast.For) and isinstance(s.iter, ast.Call) and not s.orelse \
                and not any(isinstance(x, (ast.Return, ast.Yield, ast.YieldFrom)) for b in s.body for x in ast.walk(b)):
            t = self.inlinable_target(s.iter, ctx_fi, stack, gen=True)
            if t is not None and any(isinstance(x, (ast.Break, ast.Continue)) for b in s.body for x in ast.walk(b)):
                # `break` / `continue` of the for loop act on the generator's own loop once inlined: that is the same thing
                # only if the (single) yield sits directly in one loop that is the generator's last statement (break), and is
                # that loop body's last statement (continue)
                gbody = [x for x in t.node.body if not (isinstance(x, ast.Expr) and isinstance(x.value, ast.Constant))]
                ylds = [x for x in ast.walk(t.node) if isinstance(x, ast.Expr) and isinstance(x.value, ast.Yield)]
                last = gbody[-1] if gbody else None
                ok_ = len(ylds) == 1 and isinstance(last, (ast.While, ast.For)) and not last.orelse and any(x is ylds[0] for x in last.body) \
                    and not any(isinstance(x, (ast.While, ast.For)) and x is not last and any(y is ylds[0] for y in ast.walk(x)) for x in ast.walk(last))
                if ok_ and any(isinstance(x, ast.Continue) for b in s.body for x in ast.walk(b)) and last.body[-1] is not ylds[0]:
                    ok_ = False
                # a break/continue nested in a loop of the for body itself belongs to that loop: fine either way
                if not ok_:
                    t = None
            if t is not None:
                # for x in helper_generator(args): body   ==>   helper body with `yield v` replaced by `x = v; body`
                bound = self.bind(s.iter, t, caller_names)
                if bound is not None:
                    prologue, body = bound
                    loop_body, target = s.body, s.target

                    class _Y(ast.NodeTransformer):
                        def visit_Expr(self_, node):  # noqa: N805
                            if isinstance(node.value, ast.Yield):
                                v = node.value.value
                                out = []
                                if not (isinstance(target, ast.Name) and isinstance(v, ast.Name) and v.id == target.id):
                                    out.append(ast.copy_location(ast.Assign(targets=[copy.deepcopy(target)], value=v), node))
                                out.extend(copy.deepcopy(loop_body))
                                return out
                            return node

                        def visit_FunctionDef(self_, node):  # noqa: N805
                            return node
                    body = [x for st_ in body for x in (lambda r: r if isinstance(r, list) else [r])(_Y().visit(st_))]
                    body2, needs = self.replace_returns(body, lambda v, at: [])
                    if needs:
                        new = prologue + [ast.copy_location(ast.While(test=ast.Constant(value=True), body=body2 + [ast.copy_location(ast.Break(), s)], orelse=[]), s)]
                    else:
                        new = prologue + body2
                    for x in new:
                        ast.fix_missing_locations(x)
                    self.inlined.append((ctx_fi.short, t.short))
                    if depth > 1:
                        new = self.flatten_block(new, ctx_fi, caller_names | _names_stored(new), stack + (t.qualname,), depth - 1, resolve_ctx=t)
                    return new
        if isinstance(s, (ast.Assign, ast.Return)) and isinstance(s.value, ast.IfExp) and (not isinstance(s, ast.Assign) or len(s.targets) == 1) \
                and any(isinstance(b, ast.Call) and self.inlinable_target(b, ctx_fi, stack) is not None for b in (s.value.body, s.value.orelse)):
            # x = A() if c else B   ==>   if c: x = A() else: x = B
            def arm(v):
                if isinstance(s, ast.Assign):
                    return ast.copy_location(ast.Assign(targets=[copy.deepcopy(s.targets[0])], value=v), s)
                return ast.copy_location(ast.Return(value=v), s)
            new_if = ast.copy_location(ast.If(test=s.value.test, body=[arm(s.value.body)], orelse=[arm(s.value.orelse)]), s)
            ast.fix_missing_locations(new_if)
            return self.flatten_block([new_if], ctx_fi, caller_names, stack, depth)
        outer = s.value if isinstance(s, (ast.Expr, ast.Assign, ast.Return)) and isinstance(getattr(s, "value", None), ast.Call) else None
        if outer is not None and self.inlinable_target(outer, ctx_fi, stack) is None:
            # f(.., helper(..), ..)  ==>  arg = helper(..); f(.., arg, ..)   (only when everything evaluated before it is simple)
            recv_simple = isinstance(outer.func, ast.Name) or (isinstance(outer.func, ast.Attribute) and _simple(outer.func.value))
            for i, a in enumerate(outer.args):
                if isinstance(a, ast.Call) and recv_simple and all(_simple(p) for p in outer.args[:i]) and self.inlinable_target(a, ctx_fi, stack) is not None:
                    tmp = f"arg_h{next(_counter)}"
                    first = ast.copy_location(ast.Assign(targets=[ast.Name(id=tmp, ctx=ast.Store())], value=a), s)
                    outer.args[i] = ast.copy_location(ast.Name(id=tmp, ctx=ast.Load()), a)
                    ast.fix_missing_locations(first)
                    rep = self.expand_stmt(first, ctx_fi, caller_names | {tmp}, stack, depth)
                    rest = self.expand_stmt(s, ctx_fi, caller_names | {tmp}, stack, depth)
                    return (rep if rep is not None else [first]) + (rest if rest is not None else [s])
        if isinstance(s, ast.Expr) and isinstance(s.value, ast.Call):
            call, mode = s.value, "expr"
        elif isinstance(s, ast.Assign) and len(s.targets) == 1 and isinstance(s.targets[0], (ast.Name, ast.Attribute, ast.Tuple)) and isinstance(s.value, ast.Call):
            call, mode = s.value, "assign"
        elif isinstance(s, ast.AnnAssign) and isinstance(s.value, ast.Call) and isinstance(s.target, ast.Name):
            call, mode = s.value, "assign"
        elif isinstance(s, ast.Return) and isinstance(s.value, ast.Call):
            call, mode = s.value, "return"
        elif isinstance(s, ast.If):
            t = s.test
            if isinstance(t, ast.Call):
                call, mode = t, "if"
            elif isinstance(t, ast.UnaryOp) and isinstance(t.op, ast.Not) and isinstance(t.operand, ast.Call):
                call, mode = t.operand, "ifnot"
        if call is None:
            return None
        t = self.inlinable_target(call, ctx_fi, stack)
        if t is None:
            return None
        bound = self.bind(call, t, caller_names)
        if bound is None:
            return None
        prologue, body = bound
        n = next(_counter)
        if mode == "expr":
            def make(v, at):
                if v is None or isinstance(v, (ast.Constant, ast.Name)):
                    return []
                return [ast.copy_location(ast.Expr(value=v), at)]
            tail: list[ast.stmt] = []
        elif mode == "assign":
            tgt = s.targets[0] if isinstance(s, ast.Assign) else s.target

            def make(v, at):
                return [ast.copy_location(ast.Assign(targets=[copy.deepcopy(tgt)], value=v if v is not None else ast.Constant(value=None)), at)]
            tail = []
        elif mode == "return":
            def make(v, at):
                return [ast.copy_location(ast.Return(value=v), at)]
            tail = []
        else:
            var = f"ret_h{n}"

            def make(v, at):
                return [ast.copy_location(ast.Assign(targets=[ast.Name(id=var, ctx=ast.Store())], value=v if v is not None else ast.Constant(value=None)), at)]
            test: ast.AST = ast.Name(id=var, ctx=ast.Load())
            if mode == "ifnot":
                test = ast.UnaryOp(op=ast.Not(), operand=test)
            new_if = ast.copy_location(ast.If(test=test, body=s.body, orelse=s.orelse), s)
            tail = [new_if]
        if mode == "return":
            # returns of the helper are returns of the caller; a fall-through returns None
            new = prologue + body
            if not body or not _always_leaves(body):
                new = new + [ast.copy_location(ast.Return(value=None), s)]
        else:
            falls_through = not body or not _always_leaves(body)  # (before the returns are rewritten in place)
            body2, needs = self.replace_returns(body, make)
            if mode in ("assign", "if", "ifnot") and falls_through:
                # implicit `return None`
                body2 = body2 + make(None, s)
            if needs:
                wrapper = ast.copy_location(ast.While(test=ast.Constant(value=True), body=body2 + [ast.copy_location(ast.Break(), s)], orelse=[]), s)
                new = prologue + [wrapper]
            else:
                new = prologue + body2
            new = new + tail
        for x in new:
            ast.fix_missing_locations(x)
        self.inlined.append((ctx_fi.short, t.short))
        # helpers of helpers
        if depth > 1:
            new = self.flatten_block(new, ctx_fi, caller_names | _names_stored(new), stack + (t.qualname,), depth - 1, resolve_ctx=t)
        return new

    def flatten_block(self, stmts: list[ast.stmt], ctx_fi: FuncInfo, caller_names: set[str], stack: tuple[str, ...], depth: int, resolve_ctx: FuncInfo | None = None) -> list[ast.stmt]:
        out: list[ast.stmt] = []
        rc = resolve_ctx or ctx_fi
        for s in stmts:
            if isinstance(s, (ast.FunctionDef, ast.AsyncFunctionDef, ast.ClassDef)):
                out.append(s)
                continue
            # descend first into compound statements
            for name in ("body", "orelse", "finalbody"):
                sub = getattr(s, name, None)
                if isinstance(sub, list) and sub and isinstance(sub[0], ast.stmt):
                    setattr(s, name, self.flatten_block(sub, ctx_fi, caller_names, stack, depth, resolve_ctx))
            for h in getattr(s, "handlers", []) or []:
                h.body = self.flatten_block(h.body, ctx_fi, caller_names, stack, depth, resolve_ctx)
            rep = self.expand_stmt(s, rc, caller_names, stack, depth) if depth > 0 else None
            if rep is None and depth > 0:
                rep = self.hoist_nested(s, rc, ctx_fi, caller_names, stack, depth, resolve_ctx)
            if rep is None:
                out.append(s)
            else:
                out.extend(rep)
                caller_names |= _names_stored(rep)  # later helpers must not reuse these names
        return out

    def hoist_nested(self, s: ast.stmt, rc: FuncInfo, ctx_fi: FuncInfo, caller_names: set[str], stack: tuple[str, ...], depth: int,
                     resolve_ctx: FuncInfo | None) -> list[ast.stmt] | None:
        """a call of a new helper nested deeper inside the expression of a simple statement (`x = f(g(helper(a))[0])`,
        `if a and ...` excluded) is evaluated into a temporary first, so that it can be inlined -- only when nothing with
        an effect is evaluated before it in that statement and it is evaluated unconditionally"""
        if isinstance(s, (ast.Expr, ast.Assign, ast.AugAssign, ast.AnnAssign, ast.Return)):
            root = s.value
        elif isinstance(s, ast.If):
            root = s.test
        elif isinstance(s, ast.Raise):
            root = s.exc
        else:
            return None
        if root is None:
            return None
        parents: dict[int, ast.AST] = {}
        for p_ in ast.walk(root):
            for c in ast.iter_child_nodes(p_):
                parents[id(c)] = p_
        cands = [x for x in ast.walk(root) if isinstance(x, ast.Call) and x is not root and self.inlinable_target(x, rc, stack) is not None]
        cands.sort(key=lambda x: (getattr(x, "lineno", 0), getattr(x, "col_offset", 0)))
        for call in cands:
            # unconditional evaluation: no short-circuit / conditional / deferred context between the statement and the call
            anc = []
            cur: ast.AST | None = call
            ok = True
            while cur is not None and cur is not root:
                par = parents.get(id(cur))
                if par is None:
                    break
                if isinstance(par, ast.BoolOp) and par.values[0] is not cur:
                    ok = False
                if isinstance(par, ast.IfExp) and par.test is not cur:
                    ok = False
                if isinstance(par, (ast.Lambda, ast.ListComp, ast.SetComp, ast.DictComp, ast.GeneratorExp, ast.comprehension)):
                    ok = False
                if isinstance(par, ast.Compare) and par.left is not cur and len(par.ops) > 1:
                    ok = False
                anc.append(par)
                cur = par
            if not ok:
                continue
            # everything evaluated before the call must be effect-free: other calls positioned before it must be its ancestors
            pos = (getattr(call, "lineno", 0), getattr(call, "col_offset", 0))
            earlier = [x for x in ast.walk(root) if isinstance(x, (ast.Call, ast.Await, ast.Yield, ast.NamedExpr)) and x is not call
                       and (getattr(x, "lineno", 0), getattr(x, "col_offset", 0)) < pos and not any(x is a for a in anc)
                       and not any(x is y for y in ast.walk(call))]
            if earlier:
                continue
            tmp = f"val_h{next(_counter)}"
            first = ast.copy_location(ast.Assign(targets=[ast.Name(id=tmp, ctx=ast.Store())], value=call), s)
            par = parents[id(call)]
            for fld, val in ast.iter_fields(par):
                if val is call:
                    setattr(par, fld, ast.copy_location(ast.Name(id=tmp, ctx=ast.Load()), call))
                elif isinstance(val, list):
                    for i, v in enumerate(val):
                        if v is call:
                            val[i] = ast.copy_location(ast.Name(id=tmp, ctx=ast.Load()), call)
            ast.fix_missing_locations(first)
            rep = self.expand_stmt(first, rc, caller_names | {tmp}, stack, depth)
            if rep is None:
                rep = [first]
            rest = self.flatten_block([s], ctx_fi, caller_names | {tmp} | _names_stored(rep), stack, depth, resolve_ctx)
            return rep + rest
        return None

    # ------------------------------------------------------------ table dispatch
    def _const_table(self, e: ast.AST, fi: FuncInfo) -> tuple[ast.Dict, str | None] | None:
        """the dict display a never-mutated class- or module-level table expression denotes: (display, owning class)"""
        name = cls = None
        if isinstance(e, ast.Attribute) and isinstance(e.value, ast.Name) and (e.value.id in ("self", "cls") or e.value.id in self.repo.classes):
            name = e.attr
            ci = fi.cls if e.value.id in ("self", "cls") else self.repo.classes.get(e.value.id)
            p = fi
            while ci is None and p is not None:
                ci, p = p.cls, p.parent
            seen = set()
            while ci is not None and ci.name not in seen:
                seen.add(ci.name)
                for st in ci.node.body:
                    tgt = st.targets[0] if isinstance(st, ast.Assign) and len(st.targets) == 1 else (st.target if isinstance(st, ast.AnnAssign) else None)
                    if isinstance(tgt, ast.Name) and tgt.id == name and isinstance(getattr(st, "value", None), ast.Dict):
                        # the table must never be written to: no subscript stores / mutator calls on .<name> anywhere
                        for f in self.repo.funcs.values():
                            for x in ast.walk(f.node):
                                if isinstance(x, ast.Attribute) and x.attr == name and isinstance(x.ctx, (ast.Store, ast.Del)):
                                    return None
                                if isinstance(x, ast.Subscript) and isinstance(x.ctx, (ast.Store, ast.Del)) and isinstance(x.value, ast.Attribute) and x.value.attr == name:
                                    return None
                                if isinstance(x, ast.Call) and isinstance(x.func, ast.Attribute) and x.func.attr in ("update", "pop", "setdefault", "clear", "popitem") \
                                        and isinstance(x.func.value, ast.Attribute) and x.func.value.attr == name:
                                    return None
                        for st2 in ci.node.body:
                            if st2 is not st and any(isinstance(x, ast.Subscript) and isinstance(x.ctx, ast.Store) and isinstance(x.value, ast.Name) and x.value.id == name for x in ast.walk(st2)):
                                return None
                        return st.value, ci.name
                ci = next((self.repo.classes.get(b) for b in ci.bases if b in self.repo.classes), None)
            return None
        if isinstance(e, ast.Name) and e.id not in fi.params():
            for st in fi.module.tree.body:
                tgt = st.targets[0] if isinstance(st, ast.Assign) and len(st.targets) == 1 else (st.target if isinstance(st, ast.AnnAssign) else None)
                if isinstance(tgt, ast.Name) and tgt.id == e.id and isinstance(getattr(st, "value", None), ast.Dict):
                    for x in ast.walk(fi.module.tree):
                        if isinstance(x, ast.Subscript) and isinstance(x.ctx, (ast.Store, ast.Del)) and isinstance(x.value, ast.Name) and x.value.id == e.id:
                            return None
                    return st.value, None
        return None

    def normalise_dispatch(self, fi: FuncInfo, node: ast.AST) -> None:
        """`f = TABLE.get(k)` / `f = TABLE[k]` ... `f(args)` with a constant {key: function} table  ==>  an
        if/elif chain on the key calling the functions by name (which the helper inliner can then expand)"""
        body = getattr(node, "body", None)
        if not isinstance(body, list):
            return
        lookups: dict[str, tuple[ast.Dict, str | None, ast.AST, bool]] = {}
        stores: dict[str, int] = {}
        for x in ast.walk(node):
            if isinstance(x, ast.Name) and isinstance(x.ctx, ast.Store):
                stores[x.id] = stores.get(x.id, 0) + 1
        for x in ast.walk(node):
            if isinstance(x, ast.Assign) and len(x.targets) == 1 and isinstance(x.targets[0], ast.Name) and stores.get(x.targets[0].id) == 1:
                v = x.value
                key = tab = None
                soft = False
                if isinstance(v, ast.Call) and isinstance(v.func, ast.Attribute) and v.func.attr == "get" and 1 <= len(v.args) <= 2 and not v.keywords \
                        and (len(v.args) == 1 or (isinstance(v.args[1], ast.Constant) and v.args[1].value is None)):
                    tab, key, soft = v.func.value, v.args[0], True
                elif isinstance(v, ast.Subscript) and not isinstance(v.slice, ast.Slice):
                    tab, key = v.value, v.slice
                if tab is None or not _simple_expr(key):
                    continue
                ct = self._const_table(tab, fi)
                if ct is None and isinstance(tab, ast.Name) and stores.get(tab.id) == 1:
                    # a local table built once by a dict display and only ever looked up
                    defs_ = [y for y in ast.walk(node) if isinstance(y, (ast.Assign, ast.AnnAssign)) and isinstance(y.targets[0] if isinstance(y, ast.Assign) else y.target, ast.Name)
                             and (y.targets[0] if isinstance(y, ast.Assign) else y.target).id == tab.id and isinstance(y.value, ast.Dict)]
                    uses_ = [y for y in ast.walk(node) if isinstance(y, ast.Name) and y.id == tab.id and isinstance(y.ctx, ast.Load)]
                    lookups_ = [y for y in ast.walk(node) if (isinstance(y, ast.Call) and isinstance(y.func, ast.Attribute) and y.func.attr == "get" and isinstance(y.func.value, ast.Name) and y.func.value.id == tab.id)
                                or (isinstance(y, ast.Subscript) and isinstance(y.ctx, ast.Load) and isinstance(y.value, ast.Name) and y.value.id == tab.id)
                                or (isinstance(y, ast.Compare) and len(y.ops) == 1 and isinstance(y.ops[0], (ast.In, ast.NotIn)) and isinstance(y.comparators[0], ast.Name) and y.comparators[0].id == tab.id)]
                    if len(defs_) == 1 and len(uses_) == len(lookups_):
                        ct = (defs_[0].value, None)

                def ok_val(val):
                    if isinstance(val, ast.Name) or (isinstance(val, ast.Attribute) and _simple(val)):
                        return True
                    a_ = val.args if isinstance(val, ast.Lambda) else None
                    return a_ is not None and not (a_.vararg or a_.kwarg or a_.kwonlyargs or a_.defaults or a_.posonlyargs)
                if ct is None or not ct[0].keys or not all(ok_val(val) for val in ct[0].values) or any(k is None for k in ct[0].keys):
                    continue
                lookups[x.targets[0].id] = (ct[0], ct[1], key, soft)
        if not lookups:
            return

        guarded: dict[str, ast.If] = {}
        for x in ast.walk(node):
            if isinstance(x, ast.If) and isinstance(x.test, ast.Compare) and isinstance(x.test.left, ast.Name) and x.test.left.id in lookups and len(x.test.ops) == 1 \
                    and isinstance(x.test.ops[0], ast.Is) and isinstance(x.test.comparators[0], ast.Constant) and x.test.comparators[0].value is None \
                    and x.body and isinstance(x.body[-1], (ast.Raise, ast.Return, ast.Continue, ast.Break)) and not x.orelse and x.test.left.id not in guarded:
                guarded[x.test.left.id] = x  # `if f is None: <leave>` -- a miss never reaches the call

        positive: set[int] = set()
        for x in ast.walk(node):
            if isinstance(x, ast.If) and isinstance(x.test, ast.Compare) and isinstance(x.test.left, ast.Name) and x.test.left.id in lookups and len(x.test.ops) == 1 \
                    and isinstance(x.test.ops[0], ast.IsNot) and isinstance(x.test.comparators[0], ast.Constant) and x.test.comparators[0].value is None:
                for b in x.body:
                    for y in ast.walk(b):
                        if isinstance(y, ast.Call) and isinstance(y.func, ast.Name) and y.func.id == x.test.left.id:
                            positive.add(id(y))

        def chain(call: ast.Call, mk) -> ast.stmt:
            disp, owner, key, soft = lookups[call.func.id]
            arms = []
            for k, fn in zip(disp.keys, disp.values):
                is_type = isinstance(k, ast.Name) and k.id in ("list", "dict", "tuple", "set", "frozenset", "int", "float", "str", "bytes", "bool", "complex")
                test = ast.Compare(left=copy.deepcopy(key), ops=[ast.Is() if is_type else ast.Eq()], comparators=[copy.deepcopy(k)])
                if isinstance(fn, ast.Lambda):
                    formals = [a.arg for a in fn.args.args]
                    if len(formals) != len(call.args) or call.keywords or not all(_simple_expr(a) for a in call.args):
                        return mk(copy.deepcopy(call))  # cannot reduce: leave the dispatch as it is
                    c2 = _SubstLoad(dict(zip(formals, call.args))).visit(copy.deepcopy(fn.body))
                elif isinstance(fn, ast.Attribute):
                    c2 = ast.Call(func=copy.deepcopy(fn), args=copy.deepcopy(call.args), keywords=copy.deepcopy(call.keywords))
                else:
                    target: ast.AST = ast.Name(id=fn.id, ctx=ast.Load())
                    if owner is not None and fn.id not in fi.module.functions:
                        target = ast.Attribute(value=ast.Name(id=owner, ctx=ast.Load()), attr=fn.id, ctx=ast.Load())
                    c2 = ast.Call(func=target, args=copy.deepcopy(call.args), keywords=copy.deepcopy(call.keywords))
                arms.append((test, mk(c2)))
            orelse: list[ast.stmt] = [ast.Raise(exc=ast.Call(func=ast.Name(id="TypeError", ctx=ast.Load()), args=[ast.Constant(value="'NoneType' object is not callable")], keywords=[]), cause=None)] if soft else []  # (a hard lookup `TABLE[k]` stays where it is and raises KeyError there)
            if soft and call.func.id in guarded and arms:
                # the guard `if f is None: <leave>` becomes the final else of the chain (and is dropped below)
                orelse = copy.deepcopy(guarded[call.func.id].body)
                used_guards.add(call.func.id)
            elif soft and id(call) in positive:
                orelse = []  # the call sits under `if f is not None:` -- a miss does nothing
            for test, st in reversed(arms):
                orelse = [ast.If(test=test, body=[st], orelse=orelse)]
            return orelse[0]

        changed = False
        used_guards: set[str] = set()

        def rewrite(stmts: list[ast.stmt]) -> list[ast.stmt]:
            nonlocal changed
            out = []
            for s in stmts:
                for name in ("body", "orelse", "finalbody"):
                    sub_ = getattr(s, name, None)
                    if isinstance(sub_, list) and sub_ and isinstance(sub_[0], ast.stmt) and not isinstance(s, (ast.FunctionDef, ast.ClassDef)):
                        setattr(s, name, rewrite(sub_))
                for h in getattr(s, "handlers", []) or []:
                    h.body = rewrite(h.body)
                v = getattr(s, "value", None)
                if isinstance(s, (ast.Expr, ast.Assign, ast.Return)) and isinstance(v, ast.Call) and isinstance(v.func, ast.Name) and v.func.id in lookups:
                    if isinstance(s, ast.Expr):
                        new = chain(v, lambda c: ast.Expr(value=c))
                    elif isinstance(s, ast.Return):
                        new = chain(v, lambda c: ast.Return(value=c))
                    else:
                        new = chain(v, lambda c, s=s: ast.Assign(targets=copy.deepcopy(s.targets), value=c))
                    ast.copy_location(new, s)
                    for x in ast.walk(new):
                        ast.copy_location(x, s)
                    out.append(new)
                    changed = True
                    continue
                out.append(s)
            return out

        node.body = rewrite(body)
        if changed:
            self.inlined.append((fi.short, "<table dispatch>"))
            if used_guards:
                gone = [guarded[n] for n in used_guards]

                class _G(ast.NodeTransformer):
                    def visit_If(self_, x):  # noqa: N805
                        if any(x is g for g in gone):
                            return ast.copy_location(ast.Pass(), x)
                        return self_.generic_visit(x)
                _G().visit(node)
            # a looked-up function that is now only tested against None: test the key instead and drop the lookup
            for fname, (disp, owner, key, soft) in lookups.items():
                uses = [x for x in ast.walk(node) if isinstance(x, ast.Name) and x.id == fname and isinstance(x.ctx, ast.Load)]
                tests = [x for x in ast.walk(node) if isinstance(x, ast.Compare) and isinstance(x.left, ast.Name) and x.left.id == fname and len(x.ops) == 1
                         and isinstance(x.ops[0], (ast.Is, ast.IsNot)) and isinstance(x.comparators[0], ast.Constant) and x.comparators[0].value is None]
                if not soft or len(uses) != len(tests):
                    continue

                def member() -> ast.AST:
                    alts = []
                    for k in disp.keys:
                        is_type = isinstance(k, ast.Name) and k.id in ("list", "dict", "tuple", "set", "frozenset", "int", "float", "str", "bytes", "bool", "complex")
                        alts.append(ast.Compare(left=copy.deepcopy(key), ops=[ast.Is() if is_type else ast.Eq()], comparators=[copy.deepcopy(k)]))
                    return alts[0] if len(alts) == 1 else ast.BoolOp(op=ast.Or(), values=alts)

                class _T(ast.NodeTransformer):
                    def visit_Compare(self_, x):  # noqa: N805
                        if any(x is t for t in tests):
                            m = member()
                            new = m if isinstance(x.ops[0], ast.IsNot) else ast.UnaryOp(op=ast.Not(), operand=m)
                            return ast.copy_location(new, x)
                        return self_.generic_visit(x)

                    def visit_Assign(self_, x):  # noqa: N805
                        if len(x.targets) == 1 and isinstance(x.targets[0], ast.Name) and x.targets[0].id == fname:
                            return ast.copy_location(ast.Pass(), x)
                        return self_.generic_visit(x)
                _T().visit(node)
                ast.fix_missing_locations(node)

    # --------------------------------------------------------- alias propagation
    def propagate_aliases(self, fi: FuncInfo, node: ast.AST) -> None:
        """copy propagation of hoisted stable references: a local assigned exactly once, in the straight-line prefix
        of the function (before any branch or loop), from an attribute chain that nothing in the repo ever re-binds
        (`lock = self._receivelock`, `read = Message.from_io`, `log = self._receiver_log`) is replaced by that chain
        at its uses.  Snapshots of mutable fields (`items = self._items`) are left alone."""
        from .util import _chain_mutable, _is_chain

        body = getattr(node, "body", None)
        if not isinstance(body, list):
            return
        stores: dict[str, int] = {}
        for x in ast.walk(node):
            if isinstance(x, ast.Name) and isinstance(x.ctx, (ast.Store, ast.Del)):
                stores[x.id] = stores.get(x.id, 0) + 1
            elif isinstance(x, (ast.FunctionDef, ast.AsyncFunctionDef)) and x is not node:
                stores[x.name] = stores.get(x.name, 0) + 1
            elif isinstance(x, ast.ExceptHandler) and x.name:
                stores[x.name] = stores.get(x.name, 0) + 1
            elif isinstance(x, (ast.Global, ast.Nonlocal)):
                for n_ in x.names:
                    stores[n_] = stores.get(n_, 0) + 2
        params = {a.arg for a in node.args.posonlyargs + node.args.args + node.args.kwonlyargs} | ({node.args.vararg.arg} if node.args.vararg else set()) | ({node.args.kwarg.arg} if node.args.kwarg else set())
        mapping: dict[str, ast.AST] = {}
        # a parameter that, at the method's only call site, always is a stable attribute chain of self
        for pn in sorted(params):
            try:
                pa = self.repo.param_alias(fi, pn)
            except Exception:
                pa = None
            if pa is not None and stores.get(pn, 0) == 0:
                mapping[pn] = copy.deepcopy(pa)
        for s in body:
            if isinstance(s, ast.Expr) and isinstance(s.value, ast.Constant):
                continue
            if isinstance(s, (ast.Assign, ast.AnnAssign)):
                tgt = s.targets[0] if isinstance(s, ast.Assign) and len(s.targets) == 1 else (s.target if isinstance(s, ast.AnnAssign) else None)
                v = s.value
                if isinstance(tgt, ast.Name) and tgt.id not in params and stores.get(tgt.id) == 1 and isinstance(v, ast.Attribute) and _is_chain(v) \
                        and not _chain_mutable(self.repo, v):
                    root = v
                    while isinstance(root, ast.Attribute):
                        root = root.value
                    # the root must itself be stable: self / a parameter or name never re-bound here / an earlier alias
                    if isinstance(root, ast.Name) and (stores.get(root.id, 0) == 0 or root.id in mapping):
                        val = _SubstLoad(mapping).visit(copy.deepcopy(v)) if mapping else copy.deepcopy(v)
                        mapping[tgt.id] = val
                        continue
                # other simple statements may precede / follow; stop at the first compound statement
                continue
            if isinstance(s, (ast.Expr, ast.AugAssign, ast.Assert, ast.Pass, ast.FunctionDef, ast.Import, ast.ImportFrom)):
                continue
            break
        if not mapping:
            return

        class _P(ast.NodeTransformer):
            def visit_Name(self_, x):  # noqa: N805
                if isinstance(x.ctx, ast.Load) and x.id in mapping:
                    return ast.copy_location(copy.deepcopy(mapping[x.id]), x)
                return x

            def visit_FunctionDef(self_, x):  # noqa: N805
                # nested functions see the same single-assignment locals (closures); parameters shadow
                shadow = {a.arg for a in x.args.posonlyargs + x.args.args + x.args.kwonlyargs}
                if x is node or not (shadow & set(mapping)):
                    return self_.generic_visit(x)
                return x

            def visit_Lambda(self_, x):  # noqa: N805
                shadow = {a.arg for a in x.args.posonlyargs + x.args.args + x.args.kwonlyargs}
                return self_.generic_visit(x) if not (shadow & set(mapping)) else x
        _P().visit(node)
        ast.fix_missing_locations(node)
        self.inlined.append((fi.short, "<alias propagation: " + ", ".join(sorted(mapping)) + ">"))

    def flatten(self, fi: FuncInfo) -> ast.FunctionDef | None:
        if isinstance(fi.node, ast.Lambda):
            return None
        self.inlined = []
        node = copy.deepcopy(fi.node)
        names = _names_used(node) | {a.arg for a in node.args.args}
        self.normalise_dispatch(fi, node)
        node.body = self.flatten_block(node.body, fi, names, (fi.qualname,), MAXDEPTH)
        self.propagate_aliases(fi, node)
        if not self.inlined:
            return None
        ast.fix_missing_locations(node)
        return node
