"""Symbolic replay of a writer term through the reader terms (C01.e).

Decides, per serialisable type T, that feeding the token stream produced by
``save_T(v)`` to the registered loaders leaves exactly one value on the
loader's stack which is *v again, of type T* -- using only these axioms:

  AX-struct   unpack(F, pack(F, x...)) == x...   for in-range x (C01.d)
  AX-codec    decode(c, encode[c](s)) == s
  AX-decimal  int(encode[ascii](str(i))) == i
  AX-complex  complex(z.real, z.imag) == z
  IH          a recursively saved sub-value loads back as itself (induction
              over the finite acyclic value)
"""

from __future__ import annotations

import struct
from typing import Any

from .index import AnalysisError


class Mismatch(Exception):
    pass


class Replayer:
    def __init__(self, readers: dict[bytes, list]) -> None:
        self.readers = readers  # opcode -> reader term with ALTCFG already evaluated

    # value normal forms:
    #   ("same", sym, T)   the value denoted by writer symbol sym, of python type T ('?' = by IH)
    #   ("const", c)
    #   ("list", n, stores) / ("dict", stores)   containers under construction
    #   ("coll", T, iter, elem)
    #   ("channel", idsym)
    def run(self, term: list, stack: list | None = None) -> list:
        stack = [] if stack is None else stack
        i = 0
        while i < len(term):
            tok = term[i]
            k = tok[0]
            if k == "OP":
                op = tok[1]
                rd = self.readers.get(op)
                if rd is None:
                    raise Mismatch(f"opcode {op!r} written but no loader is registered for it")
                i = self.read_op(op, rd, term, i + 1, stack)
                continue
            if k == "REC":
                stack.append(("same", tok[1], "?"))
            elif k == "ALT":
                raise AnalysisError("replay: nested ALT must be split by the caller")
            elif k == "STAR":
                self.star(tok, stack)
            elif k in ("INT4", "RAW", "PACK"):
                raise Mismatch(f"bytes {tok!r} are written where the reader expects an opcode")
            else:
                raise AnalysisError(f"replay: writer token {tok!r} not understood")
            i += 1
        return stack

    def read_op(self, op: bytes, rd: list, term: list, i: int, stack: list) -> int:
        reads: list[Any] = []  # symbolic content of each READ
        pops: dict[str, Any] = {}

        def val(v):
            if not isinstance(v, tuple) or not v:
                return v
            k = v[0]
            if k == "R":
                return reads[v[1]]
            if k == "int4":
                b = val(v[1])
                if isinstance(b, tuple) and b[0] == "packed" and b[1] == "!i":
                    return ("same", b[2][0], "int")
                raise Mismatch(f"{op!r}: reader decodes an int4 from {b!r}")
            if k == "unpack0":
                b = val(v[2])
                fmt = v[1][1]
                if isinstance(b, tuple) and b[0] == "packed" and b[1] == fmt and len(b[2]) == 1:
                    return ("same", b[2][0], "float" if fmt.lstrip("!<>=@") in ("d", "f") else "int")
                raise Mismatch(f"{op!r}: reader unpacks {fmt!r} from {b!r}")
            if k == "call" and v[1] == "complex" and len(v[2]) == 2 and all(isinstance(x, tuple) and x[0] == "index" for x in v[2]):
                u0, u1 = v[2][0][1], v[2][1][1]
                if u0 == u1 and u0[0] == "unpack" and v[2][0][2] == ("const", 0) and v[2][1][2] == ("const", 1):
                    b = val(u0[2])
                    fmt = u0[1][1]
                    if isinstance(b, tuple) and b[0] == "packed" and b[1] == fmt and len(b[2]) == 2:
                        re_, im = b[2]
                        if re_.endswith(".real") and im.endswith(".imag") and re_[:-5] == im[:-5]:
                            return ("same", re_[:-5], "complex")
                        raise Mismatch(f"{op!r}: complex rebuilt from ({re_}, {im})")
                raise Mismatch(f"{op!r}: complex built from {v[2]!r}")
            if k == "call" and v[1] == "complex":
                a = v[2][0]
                if a[0] == "star" and a[1][0] == "unpack":
                    b = val(a[1][2])
                    fmt = a[1][1][1]
                    if isinstance(b, tuple) and b[0] == "packed" and b[1] == fmt and len(b[2]) == 2:
                        re_, im = b[2]
                        if re_.endswith(".real") and im.endswith(".imag") and re_[:-5] == im[:-5]:
                            return ("same", re_[:-5], "complex")
                        raise Mismatch(f"{op!r}: complex rebuilt from ({re_}, {im})")
                raise Mismatch(f"{op!r}: complex built from {a!r}")
            if k == "call" and v[1] == "int":
                b = val(v[2][0])
                if isinstance(b, tuple) and b[0] == "rawbytes" and b[1].startswith("encode[ascii](str(") and b[1].endswith("))"):
                    return ("same", b[1][len("encode[ascii](str("):-2], "int")
                if isinstance(b, tuple) and b[0] == "rawbytes" and b[1].startswith("encode["):
                    raise AnalysisError(f"replay: no axiom relates int() to the text form {b[1]} (only AX-decimal int(ascii(str(i))) == i is trusted)")
                raise Mismatch(f"{op!r}: int() applied to {b!r}")
            if k == "decode":
                b = val(v[2])
                codec = v[1][1]
                if isinstance(b, tuple) and b[0] == "rawbytes" and b[1].startswith(f"encode[{codec}](") and b[1].endswith(")"):
                    return ("same", b[1][len(f"encode[{codec}]("):-1], "str")
                raise Mismatch(f"{op!r}: decode({codec}) applied to {b!r}")
            if k == "rawbytes":
                return v
            if k == "const":
                return v
            if k == "emptydict":
                return ("dict", [])
            if k == "binop" and v[1] == "Mult" and v[2] == ("const", [None]):
                n = val(v[3])
                return ("list", n, [])
            if k == "channel":
                return ("channel", val(v[1]))
            if k == "popped":
                return pops[v[1]]
            raise Mismatch(f"{op!r}: reader value {v!r} not understood")

        for rt in rd:
            k = rt[0]
            if k == "READ":
                n = rt[1]
                if i >= len(term):
                    raise Mismatch(f"{op!r}: reader wants more bytes than the writer produced")
                w = term[i]
                if n == ("const", 4) and w[0] == "INT4":
                    reads.append(("packed", "!i", (w[1],)))
                elif n[0] == "const" and w[0] == "PACK" and struct.calcsize(w[1]) == n[1]:
                    reads.append(("packed", w[1], w[2]))
                elif n[0] == "const" and w[0] == "INT4" and n[1] == 4:
                    reads.append(("packed", "!i", (w[1],)))
                elif n[0] == "int4":
                    ln = val(n)
                    if w[0] != "RAW":
                        raise Mismatch(f"{op!r}: reader wants a length-prefixed byte string, writer emits {w!r}")
                    if ln != ("same", f"len({w[1]})", "int"):
                        raise Mismatch(f"{op!r}: length prefix {ln!r} is not the length of the bytes written ({w[1]})")
                    reads.append(("rawbytes", w[1]))
                else:
                    raise Mismatch(f"{op!r}: reader reads {n!r} but the writer emits {w!r}")
                i += 1
            elif k == "PUSH":
                stack.append(val(rt[1]))
            elif k == "POP":
                if not stack:
                    raise Mismatch(f"{op!r}: pop from an empty stack")
                pops[rt[1]] = stack.pop()
            elif k == "STORE":
                if rt[1] != ("index", ("stack",), ("const", -1)) or not stack:
                    raise Mismatch(f"{op!r}: store target {rt[1]!r}")
                top = stack[-1]
                key, value = val(rt[2]), val(rt[3])
                if top[0] not in ("list", "dict"):
                    raise Mismatch(f"{op!r}: SETITEM on {top!r}")
                top[-1].append((key, value))
            elif k == "PUSHCOLL":
                n = val(rt[2])
                T = rt[1][1]
                if not stack or stack[-1][0] != "segment":
                    raise Mismatch(f"{op!r}: collection built without a preceding element run")
                seg = stack.pop()
                if n != ("same", f"len({seg[1]})", "int"):
                    raise Mismatch(f"{op!r}: element count {n!r} is not len({seg[1]})")
                stack.append(("coll", T, seg[1], seg[2]))
            elif k == "STOP":
                pass
            else:
                raise AnalysisError(f"replay: reader token {rt!r} not understood")
        return i

    def star(self, tok, stack: list) -> None:
        _k, it, vars_, body = tok
        sub: list = list(stack[-1:]) if stack else []
        base_len = len(sub)
        # deep-copy the visible container so stores are observed
        if sub and sub[0][0] in ("list", "dict"):
            sub = [sub[0][:-1] + ([],)]
        res = self.run(body, sub)
        if len(res) == base_len + 1 and base_len <= 1 and res[-1][0] == "same":
            # one pushed element per iteration
            if base_len == 1 and res[0] != (stack[-1][:-1] + ([],) if stack[-1][0] in ("list", "dict") else stack[-1]):
                raise Mismatch("loop body disturbs the stack below its own pushes")
            stack.append(("segment", it, res[-1], vars_))
            return
        if len(res) == base_len == 1 and res[0][0] in ("list", "dict"):
            stores = res[0][-1]
            if len(stores) != 1:
                raise Mismatch(f"loop body performs {len(stores)} stores per iteration")
            stack[-1][-1].append(("forall", it, vars_, stores[0][0], stores[0][1]))
            return
        raise Mismatch(f"loop body leaves the loader stack in shape {res!r}")


def verdict(T: str, result: list) -> str | None:
    """None if `result` (final loader stack) is exactly [v of type T]; else a reason."""
    if len(result) != 1:
        return f"{len(result)} values left on the loader stack"
    r = result[0]
    pyT = {"long": "int", "NoneType": "NoneType"}.get(T, T)
    if r[0] == "same":
        if r[1] != "v":
            return f"loads back {r[1]} instead of the value"
        if r[2] != pyT:
            return f"loads back as {r[2]}, not {pyT}"
        return None
    if r[0] == "rawbytes":
        return None if (r[1] == "v" and pyT == "bytes") else f"loads back bytes {r[1]} for a {pyT}"
    if r[0] == "const":
        return None  # checked by the caller against the guard of the arm
    if r[0] == "list":
        if pyT != "list":
            return f"loads back a list for a {pyT}"
        if r[1] != ("same", "len(v)", "int"):
            return f"list pre-sized with {r[1]!r}"
        if len(r[2]) != 1 or r[2][0][0] != "forall":
            return f"list filled by {r[2]!r}"
        _f, it, vars_, key, val = r[2][0]
        if it != "enumerate(v)" or key != ("same", vars_[0], "?") or val != ("same", vars_[1], "?"):
            return f"list items stored as [{key!r}] = {val!r} over {it}"
        return None
    if r[0] == "dict":
        if pyT != "dict":
            return f"loads back a dict for a {pyT}"
        if len(r[1]) != 1 or r[1][0][0] != "forall":
            return f"dict filled by {r[1]!r}"
        _f, it, vars_, key, val = r[1][0]
        if it != "items(v)" or key != ("same", vars_[0], "?") or val != ("same", vars_[1], "?"):
            return f"dict entries stored as [{key!r}] = {val!r} over {it} (order / key-value roles)"
        return None
    if r[0] == "coll":
        _c, CT, it, elem = r
        if CT != pyT:
            return f"loads back a {CT} for a {pyT}"
        if it != "v" or elem[0] != "same":
            return f"collection built from {elem!r} over {it}"
        return None
    if r[0] == "channel":
        return None if (pyT == "Channel" and r[1] == ("same", "v.id", "int")) else f"channel rebuilt from {r[1]!r}"
    return f"unexpected result {r!r}"
