"""C13 Loading untrusted bytes is total, typed-error-only, side-effect free."""

from __future__ import annotations

import ast

from ..cfg import Oracle, build_cfg, guard_atoms
from ..effects import Effects, init_field_nullness
from ..index import AnalysisError, FuncInfo, Repo, norm, unparse
from ..report import Ctx
from ..util import callee_attr, calls_in_node, cfg_nodes_with_call

GB = "gateway_base"


def loader_registry(repo: Repo) -> dict[bytes, FuncInfo]:
    ci = repo.cls("Unserializer")
    out: dict[bytes, FuncInfo] = {}
    for key, val, st in repo.registry("Unserializer", "num2func"):
        if not isinstance(key, bytes):
            raise AnalysisError(f"num2func key does not fold to bytes at line {st.lineno}")
        if not isinstance(val, ast.Name):
            raise AnalysisError(f"num2func value is not a method name at line {st.lineno}")
        m = repo.lookup_method(ci, val.id)
        if m is None:
            raise AnalysisError(f"num2func value {val.id} is not a method of Unserializer")
        out[key] = m
    return out


def dispatch_names(repo: Repo) -> set[str]:
    from ..util import xtext
    uload = repo.func(f"{GB}.Unserializer.load")
    return {unparse(c.func) for c in repo.calls_in(uload) if len(c.args) == 1 and unparse(c.args[0]) == "self" and isinstance(c.func, ast.Name)
            and "num2func" in xtext(repo, uload, c.func)}


def make_effects(repo: Repo) -> tuple[Effects, dict[str, bool], dict[bytes, FuncInfo]]:
    f_load = repo.func(f"{GB}.load")
    ctor_calls = [c for c in repo.calls_in(f_load) if isinstance(c.func, ast.Name) and c.func.id == "Unserializer"]
    if len(ctor_calls) != 1:
        raise AnalysisError("load() does not construct exactly one Unserializer")
    init = repo.func(f"{GB}.Unserializer.__init__")
    nulls = init_field_nullness(repo, init, ctor_calls[0], f_load)
    reg = loader_registry(repo)
    uload = repo.func(f"{GB}.Unserializer.load")
    from ..util import xtext
    # the dispatch call: F(self) where F's value comes from the registry
    disp = [c for c in repo.calls_in(uload) if len(c.args) == 1 and unparse(c.args[0]) == "self" and isinstance(c.func, ast.Name)
            and "num2func" in xtext(repo, uload, c.func)]
    if not disp:
        raise AnalysisError("Unserializer.load: dispatch `loader = self.num2func[opcode]; loader(self)` not recognised")
    dynamic = {(uload.qualname, unparse(c.func)): sorted(set(reg.values()), key=lambda f: f.qualname) for c in disp}
    eff = Effects(repo, field_null=nulls, dynamic=dynamic)
    return eff, nulls, reg


def check(ctx: Ctx) -> None:
    repo = ctx.repo
    ctx.decides = ("C13.a only DataFormatError-family/EOFError escape loads()/load() (every partial primitive in the "
                   "loaders guarded or converted, including %-formatting of a loaded object in an error message); C13.b success only through STOP with a one-element stack; C13.c the "
                   "dispatch loop consumes input each round, loaders have no unbounded loops; C13.d no effectful call "
                   "reachable, channel construction behind a real None test; C13.e allocation sized by input is bounded.")
    ctx.not_decided = "nothing about concrete inputs is executed; memory/recursion limits (A6)."
    ctx.assume("A4", "A5", "A6")
    ctx.trust("struct.calcsize/unpack length contract", "BytesIO.read(n) is total", "frozen partial-primitive table (sa/effects.py)")
    eff, nulls, reg = make_effects(repo)
    f_loads, f_load = repo.func(f"{GB}.loads"), repo.func(f"{GB}.load")
    uload = repo.func(f"{GB}.Unserializer.load")

    with ctx.obligation("C13.a", "escapes-typed") as ob:
        ob.require(len(reg) == 21, f"{len(reg)} registered loaders (floor 21)")
        esc = eff.escapes(f_loads) + eff.escapes(f_load)
        if eff.unclassified:
            fi, c = eff.unclassified[0]
            raise AnalysisError(f"C13.a: unclassified callee `{norm(c.func)}` at {fi.module.rel}:{c.lineno} ({fi.short}) "
                                "on the untrusted-input path; classify it in sa/effects.py")
        ob.note(f"entry context: Unserializer built without gateway => {nulls}")
        ob.note(f"functions analysed: {len(eff.analysed)}: " + ", ".join(q.split('.', 1)[1] for q in eff.analysed))
        for s in eff.primitive_sites:
            ob.site(None, None, f"{s['kind']}: {s['construct']}", at=s["site"], discharged=s.get("discharged"))
        seen = set()
        for e in esc:
            ok = e.cls == "EOFError" or repo.is_subclass_name(e.cls, "DataFormatError") is True
            if ok:
                continue
            key = (e.cls, e.origin)
            if key in seen:
                continue
            seen.add(key)
            where, _, rest = e.origin.partition(" ")
            fn, _, cons = rest.partition(": ")
            file, _, line = where.rpartition(":")
            fi = next((f for f in repo.funcs.values() if f.short == fn), f_loads)
            node = ast.Pass(lineno=int(line), col_offset=0)
            ob.violation(fi, node, f"{e.cls} can escape loads()/load() ({e.kind}); call chain: loads -> {' -> '.join(e.chain) or fn}",
                         construct=f"{e.cls}: {cons}", chain=list(e.chain), kind=e.kind)
        ctx.extra["c13_escape_classes"] = sorted({e.cls for e in esc})

    # ---- C13.b success only via STOP
    cfg = build_cfg(repo, uload, Oracle(repo, uload, precise=True,
                                        call_raises=lambda c, f: [("_Stop", True), ("LoadError", True)] if unparse(c.func) in dispatch_names(repo) else None))
    with ctx.obligation("C13.b", "success-only-via-STOP") as ob:
        stop_loaders = [f for k, f in reg.items() if k == repo.cls("opcode").consts.get("STOP")]
        ob.require(len(stop_loaders) == 1, "STOP loader not registered")
        raisers = []
        for q, f in repo.funcs.items():
            for n in repo.own_nodes(f):
                if isinstance(n, ast.Raise) and n.exc is not None and unparse(n.exc).split("(")[0] == "_Stop":
                    raisers.append(f)
        ob.site(stop_loaders[0], None, "_Stop raised only by the STOP loader", raisers=[f.short for f in raisers])
        for f in raisers:
            if f is not stop_loaders[0]:
                ob.violation(f, f.node, "_Stop is raised outside the loader registered for STOP: a stream can 'finish' without STOP")
        # on value terms, along every feasible path of load() (helpers and simple generators inlined)
        from ..terms import Evaluator as _Evaluator, const as _c, show as _show
        evl = _Evaluator(repo, uload, cfg)
        lheads = {n.id for n in cfg.nodes if n.kind in ("test", "for") and isinstance(n.owner, (ast.While, ast.For))}
        load_paths = list(evl.run(back_stops=lheads, limit=40000))
        nret = 0
        for (pth, st) in load_paths:
            if pth[-1][0] != cfg.exit.id:
                continue
            nret += 1
            via_stop = any(cfg.nodes[nid].kind == "except" and isinstance(cfg.nodes[nid].ast, ast.ExceptHandler) and cfg.nodes[nid].ast.type is not None
                           and unparse(cfg.nodes[nid].ast.type) == "_Stop" for (nid, _l) in pth)
            STACK = st.env.get("self.stack", ("sym", "self.stack"))
            one = any(v is True and t[0] == "cmp" and t[1] == "eq" and t[3] == _c(1) and t[2] == ("pcall", "len", (STACK,), ()) for (t, v) in st.cond)
            pops = [e for e in st.events if e.kind == "call" and e.attr == "pop" and e.recv == STACK and e.args in ((_c(0),), ())]
            single = st.ret is not None and (any(e.result == st.ret for e in pops) or st.ret in (("idx", STACK, _c(0)), ("idx", STACK, _c(-1))))
            ob.site(uload, uload.node, "value returned only after _Stop, guarded by len(stack)==1", via_stop_handler=via_stop, guard=one, returns=_show(st.ret) if st.ret else None)
            if st.ret is None:
                ob.violation(uload, uload.node, "Unserializer.load can complete without an explicit return (would return None for a truncated stream)")
                continue
            if not via_stop:
                ob.violation(uload, uload.node, "Unserializer.load returns a value outside the STOP handler")
            if not one:
                ob.violation(uload, uload.node, "the value is returned without checking that exactly one object is on the stack")
            if not single:
                ob.violation(uload, uload.node, "Unserializer.load does not return the single stack element")
        ob.require(nret >= 1, "no return in Unserializer.load")

    # ---- C13.c termination
    with ctx.obligation("C13.c", "terminates") as ob:
        ob.require("load_paths" in dir(), "C13.c needs the paths of Unserializer.load computed by C13.b (which could not be analysed)")
        NUM2FUNC = ("sym", "self.num2func")
        niter = neof = 0
        read_vars: set[str] = set()
        for (pth, st) in load_paths:
            for e in st.events:
                if e.kind == "assign" and e.value[0] == "fresh" and e.value[2] == "self.stream.read" and "." not in str(e.target):
                    read_vars.add(e.target)
        for (pth, st) in load_paths:
            reads = [e for e in st.events if e.kind == "call" and e.callee == "self.stream.read" and e.args == (_c(1),)]
            lookups_ = {e.result: e.args[0] for e in st.events if e.kind == "call" and e.callee == "self.num2func.get" and e.args}
            disp = [e for e in st.events if e.kind == "call" and e.recv is not None and ((e.recv[0] == "idx" and e.recv[1] == NUM2FUNC) or e.recv in lookups_)]
            for d in disp:
                K = d.recv[2] if d.recv[0] == "idx" else lookups_[d.recv]
                from_read = any(r.result == K for r in reads) or (K[0] == "havoc" and K[2] in read_vars)
                nonempty = dict(st.cond[:d.ncond]).get(K) is True
                if not (from_read and nonempty):
                    ob.violation(uload, d.node, "a loader is dispatched without a preceding non-empty opcode read")
            end_ = pth[-1][0]
            if end_ in lheads and pth[-1][1] != "" and disp:
                niter += 1
                # a complete trip round the dispatch loop consumes one opcode byte
                if not reads:
                    ob.violation(uload, disp[0].node, "an iteration of the dispatch loop can complete without consuming input", path=cfg.describe_path(pth))
            empties = [r for r in reads if st.known.get(r.result) is False]
            if empties:
                neof += 1
                rs = [e for e in st.events if e.kind == "raise"]
                ok = cfg.nodes[end_].kind == "raise" and rs and rs[-1].value[0] == "fresh" and rs[-1].value[2] == "EOFError" and not any(st.events.index(d) > st.events.index(empties[0]) for d in disp)
                if not ok:
                    ob.violation(uload, empties[0].node, "an empty opcode read (end of input) does not end load() with EOFError")
        ob.site(uload, uload.node, "every loop iteration reads one opcode byte and leaves on an empty read", iteration_paths=niter, eof_paths=neof)
        ob.require(niter >= 1 and neof >= 1, "one-byte opcode read with EOF test not found in the dispatch loop")
        loops = 0
        for f in sorted(set(reg.values()), key=lambda f: f.qualname):
            reach = [repo.funcs[q] for q in repo.reachable([f.qualname]) if repo.funcs[q].cls is not None and repo.funcs[q].cls.name == "Unserializer"]
            for g in reach:
                for n in repo.own_nodes(g):
                    if isinstance(n, ast.While):
                        ob.violation(g, n, "a loader contains a while loop (termination not evident)")
                    if isinstance(n, ast.For):
                        loops += 1
                        if not (isinstance(n.iter, ast.Call) and unparse(n.iter.func) == "range"):
                            ob.violation(g, n, "a loader iterates over something other than a bounded range")
                if g is uload:
                    ob.violation(f, f.node, "a loader re-enters Unserializer.load (recursion on untrusted input)")
            ob.site(f, None, "loader has no unbounded loop / recursion")

    # ---- C13.d no effects
    with ctx.obligation("C13.d", "no-effects") as ob:
        ob.site(f_loads, None, f"{len(eff.analysed)} functions reachable from loads()/load(): no eval/exec/compile/import/open/os/subprocess/socket call",
                effectful=len(eff.effect_calls))
        for fi, c, name in eff.effect_calls:
            ob.violation(fi, c, f"effectful call {name}(...) reachable from loads()/load()")
        # object construction outside builtins
        for q in eff.analysed:
            f = repo.funcs[q]
            if f.cls is None or f.cls.name != "Unserializer":
                continue
            for c in repo.calls_in(f):
                tg = repo.resolve_call(c, f)
                ctor = [t for t in tg if t.name == "__init__" and t.cls is not None and not repo.is_subclass_name(t.cls.name, "Exception")]
                newc = callee_attr(c) == "new" and "channelfactory" in unparse(c.func)
                if ctor and not newc:
                    ob.violation(f, c, f"the loader constructs a {ctor[0].cls.name} object from untrusted input")
                if newc:
                    cf = build_cfg(repo, f, Oracle(repo, f, precise=True))
                    ok = False
                    for nd in cf.node_containing(c):
                        for (t, lab) in cf.guards(nd.id):
                            if t.kind != "test":
                                continue
                            txt = unparse(t.ast).replace(" ", "")
                            none_edge = "true" if txt in ("self.channelfactoryisNone", "notself.channelfactory") else (
                                "false" if txt in ("self.channelfactoryisnotNone", "self.channelfactory") else None)
                            if none_edge is None or lab == none_edge:
                                continue
                            tgt = [cf.nodes[m] for (m, l) in cf.succ[t.id] if l == none_edge]
                            if tgt and all(isinstance(x.ast, ast.Raise) and repo.is_subclass_name(unparse(x.ast.exc).split("(")[0], "DataFormatError") for x in tgt):
                                ok = True
                    ob.site(f, c, "channel creation dominated by a real `is None` test raising DataFormatError", ok=ok)
                    if not ok:
                        ob.violation(f, c, "channelfactory.new(id) is not guarded by a real None test raising a DataFormatError "
                                           "(an assert is not a guard: AssertionError escapes, AttributeError under -O)")

    # ---- C13.e allocation bound
    with ctx.obligation("C13.e", "alloc-bound") as ob:
        ob.require(bool(eff.alloc_sites), "no data-sized allocation site found (expected load_newlist)")
        for fi, node, bounded in eff.alloc_sites:
            ob.site(fi, node, "allocation sized by an input length field", bounded=bounded)
            if not bounded:
                ob.violation(fi, node, "allocation sized by an untrusted length field without a dominating bound against the remaining input "
                                       "(a 9-byte input can demand gigabytes)", construct="sequence repeated <length field read from the input> times")
        ob.note("prefix argument: success needs STOP with a 1-element stack (C13.b); a strict prefix of a valid dump lacks the final STOP, "
                "every read is exact-length or followed by an opcode read that raises EOFError")
