"""C19 Channel files behave like files over the concatenated items.

All obligations are phrased over value terms and call events along the feasible
paths of the (helper-inlined) functions -- see sa/terms.py -- so they do not depend
on variable names, hoisting, branch order or loop form.
"""

from __future__ import annotations

import ast

from ..cfg import Oracle, build_cfg
from ..index import AnalysisError, UNKNOWN, norm, unparse
from ..report import Ctx, Obligation
from ..terms import NONE, Evaluator, cmp_const, const, evaluator, implies, mentions, show, subterms, tv
from ..util import callee_attr, xtext

GB = "gateway_base"
BUF = ("sym", "self._buffer")
NL = const("\n")


def _recv_oracle(repo, fi):
    """receive() ends with EOFError; read() (used by readline) raises nothing it handles itself"""
    return Oracle(repo, fi, precise=True, call_raises=lambda c, f: [("EOFError", True)] if callee_attr(c) == "receive" else None)


def all_paths(ev: Evaluator, limit: int = 20000):
    heads = {n.id for n in ev.cfg.nodes if n.kind in ("test", "for") and isinstance(n.owner, (ast.While, ast.For))}
    return ev.run(back_stops=heads, limit=limit)


def _is_receive(t) -> bool:
    return isinstance(t, tuple) and t[0] == "fresh" and str(t[2]).endswith(".receive")


def _says_ge(cond, a, b) -> bool:
    """the path condition contains `not (a < b)` / `a >= b`"""
    return (("cmp", "lt", a, b), False) in cond or (("cmp", "le", b, a), True) in cond


def check_stream_reassembly(ctx: Ctx, prefix: str) -> None:
    """C19.a-c (also C16.d): the concatenation of everything read() returns is a prefix of the
    concatenation of the items received: nothing lost, duplicated or reordered."""
    repo = ctx.repo
    fr = repo.func(f"{GB}.ChannelFileRead.read")
    n = [p for p in fr.params() if p != "self"][0]
    N = ("sym", n)
    ev = evaluator(repo, fr, _recv_oracle(repo, fr))
    cfg = ev.cfg
    paths = list(all_paths(ev))
    normal = [(p, st) for (p, st) in paths if cfg.nodes[p[-1][0]].kind == "return" and p[-1][0] == cfg.exit.id]

    with ctx.obligation(f"{prefix}.a", "partition") as ob:
        ob.require(len(normal) >= 2, f"ChannelFileRead.read: {len(normal)} normal paths (floor 2)")
        nsplit = 0
        for (p, st) in normal:
            ret = st.ret if st.ret is not None else NONE
            keep = st.env.get("self._buffer", BUF)
            if ret == const(""):
                ok = tv(("cmp", "is", keep, NONE), st.known) is True
                ob.site(fr, fr.node, "'' is returned only when nothing was ever buffered", ok=ok)
                if not ok:
                    ob.violation(fr, fr.node, "read() returns '' although the buffer may hold data: characters are lost", construct="'' with data buffered")
                continue
            ok = ret[0] == "slice" and ret[2] is None and ret[3] == N and keep == ("slice", ret[1], N, None)
            nsplit += 1
            ob.site(fr, fr.node, "returned and retained slices are complementary", returned=show(ret), kept=show(keep), ok=ok)
            if not ok:
                ob.violation(fr, fr.node, f"read() returns {show(ret)} and keeps {show(keep)}: not the complementary pair [:{n}] / [{n}:] of one buffer value -- characters are lost or returned twice",
                             construct="returned/kept slices not complementary")
            elif tv(("cmp", "is", ret[1], NONE), st.known) is True:
                ob.violation(fr, fr.node, "read() on a channel that ended without data does not return the empty string", construct="slices None")
        ob.require(nsplit >= 1, "ChannelFileRead.read: no path returns a slice of the buffer")

    with ctx.obligation(f"{prefix}.b", "append-order") as ob:
        nrecv = 0
        seen_nodes = set()
        for (p, st) in paths:
            for e in st.events:
                if e.kind != "assign" or e.target != "self._buffer":
                    continue
                V, O = e.value, e.old if e.old is not None else BUF
                cond = st.cond[:e.ncond]
                if _is_receive(V):
                    ok = tv(("cmp", "is", O, NONE), dict((t, v) for (t, v) in cond)) is True
                    what = "a received item replaces the buffer only while it is None"
                    bad = "the buffer is overwritten by a received item while it may still hold unread data"
                    nrecv += 1
                elif V[0] == "bin" and V[1] == "Add" and (_is_receive(V[3]) or _is_receive(V[2])):
                    ok = V[2] == O and _is_receive(V[3])
                    what = "received item is appended at the end of the buffer"
                    bad = "a received item is not appended at the end of the buffer (items would be reordered or dropped)"
                    nrecv += 1
                elif V[0] == "slice":
                    ok = V == ("slice", O, N, None) or (V[1] != O and V[2] == N and V[3] is None)
                    what = "the tail slice is kept"
                    bad = "read() keeps something else than the tail of the buffer"
                    if V[1] != O and V[1] != BUF and not (V[1][0] == "havoc"):
                        ok = False
                else:
                    ok, what, bad = False, "buffer store", f"the buffer is set to {show(V)}: not a received item appended / the unread tail"
                if id(e.node) not in seen_nodes or not ok:
                    ob.site(fr, e.node, what, ok=ok)
                    seen_nodes.add(id(e.node))
                if not ok:
                    ob.violation(fr, e.node, bad)
        ob.require(nrecv >= 1, "ChannelFileRead.read: no receive()")
        # without EOF, read(n) returns only once n characters are buffered
        for (p, st) in normal:
            if any(e.raised for e in st.events if e.kind == "call"):
                continue
            ret = st.ret
            if ret is None or ret[0] != "slice":
                continue
            B = ret[1]
            if not _says_ge(st.cond, ("pcall", "len", (B,), ()), N):
                ob.violation(fr, fr.node, f"read({n}) does not keep receiving while fewer than {n} characters are buffered", construct="short read without EOF")

    with ctx.obligation(f"{prefix}.c", "single-consumer") as ob:
        writers = sorted({fi.short for fi in repo.scan_funcs() for x in repo.own_nodes(fi)
                          if isinstance(x, ast.Attribute) and x.attr == "_buffer" and isinstance(x.ctx, ast.Store) and fi.module.name == GB})
        ob.site(fr, None, "_buffer is written only by read() (and initialised in __init__)", writers=writers)
        cls_default = any(isinstance(st_, (ast.Assign, ast.AnnAssign)) and unparse(st_.targets[0] if isinstance(st_, ast.Assign) else st_.target) == "_buffer"
                          and isinstance(st_.value, ast.Constant) and st_.value.value is None for st_ in repo.cls("ChannelFileRead").node.body)
        if writers != ["ChannelFileRead.__init__", "ChannelFileRead.read"] and not (writers == ["ChannelFileRead.read"] and cls_default):
            ob.violation(fr, fr.node, f"ChannelFileRead._buffer is written by {writers}", construct=f"writers {writers}")
        frl = repo.func(f"{GB}.ChannelFileRead.readline")
        for x in repo.own_nodes(frl):
            if isinstance(x, ast.Subscript) and xtext(repo, frl, x.value) == "self._buffer":
                ob.violation(frl, x, "readline slices the buffer itself instead of consuming through read()")
            if isinstance(x, ast.Call) and callee_attr(x) == "receive":
                ob.violation(frl, x, "readline receives items itself instead of consuming through read()")
        nread = len([c for c in repo.calls_in(frl) if callee_attr(c) == "read"])
        ob.site(frl, None, "readline consumes only through read()", read_calls=nread)


def _is_read(t) -> bool:
    return isinstance(t, tuple) and t[0] == "fresh" and t[2] == "self.read"


def check(ctx: Ctx) -> None:
    repo = ctx.repo
    ctx.decides = ("read(n): returned and retained slices are complementary slices of one buffer value, new items are appended, the buffer is written only "
                   "by read, readline consumes only through read, EOF yields the remainder and then ''; readline returns through the first newline, never "
                   "reads past it and stops at EOF; write() is exactly one send, flush does nothing, close closes the channel iff proxyclose and no other method of the file classes closes it, makefile maps "
                   "'r'/'w' to the two classes and forwards proxyclose.  Decided over value terms along all feasible CFG paths (helpers inlined).")
    ctx.not_decided = "equality with file semantics for all call sequences (only stream integrity and the readline shape)."
    check_stream_reassembly(ctx, "C19")
    fr = repo.func(f"{GB}.ChannelFileRead.read")
    frl = repo.func(f"{GB}.ChannelFileRead.readline")

    with ctx.obligation("C19.d", "eof-empty") as ob:
        ev = evaluator(repo, fr, _recv_oracle(repo, fr))
        cfg = ev.cfg
        neof = 0
        for (p, st) in all_paths(ev):
            eof = [e for e in st.events if e.kind == "call" and e.raised and e.attr == "receive"]
            if not eof:
                continue
            end = cfg.nodes[p[-1][0]]
            if end.kind == "raise":
                ob.violation(fr, eof[0].node, "read() does not turn the channel's EOFError into 'return what is left'")
            elif end.id == cfg.exit.id:
                neof += 1
        ob.site(fr, fr.node, "EOFError from receive ends the read with what is buffered", paths=neof)
        if neof == 0:
            ob.violation(fr, fr.node, "read() does not turn the channel's EOFError into 'return what is left'", construct="no EOF path returns")
        # nothing ever received -> '' (the None buffer is never sliced): part of the partition obligation's path walk
        good = False
        for (p, st) in all_paths(ev):
            if p[-1][0] == cfg.exit.id and st.ret == const("") and tv(("cmp", "is", st.env.get("self._buffer", BUF), NONE), st.known) is True:
                good = True
            if p[-1][0] == cfg.exit.id and st.ret is not None and st.ret[0] == "slice" and tv(("cmp", "is", st.ret[1], NONE), st.known) is True:
                good = False
                break
        ob.site(fr, fr.node, "nothing ever received -> ''", ok=good)
        if not good:
            ob.violation(fr, fr.node, "read() on a channel that ended without data does not return the empty string")

        # ---- readline
        evl = evaluator(repo, frl)
        cl = evl.cfg
        FIND = ("pcall", "self._buffer.find", (NL,), ())
        LEN = ("pcall", "len", (BUF,), ())
        paths = list(all_paths(evl))
        ob.require(len(paths) >= 2, "readline: no paths")
        heads = {n.id for n in cl.nodes if n.kind in ("test", "for") and isinstance(n.owner, (ast.While, ast.For))}

        def has_nl(cond) -> bool | None:
            out = set()
            for (t, v) in cond:
                cc = cmp_const(t)
                if cc is not None and cc[1] == FIND:
                    r = {("eq", -1): False, ("lt", 0): False, ("le", -1): False, ("ge", 0): True, ("gt", -1): True}.get((cc[0], cc[2]))
                    if r is not None:
                        out.add(r == v)
            return out.pop() if len(out) == 1 else None

        through_nl = 0
        for (p, st) in paths:
            order = [nid for (nid, _l) in p]
            for e in st.events:
                if e.kind == "call" and e.callee == "self.read":
                    A = e.args[0] if e.args else e.kwargs.get("n")
                    cond = st.cond[:e.ncond]
                    in_loop = any(h in order and order.index(h) < order.index(e.nid) for h in heads) if e.nid in order else False
                    if A == ("bin", "Add", FIND, const(1)) or A == ("bin", "Add", const(1), FIND):
                        ok = has_nl(cond) is True and not in_loop
                        what = "readline takes the buffered text through its first newline (read(i + 1))"
                        bad = "readline does not return exactly through the first newline of the buffer"
                    elif A in (("bin", "Add", LEN, const(1)), ("bin", "Add", const(1), LEN)):
                        ok = has_nl(cond) is False and not in_loop
                        what = "without a buffered newline readline takes the whole buffer plus one character"
                        bad = "readline reads the whole buffer although it may contain a newline: it returns text past the first newline"
                    elif A == const(1):
                        ok = True
                        what = "continuation step read(1)"
                        bad = ""
                        # (inside a loop: only while the line so far is non-empty and does not end in a newline --
                        #  established below as an inductive invariant of that loop)
                    else:
                        ok = False
                        what = "read() call of readline"
                        bad = f"readline over-reads past the newline (read({show(A)}) is neither through the first newline, the newline-free buffer plus one, nor one character)"
                    ob.site(frl, e.node, what, ok=ok, arg=show(A))
                    if not ok:
                        ob.violation(frl, e.node, bad)
                elif e.kind == "assign" and any(_is_read(x) for x in subterms(e.value)) and e.target != "self._buffer":
                    V, O = e.value, e.old
                    ok = _is_read(V) or (V[0] == "bin" and V[1] == "Add" and V[2] == O and _is_read(V[3]))
                    if not ok:
                        ob.violation(frl, e.node, "readline does not append the characters it read")
            end = cl.nodes[p[-1][0]]
            if end.id == cl.exit.id:
                T = st.ret if st.ret is not None else NONE
                if _is_read(T):
                    rd = [e for e in st.events if e.kind == "call" and e.result == T]
                    A = rd[0].args[0] if rd and rd[0].args else None
                    if A in (("bin", "Add", FIND, const(1)), ("bin", "Add", const(1), FIND)):
                        through_nl += 1
                        continue
                    L = T
                elif T[0] in ("havoc", "bin") or _is_read(T):
                    L = T
                else:
                    ob.violation(frl, frl.node, f"readline returns {show(T)}: not text assembled from read()")
                    continue
                reads = [e.result for e in st.events if e.kind == "call" and e.callee == "self.read" and e.result != L]
                stop = ["or", ("not", L), ("cmp", "eq", ("idx", L, const(-1)), NL)]
                if reads:
                    stop.append(("not", reads[-1]))
                ok = implies(st.cond, tuple(stop)) is True
                ob.site(frl, frl.node, "readline returns the accumulated line only at a newline or at EOF", ok=ok)
                if not ok:
                    ob.violation(frl, frl.node, "readline's continuation loop does not stop at the first newline", construct="returns a partial line")
            elif end.id in heads and p[-1][1] != "":
                # one more trip round the continuation loop: only after a non-empty read
                reads = [e.result for e in st.events if e.kind == "call" and e.callee == "self.read" and any(h in [x for (x, _l) in p] and [x for (x, _l) in p].index(h) < [x for (x, _l) in p].index(e.nid) for h in heads)]
                if reads and tv(reads[-1], st.known) is not True:
                    ob.violation(frl, frl.node, "readline does not stop at EOF")
        # continuation loops: `line is non-empty and does not end in a newline` is an inductive invariant of every loop
        # that reads further characters (so the loop never reads past a newline and never continues an empty line)
        from ..terms import State as _State

        def inv(L):
            return ("and", L, ("cmp", "ne", ("idx", L, const(-1)), NL))
        for h in sorted(heads):
            hn = cl.nodes[h]
            body_reads = [c for b in hn.owner.body for c in ast.walk(b) if isinstance(c, ast.Call) and callee_attr(c) == "read"]
            if not body_reads or not evl.has_back_edge(hn):
                continue  # (a one-trip wrapper left by helper inlining is not a loop)
            names = {t.id for b in hn.owner.body for x in ast.walk(b) if isinstance(x, (ast.Assign, ast.AugAssign)) for t in (x.targets if isinstance(x, ast.Assign) else [x.target])
                     if isinstance(t, ast.Name)}
            acc = set()
            for (p, st) in paths:
                for e in st.events:
                    if e.kind == "assign" and e.target in names and e.value[0] == "bin" and e.value[1] == "Add" and _is_read(e.value[3]) and e.old is not None and e.value[2] == e.old:
                        acc.add(e.target)
            if len(acc) != 1:
                ob.violation(frl, hn.owner, "readline's continuation loop does not accumulate the characters it reads into one line")
                continue
            v = acc.pop()
            L = ("havoc", h, v)
            base_ok = step_ok = True
            nbase = nstep = 0
            for (p, st) in evl.run(stops={h}, limit=20000):
                if p[-1][0] != h:
                    continue
                nbase += 1
                cur = st.env.get(v)
                if cur is None or implies(st.cond, inv(cur)) is not True:
                    # entering the loop is fine if its own test establishes the invariant
                    t_ = evl.term(hn.ast, st, False) if hn.kind == "test" else None
                    if t_ is None or implies(list(st.cond) + [(t_, True)], inv(cur if cur is not None else ("sym", v))) is not True:
                        base_ok = False
            init = _State()
            for (p, st) in evl.run(start=h, init=init, back_stops={h}, limit=20000):
                if p[-1][0] != h or len(p) < 2:
                    continue
                nstep += 1
                cur = st.env.get(v)
                assumed = list(st.cond) + [(inv(L), True)]
                if cur is None:
                    step_ok = False
                    continue
                t_ = evl.term(hn.ast, st, False) if hn.kind == "test" else None
                nxt = assumed + ([(t_, True)] if t_ is not None else [])
                if implies(nxt, inv(cur)) is not True:
                    step_ok = False
            # alternatively every read of the loop is preceded, in its own iteration, by tests establishing the same thing
            direct_ok = True
            ndirect = 0
            for (p, st) in evl.run(start=h, init=_State(), back_stops={h}, limit=20000):
                for e in st.events:
                    if e.kind == "call" and e.callee == "self.read" and any(e.node is c for c in body_reads):
                        ndirect += 1
                        prev = [x.value for x in st.events[:st.events.index(e)] if x.kind == "assign" and x.target == v]
                        cur = prev[-1] if prev else L
                        if implies(st.cond[:e.ncond], inv(cur)) is not True:
                            direct_ok = False
            direct_ok = direct_ok and ndirect > 0
            ob.site(frl, hn.owner, "continuation loop reads on only while the line is non-empty and does not end in a newline",
                    entry_paths=nbase, iteration_paths=nstep, invariant_base=base_ok, invariant_step=step_ok, tested_before_each_read=direct_ok)
            if not (direct_ok or (base_ok and step_ok and nbase and nstep)):
                ob.violation(frl, hn.owner, "readline's continuation loop does not stop at the first newline")
        ob.site(frl, frl.node, "readline returns through the first buffered newline (read(i + 1)) or character-wise", through_newline_paths=through_nl)

    with ctx.obligation("C19.e", "write-side") as ob:
        fw = repo.func(f"{GB}.ChannelFileWrite.write")
        pw = [x for x in fw.params() if x != "self"][0]
        evw = evaluator(repo, fw)
        wp = list(all_paths(evw))
        ok = bool(wp)
        for (p, st) in wp:
            calls = [e for e in st.events if e.kind == "call" and e.result[0] == "fresh"]
            if evw.cfg.nodes[p[-1][0]].id != evw.cfg.exit.id:
                continue
            if not (len(calls) == 1 and calls[0].callee == "self.channel.send" and calls[0].args == (("sym", pw),) and not calls[0].kwargs):
                ok = False
        ok = ok and not any(isinstance(x, (ast.For, ast.While)) for x in repo.own_nodes(fw))
        ob.site(fw, fw.node, "write(x) = exactly one channel.send(x)", ok=ok)
        if not ok:
            ob.violation(fw, fw.node, "ChannelFileWrite.write does not deliver each write as exactly one unmodified item")
        ff = repo.func(f"{GB}.ChannelFileWrite.flush")
        if repo.calls_in(ff) or any(isinstance(x, (ast.Assign, ast.Raise)) for x in repo.own_nodes(ff)):
            ob.violation(ff, ff.node, "flush() is not harmless")
        fc = repo.func(f"{GB}.ChannelFile.close")
        evc = evaluator(repo, fc)
        PC = ("sym", "self._proxyclose")
        ok = True
        npaths = 0
        for (p, st) in all_paths(evc):
            if p[-1][0] != evc.cfg.exit.id:
                continue
            npaths += 1
            closes = [e for e in st.events if e.kind == "call" and e.callee == "self.channel.close"]
            want = st.known.get(PC)
            if want is None or (len(closes) == 1) != want or len(closes) > 1 or any(t != PC for (t, _v) in st.cond):
                ok = False
        ok = ok and npaths >= 2
        ob.site(fc, fc.node, "close() closes the channel iff proxyclose was requested", ok=ok)
        if not ok:
            ob.violation(fc, fc.node, "ChannelFile.close does not close the channel exactly when proxyclose was requested")
        # ... and nothing else in the file classes closes it behind the caller's back (EOF handling goes through self.close())
        nmeth = 0
        for cname in ("ChannelFile", "ChannelFileRead", "ChannelFileWrite"):
            for mname, mfi in sorted(repo.cls(cname).methods.items()):
                nmeth += 1
                evm_ = evaluator(repo, mfi, _recv_oracle(repo, mfi))
                bad = set()
                for (p, st) in all_paths(evm_):
                    for e in st.events:
                        if e.kind == "call" and e.recv == ("sym", "self.channel") and e.attr in ("close", "_close") and dict(st.cond[:e.ncond]).get(PC) is not True \
                                and id(e.node) not in bad:
                            bad.add(id(e.node))
                            ob.violation(mfi, e.node, f"{cname}.{mname} closes the channel without proxyclose having been requested: a reader/writer made with makefile(..., proxyclose=False) "
                                                      "must leave the channel open", construct=f"{cname}.{mname}: channel.close() not under _proxyclose")
        ob.site(fc, fc.node, "no method of the file classes closes the channel except under `_proxyclose`", methods=nmeth)
        ob.require(nmeth >= 8, f"{nmeth} methods of the channel file classes (floor 8)")
        fi = repo.func(f"{GB}.ChannelFile.__init__")
        evi = evaluator(repo, fi)
        for (p, st) in all_paths(evi):
            if p[-1][0] == evi.cfg.exit.id and st.env.get("self._proxyclose") != ("sym", "proxyclose"):
                ob.violation(fi, fi.node, "the proxyclose request is not stored unmodified")
        fm = repo.func(f"{GB}.Channel.makefile")
        evm = evaluator(repo, fm)
        MODE = ("sym", "mode")
        mapping: dict[str, str] = {}
        raises_other = False
        for (p, st) in all_paths(evm):
            end = evm.cfg.nodes[p[-1][0]]
            if end.kind == "raise":
                rs = [e for e in st.events if e.kind == "raise"]
                if rs and rs[-1].value[0] == "fresh" and rs[-1].value[2] == "ValueError":
                    raises_other = True
                continue
            if end.id != evm.cfg.exit.id or st.ret is None:
                continue
            mk = [e for e in st.events if e.kind == "call" and e.result == st.ret]
            if not mk:
                ob.violation(fm, fm.node, f"makefile returns {show(st.ret)}: not a channel file object")
                continue
            e = mk[0]
            argsok = (e.kwargs == {"channel": ("sym", "self"), "proxyclose": ("sym", "proxyclose")} and not e.args) or (e.args == (("sym", "self"), ("sym", "proxyclose")) and not e.kwargs) \
                or (e.args == (("sym", "self"),) and e.kwargs == {"proxyclose": ("sym", "proxyclose")})
            got: dict[str, str] = {}
            if e.callee in ("ChannelFileWrite", "ChannelFileRead"):
                modes = [t[3][1] for (t, v) in st.cond if v is True and t[0] == "cmp" and t[1] == "eq" and t[2] == MODE and t[3][0] == "const"]
                modes += [t[2][1] for (t, v) in st.cond if v is True and t[0] == "cmp" and t[1] == "eq" and t[3] == MODE and t[2][0] == "const"]
                if len(modes) != 1:
                    ob.violation(fm, e.node, f"makefile builds {e.callee} without testing the mode")
                    continue
                got[modes[0]] = e.callee
            elif e.recv is not None and e.recv[0] == "idx" and e.recv[1][0] == "dict" and e.recv[2] == MODE:
                for (k, v) in e.recv[1][1:]:
                    if k[0] == "const" and v[0] == "sym":
                        got[k[1]] = v[1]
            else:
                ob.violation(fm, e.node, f"makefile returns the result of {show(e.recv) if e.recv else e.callee}: the mode -> class mapping is not recognisable")
                continue
            for m_, c_ in got.items():
                ob.site(fm, e.node, f"makefile('{m_}') -> {c_}(channel=self, proxyclose=proxyclose)", ok=argsok)
                if not argsok:
                    ob.violation(fm, e.node, f"makefile does not map mode '{m_}' to {c_} with the requested proxyclose")
                if m_ in mapping and mapping[m_] != c_:
                    ob.violation(fm, e.node, f"makefile maps mode '{m_}' to two classes")
                mapping[m_] = c_
        for cls, mode in (("ChannelFileWrite", "w"), ("ChannelFileRead", "r")):
            if mapping.get(mode) != cls:
                ob.violation(fm, fm.node, f"makefile does not map mode '{mode}' to {cls} with the requested proxyclose", construct=f"mode {mode} -> {mapping.get(mode)}")
        if set(mapping) - {"w", "r"}:
            ob.violation(fm, fm.node, f"makefile accepts modes {sorted(set(mapping) - {'w', 'r'})}")
        d = dict(zip([a.arg for a in fm.node.args.args][-len(fm.node.args.defaults):], [repo.fold_in(x, fm) for x in fm.node.args.defaults]))
        if d.get("proxyclose") is not False:
            ob.violation(fm, fm.node, "makefile's proxyclose default is not False")
        ob.note("writing after close raises OSError: Channel.send refuses closed channels (C03.c)")

    # "writing after close raises OSError": whoever has observed the close (waitclose() returned) finds the channel closed
    from .C03 import check_close_published_last
    check_close_published_last(ctx, "C19.f")

    # "empty results once the channel has ended", also on the second read after an unclean end: the end marker stays queued
    from .C03 import check_endmarker_requeue
    check_endmarker_requeue(ctx, "C19.g")

    # "empty results once the channel has ended", also after an unclean end: at the end marker receive() re-raises the gateway's stored
    # error, and read()/readline() turn exactly EOFError into "return what is left" -- so whatever the receiver thread stores must be one
    check_stored_error_is_eof(ctx, "C19.h")

    # what was written comes back as one stream on every transport: a low-level read that takes more than the frame's missing bytes
    # swallows the start of the next frame and everything written later never arrives
    with ctx.obligation("C19.i", "exact-read") as ob:
        from .C08 import check_exact_read
        for cname in ("Popen2IO", "SocketIO"):
            check_exact_read(repo, ob, repo.cls(cname).methods["read"])


def check_stored_error_is_eof(ctx: Ctx, oid: str) -> None:
    """every value stored in `<gateway>._error` is an EOFError: the name bound by `except EOFError as exc` (or a tuple of its
    subclasses), or a constructed EOFError (shared: C19.h, C04.n)"""
    repo = ctx.repo
    with ctx.obligation(oid, "stored-error-is-eof") as ob:
        n = 0
        for fi in repo.scan_funcs():
            if fi.module.name != GB:
                continue
            for x in repo.own_nodes(fi):
                if not (isinstance(x, ast.Assign) and any(isinstance(t, ast.Attribute) and t.attr == "_error" for t in x.targets)):
                    continue
                n += 1
                v = x.value
                ok = False
                if isinstance(v, ast.Constant) and v.value is None:
                    ok = True
                elif isinstance(v, ast.Call) and repo.is_subclass_name(unparse(v.func).split(".")[-1], "EOFError"):
                    ok = True
                elif isinstance(v, ast.Name):
                    for anc in repo.ancestors(x):
                        if isinstance(anc, ast.ExceptHandler) and anc.name == v.id:
                            t = anc.type
                            names = [unparse(e).split(".")[-1] for e in (t.elts if isinstance(t, ast.Tuple) else [t])] if t is not None else ["BaseException"]
                            ok = all(repo.is_subclass_name(nm, "EOFError") for nm in names)
                            break
                ob.site(fi, x, "the error remembered for waitclose()/receive() is an EOFError", ok=ok)
                if not ok:
                    ob.violation(fi, x, "the gateway's stored error can be something else than an EOFError: receive() re-raises it at the end marker, and "
                                        "ChannelFileRead.read()/readline() (which turn only EOFError into 'return what is left, then empty') raise it on every call",
                                 construct="_error not an EOFError")
        ob.require(n >= 1, "no store to <gateway>._error found (expected in BaseGateway._thread_receiver)")
