"""C19 Channel files behave like files over the concatenated items."""

from __future__ import annotations

import ast

from ..cfg import Oracle, build_cfg
from ..index import AnalysisError, UNKNOWN, norm, unparse
from ..report import Ctx, Obligation
from ..util import Facts, callee_attr, calls_in_node, cfg_nodes_with_call

GB = "gateway_base"


def check_stream_reassembly(ctx: Ctx, prefix: str) -> None:
    """C19.a-c (also C16.d): the concatenation of everything read() returns is a prefix of the
    concatenation of the items received: nothing lost, duplicated or reordered."""
    repo = ctx.repo
    fr = repo.func(f"{GB}.ChannelFileRead.read")
    n = [p for p in fr.params() if p != "self"][0]
    with ctx.obligation(f"{prefix}.a", "partition") as ob:
        slices = [x for x in repo.own_nodes(fr) if isinstance(x, ast.Subscript) and unparse(x.value) == "self._buffer" and isinstance(x.slice, ast.Slice)]
        texts = sorted(unparse(s) for s in slices)
        ob.site(fr, slices[0] if slices else fr.node, "returned and retained slices are complementary", slices=texts)
        if texts != sorted([f"self._buffer[:{n}]", f"self._buffer[{n}:]"]):
            ob.violation(fr, slices[0] if slices else fr.node, f"read() splits the buffer into {texts}: not the complementary pair [:{n}] / [{n}:] -- characters are lost or returned twice")
        else:
            ret_src = [x for x in repo.own_nodes(fr) if isinstance(x, ast.Assign) and unparse(x.value) == f"self._buffer[:{n}]"]
            keep = [x for x in repo.own_nodes(fr) if isinstance(x, ast.Assign) and unparse(x.targets[0]) == "self._buffer" and unparse(x.value) == f"self._buffer[{n}:]"]
            rets = [x for x in repo.own_nodes(fr) if isinstance(x, ast.Return)]
            ok = len(ret_src) == 1 and len(keep) == 1 and len(rets) == 1 and unparse(rets[0].value) == unparse(ret_src[0].targets[0]) and ret_src[0].lineno < keep[0].lineno
            if not ok:
                ob.violation(fr, fr.node, "the head slice is not what read() returns / the tail slice is not what it keeps (in this order)")
    with ctx.obligation(f"{prefix}.b", "append-order") as ob:
        recv = [c for c in repo.calls_in(fr) if callee_attr(c) == "receive"]
        ob.require(len(recv) >= 1, "ChannelFileRead.read: no receive()")
        for c in recv:
            # walk up through cast(...)
            node = c
            par = repo.parent(node)
            while isinstance(par, ast.Call) and isinstance(par.func, ast.Name) and par.func.id == "cast":
                node, par = par, repo.parent(par)
            ok = (isinstance(par, ast.AugAssign) and isinstance(par.op, ast.Add) and unparse(par.target) == "self._buffer") or \
                 (isinstance(par, ast.Assign) and unparse(par.targets[0]) == "self._buffer" and (par.value is node or unparse(par.value).startswith("self._buffer +")))
            ob.site(fr, c, "received item is appended at the end of the buffer", ok=ok)
            if not ok:
                ob.violation(fr, c, "a received item is not appended at the end of the buffer (items would be reordered or dropped)")
            if isinstance(par, ast.Assign) and par.value is node:
                # plain assignment only when the buffer is empty/None
                cfg = build_cfg(repo, fr, Oracle(repo, fr, precise=True))
                for nd in cfg.node_containing(c):
                    f = Facts(repo, fr, {})
                    for (t, lab) in cfg.guards(nd.id):
                        if t.kind == "test":
                            f.assume(t.ast, lab == "true")
                    if f.get("self._buffer is None") is not True:
                        ob.violation(fr, c, "the buffer is overwritten by a received item while it may still hold unread data")
        loops = [x for x in repo.own_nodes(fr) if isinstance(x, ast.While)]
        if len(loops) != 1 or unparse(loops[0].test) != f"len(self._buffer) < {n}":
            ob.violation(fr, loops[0] if loops else fr.node, f"read({n}) does not keep receiving while fewer than {n} characters are buffered")
    with ctx.obligation(f"{prefix}.c", "single-consumer") as ob:
        writers = sorted({fi.short for fi in repo.scan_funcs() for x in repo.own_nodes(fi)
                          if isinstance(x, ast.Attribute) and x.attr == "_buffer" and isinstance(x.ctx, ast.Store) and fi.module.name == GB})
        ob.site(fr, None, "_buffer is written only by read() (and initialised in __init__)", writers=writers)
        if writers != ["ChannelFileRead.__init__", "ChannelFileRead.read"]:
            ob.violation(fr, fr.node, f"ChannelFileRead._buffer is written by {writers}", construct=f"writers {writers}")
        frl = repo.func(f"{GB}.ChannelFileRead.readline")
        for x in repo.own_nodes(frl):
            if isinstance(x, ast.Subscript) and unparse(x.value) == "self._buffer":
                ob.violation(frl, x, "readline slices the buffer itself instead of consuming through read()")
            if isinstance(x, ast.Call) and callee_attr(x) == "receive":
                ob.violation(frl, x, "readline receives items itself instead of consuming through read()")
        nread = len([c for c in repo.calls_in(frl) if callee_attr(c) == "read"])
        ob.site(frl, None, "readline consumes only through read()", read_calls=nread)


def check(ctx: Ctx) -> None:
    repo = ctx.repo
    ctx.decides = ("read(n): returned and retained slices are complementary, new items are appended, the buffer is written only by read, readline "
                   "consumes only through read, EOF yields the remainder and then ''; readline returns through the first newline; write() is exactly one "
                   "send, flush does nothing, close closes the channel iff proxyclose, makefile maps 'r'/'w' to the two classes and forwards proxyclose.")
    ctx.not_decided = "equality with file semantics for all call sequences (only stream integrity and the readline shape)."
    check_stream_reassembly(ctx, "C19")
    fr = repo.func(f"{GB}.ChannelFileRead.read")
    frl = repo.func(f"{GB}.ChannelFileRead.readline")

    with ctx.obligation("C19.d", "eof-empty") as ob:
        hs = [h for x in repo.own_nodes(fr) if isinstance(x, ast.Try) for h in x.handlers]
        ok = len(hs) == 1 and hs[0].type is not None and unparse(hs[0].type) == "EOFError" and not any(isinstance(y, ast.Raise) for y in ast.walk(hs[0]))
        ob.site(fr, hs[0] if hs else fr.node, "EOFError from receive ends the read with what is buffered", ok=ok)
        if not ok:
            ob.violation(fr, fr.node, "read() does not turn the channel's EOFError into 'return what is left'")
        cfg = build_cfg(repo, fr, Oracle(repo, fr, precise=True))
        emp = [nd for nd in cfg.nodes if isinstance(nd.ast, ast.Assign) and repo.fold_in(nd.ast.value, fr) == "" and nd.id in cfg.live()]
        good = False
        for nd in emp:
            f = Facts(repo, fr, {})
            for (t, lab) in cfg.guards(nd.id):
                if t.kind == "test":
                    f.assume(t.ast, lab == "true")
            if f.get("self._buffer is None") is True:
                good = True
        ob.site(fr, emp[0].ast if emp else fr.node, "nothing ever received -> ''", ok=good)
        if not good:
            ob.violation(fr, fr.node, "read() on a channel that ended without data does not return the empty string")
        # readline: through the first newline
        finds = [c for c in repo.calls_in(frl) if callee_attr(c) == "find"]
        ok = len(finds) == 1 and repo.fold_in(finds[0].args[0], frl) == "\n" and unparse(finds[0].func.value) == "self._buffer"
        iv = unparse(repo.parent(finds[0]).targets[0]) if ok and isinstance(repo.parent(finds[0]), ast.Assign) else None
        rd = [c for c in repo.calls_in(frl) if callee_attr(c) == "read" and iv and unparse(c.args[0]) == f"{iv} + 1"]
        ob.site(frl, finds[0] if finds else frl.node, "readline returns through the first buffered newline (read(i + 1))", ok=bool(rd))
        if not (ok and rd):
            ob.violation(frl, frl.node, "readline does not return exactly through the first newline of the buffer")
        wl = [x for x in repo.own_nodes(frl) if isinstance(x, ast.While)]
        okw = len(wl) == 1 and unparse(wl[0].test) in ("line and line[-1] != '\\n'",)
        ob.site(frl, wl[0] if wl else frl.node, "readline extends character-wise until newline or EOF", ok=okw)
        if not okw:
            ob.violation(frl, wl[0] if wl else frl.node, "readline's continuation loop does not stop at the first newline")
        else:
            one = [c for s_ in wl[0].body for c in ast.walk(s_) if isinstance(c, ast.Call) and callee_attr(c) == "read"]
            if len(one) != 1 or repo.fold_in(one[0].args[0], frl) != 1:
                ob.violation(frl, wl[0], "readline over-reads past the newline (continuation step is not read(1))")
            brk = [s_ for s_ in wl[0].body if isinstance(s_, ast.If) and any(isinstance(y, ast.Break) for y in s_.body)]
            if not brk:
                ob.violation(frl, wl[0], "readline does not stop at EOF")
            app = [s_ for s_ in wl[0].body if isinstance(s_, ast.AugAssign) and unparse(s_.target) == "line"]
            if len(app) != 1:
                ob.violation(frl, wl[0], "readline does not append the characters it read")

    with ctx.obligation("C19.e", "write-side") as ob:
        fw = repo.func(f"{GB}.ChannelFileWrite.write")
        sends = [c for c in repo.calls_in(fw) if callee_attr(c) == "send"]
        p = [x for x in fw.params() if x != "self"][0]
        ok = len(sends) == 1 and len(repo.calls_in(fw)) == 1 and unparse(sends[0].args[0]) == p and unparse(sends[0].func.value) == "self.channel" \
            and not any(isinstance(x, (ast.For, ast.While, ast.If)) for x in repo.own_nodes(fw))
        ob.site(fw, sends[0] if sends else fw.node, "write(x) = exactly one channel.send(x)", ok=ok)
        if not ok:
            ob.violation(fw, fw.node, "ChannelFileWrite.write does not deliver each write as exactly one unmodified item")
        ff = repo.func(f"{GB}.ChannelFileWrite.flush")
        if repo.calls_in(ff) or any(isinstance(x, (ast.Assign, ast.Raise)) for x in repo.own_nodes(ff)):
            ob.violation(ff, ff.node, "flush() is not harmless")
        fc = repo.func(f"{GB}.ChannelFile.close")
        cfg = build_cfg(repo, fc, Oracle(repo, fc, precise=True))
        cl = cfg_nodes_with_call(cfg, lambda c: callee_attr(c) == "close" and unparse(c.func.value) == "self.channel")
        ok = False
        if len(cl) == 1:
            f = Facts(repo, fc, {})
            for (t, lab) in cfg.guards(cl[0].id):
                if t.kind == "test":
                    f.assume(t.ast, lab == "true")
            ok = f.get("self._proxyclose") is True and len(f.env) == 1
        ob.site(fc, cl[0].ast if cl else fc.node, "close() closes the channel iff proxyclose was requested", ok=ok)
        if not ok:
            ob.violation(fc, fc.node, "ChannelFile.close does not close the channel exactly when proxyclose was requested")
        fi = repo.func(f"{GB}.ChannelFile.__init__")
        st = [x for x in repo.own_nodes(fi) if isinstance(x, ast.Assign) and unparse(x.targets[0]) == "self._proxyclose"]
        if len(st) != 1 or unparse(st[0].value) != "proxyclose":
            ob.violation(fi, fi.node, "the proxyclose request is not stored unmodified")
        fm = repo.func(f"{GB}.Channel.makefile")
        cfgm = build_cfg(repo, fm, Oracle(repo, fm, precise=True))
        for cls, mode in (("ChannelFileWrite", "w"), ("ChannelFileRead", "r")):
            mk = cfg_nodes_with_call(cfgm, lambda c: isinstance(c.func, ast.Name) and c.func.id == cls)
            ob.require(len(mk) == 1, f"makefile: {cls} construction not found")
            f = Facts(repo, fm, {})
            for (t, lab) in cfgm.guards(mk[0].id):
                if t.kind == "test":
                    f.assume(t.ast, lab == "true")
            c = [x for x in calls_in_node(mk[0]) if isinstance(x.func, ast.Name) and x.func.id == cls][0]
            kw = {k.arg: unparse(k.value) for k in c.keywords}
            pos = [unparse(a) for a in c.args]
            ok = f.get(f"mode == '{mode}'") is True and (kw == {"channel": "self", "proxyclose": "proxyclose"} or pos == ["self", "proxyclose"])
            ob.site(fm, c, f"makefile('{mode}') -> {cls}(channel=self, proxyclose=proxyclose)", ok=ok)
            if not ok:
                ob.violation(fm, c, f"makefile does not map mode '{mode}' to {cls} with the requested proxyclose")
        d = dict(zip([a.arg for a in fm.node.args.args][-len(fm.node.args.defaults):], [repo.fold_in(x, fm) for x in fm.node.args.defaults]))
        if d.get("proxyclose") is not False:
            ob.violation(fm, fm.node, "makefile's proxyclose default is not False")
        ob.note("writing after close raises OSError: Channel.send refuses closed channels (C03.c)")
