"""C20 Specs parse faithfully and group ids stay unique."""

from __future__ import annotations

import ast

from ..cfg import Oracle, build_cfg
from ..index import AnalysisError, UNKNOWN, norm, unparse
from ..report import Ctx
from ..util import Facts, LockSets, callee_attr, calls_in_node, cfg_nodes_with_call, feasible_paths, lexical_locks

IDLOCK = "Group._autoidlock"


def check_explicit_id(ctx: Ctx, oid: str) -> None:
    """C05.c / C20.e: a raising membership test on the requested id dominates every
    process-creating call in makegateway, for auto and explicit ids."""
    repo = ctx.repo
    fm = repo.func("multi.Group.makegateway")
    fa = repo.func("multi.Group.allocate_id")
    with ctx.obligation(oid, "id-before-spawn") as ob:
        cfg = build_cfg(repo, fm, Oracle(repo, fm, precise=True))
        alloc = cfg_nodes_with_call(cfg, lambda c: callee_attr(c) == "allocate_id")
        creators = cfg_nodes_with_call(cfg, lambda c: callee_attr(c) in ("create_io", "ProxyIO", "bootstrap") or (callee_attr(c) == "remote_exec" and "master" in unparse(c.func)))
        ob.require(len(alloc) == 1 and len(creators) >= 4, "makegateway: allocate_id / process-creating calls not found")
        for cr in creators:
            ok = cfg.dominated_by(cr.id, alloc[0].id)
            ob.site(fm, cr.ast, "process-creating call dominated by allocate_id(spec)", ok=ok)
            if not ok:
                ob.violation(fm, cr.ast, "a process / connection is created before the gateway id has been checked: a rejected makegateway leaves a child behind")
        # allocate_id: every normal exit has established `<id> not in self`
        ca = build_cfg(repo, fa, Oracle(repo, fa, precise=True))
        k = 0
        for explicit in (False, True):
            base = Facts(repo, fa, {})
            base.set_atom("spec.id is None", not explicit)
            for path, facts in feasible_paths(repo, fa, ca, base, kill_on_store=False):
                if path[-1][0] != ca.exit.id:
                    continue
                k += 1
                key = "spec.id in self" if explicit else "id in self"
                ok = facts.get(key) is False
                ob.site(fa, fa.node, f"allocate_id ({'explicit' if explicit else 'auto'} id): normal exit only after `{key}` tested false", ok=ok)
                if not ok:
                    ob.violation(fa, fa.node, f"allocate_id returns for an {'explicit' if explicit else 'automatic'} id without a uniqueness test raising on a taken id "
                                              "(the clash is only noticed by _register's assert, after the child process exists)",
                                 construct=f"allocate_id {'explicit' if explicit else 'auto'} unchecked", path=ca.describe_path(path))
        ob.require(k >= 2, "allocate_id: no normal paths")
        for t in ca.nodes:
            if t.kind == "test" and unparse(t.ast).endswith(" in self"):
                tru = [ca.nodes[m] for (m, l) in ca.succ[t.id] if l == "true"]
                if not (tru and all(isinstance(x.ast, ast.Raise) and unparse(x.ast.exc).startswith("ValueError") for x in tru)):
                    ob.violation(fa, t.ast, "a taken id is not rejected with ValueError")


def check(ctx: Ctx) -> None:
    repo = ctx.repo
    ctx.decides = ("the duplicate-key test consults the container each store writes (attributes and env:); identity methods depend on the spec text "
                   "only; key/value are the complementary slices around the first '='; bare key -> True; __getattr__ -> None; underscore keys "
                   "rejected; the auto-id counter is read, incremented and checked inside its lock; explicit ids are checked before any process "
                   "exists; the container protocol methods read one list.")
    ctx.not_decided = "all strings over the alphabet are not enumerated (the claim follows from the split shape)."
    fx = repo.func("xspec.XSpec.__init__")
    cfg = build_cfg(repo, fx, Oracle(repo, fx, precise=True))

    with ctx.obligation("C20.a", "dup-store-agree") as ob:
        stores = []
        for nd in cfg.nodes:
            if nd.ast is None or nd.id not in cfg.live() or nd.kind != "stmt":
                continue
            for c in calls_in_node(nd):
                if isinstance(c.func, ast.Name) and c.func.id == "setattr" and unparse(c.args[0]) == "self":
                    stores.append((nd, "self.__dict__", unparse(c.args[1])))
            if isinstance(nd.ast, ast.Assign) and isinstance(nd.ast.targets[0], ast.Subscript) and unparse(nd.ast.targets[0].value).startswith("self."):
                stores.append((nd, unparse(nd.ast.targets[0].value), unparse(nd.ast.targets[0].slice)))
        ob.require(len(stores) >= 2, f"{len(stores)} key stores in XSpec.__init__ (floor 2)")
        for nd, container, key in stores:
            f = Facts(repo, fx, {})
            raising = False
            for (t, lab) in cfg.guards(nd.id):
                if t.kind != "test":
                    continue
                g = Facts(repo, fx, {})
                g.assume(t.ast, lab == "true")
                if g.get(f"{key} in {container}") is False:
                    other = [cfg.nodes[m] for (m, l) in cfg.succ[t.id] if l != lab and l in ("true", "false")]
                    if other and all(isinstance(x.ast, ast.Raise) and unparse(x.ast.exc).startswith("ValueError") for x in other):
                        raising = True
            ob.site(fx, nd.ast, f"store into {container} guarded by `{key} in {container}` raising ValueError", ok=raising)
            if not raising:
                ob.violation(fx, nd.ast, f"the key is stored in {container} but no dominating duplicate test consults {container}: a repeated key of this kind is accepted silently")

    with ctx.obligation("C20.b", "text-identity") as ob:
        want = {"__eq__": ast.Eq, "__ne__": ast.NotEq}
        for name in ("__eq__", "__ne__", "__hash__", "__str__"):
            m = repo.cls("XSpec").methods.get(name)
            ob.require(m is not None, f"XSpec.{name} vanished")
            attrs = {n.attr for n in repo.own_nodes(m) if isinstance(n, ast.Attribute) and unparse(n.value) == "self"}
            ob.site(m, None, f"{name} depends on the spec text only", self_attrs=sorted(attrs))
            if attrs != {"_spec"}:
                ob.violation(m, m.node, f"XSpec.{name} depends on {sorted(attrs)} instead of the spec text alone")
            rets = [n for n in repo.own_nodes(m) if isinstance(n, ast.Return)]
            r = rets[0].value if len(rets) == 1 else None
            if name in want:
                ok = isinstance(r, ast.Compare) and isinstance(r.ops[0], want[name]) and unparse(r.left) == "self._spec" \
                    and unparse(r.comparators[0]) in ("getattr(other, '_spec', None)", "other._spec")
                if not ok:
                    ob.violation(m, m.node, f"XSpec.{name} is not a comparison of the two spec texts")
            elif name == "__hash__" and unparse(r) != "hash(self._spec)":
                ob.violation(m, m.node, "XSpec.__hash__ is not the hash of the spec text")
            elif name == "__str__" and unparse(r) != "self._spec":
                ob.violation(m, m.node, "str(spec) does not print the spec text back unchanged")
        st = [n for n in repo.own_nodes(fx) if isinstance(n, ast.Assign) and unparse(n.targets[0]) == "self._spec"]
        if len(st) != 1 or unparse(st[0].value) != fx.params()[1]:
            ob.violation(fx, fx.node, "the spec text is not stored unmodified")

    with ctx.obligation("C20.c", "split") as ob:
        loops = [n for n in repo.own_nodes(fx) if isinstance(n, ast.For)]
        ob.require(len(loops) == 1, "key/value loop not found")
        lp = loops[0]
        kv = unparse(lp.target)
        ob.site(fx, lp, "split on '//'", iter=unparse(lp.iter))
        if unparse(lp.iter) != f"{fx.params()[1]}.split('//')":
            ob.violation(fx, lp, "the spec is not split on '//'")
        finds = [n for n in repo.own_nodes(fx) if isinstance(n, ast.Assign) and isinstance(n.value, ast.Call) and callee_attr(n.value) in ("find", "index", "partition")]
        ob.require(len(finds) == 1, "search for the first '=' not found")
        fc = finds[0].value
        iv = unparse(finds[0].targets[0])
        if callee_attr(fc) != "find" or unparse(fc.func.value) != kv or [repo.fold_in(a, fx) for a in fc.args] != ["="]:
            ob.violation(fx, finds[0], "the key/value separator is not the first '=' of the element (str.find('='))")
        slices = [n for n in repo.own_nodes(fx) if isinstance(n, ast.Subscript) and unparse(n.value) == kv and isinstance(n.slice, ast.Slice)]
        texts = sorted(unparse(s) for s in slices)
        ob.site(fx, slices[0] if slices else fx.node, "key and value are complementary slices around the separator", slices=texts)
        if texts != sorted([f"{kv}[:{iv}]", f"{kv}[{iv} + 1:]"]):
            ob.violation(fx, slices[0] if slices else fx.node, f"key/value slices {texts} are not `{kv}[:{iv}]` and `{kv}[{iv} + 1:]`: characters are lost or duplicated")
        else:
            asg = repo.parent(repo.parent(slices[0]))
            if not (isinstance(asg, ast.Assign) and [unparse(e) for e in asg.value.elts] == [f"{kv}[:{iv}]", f"{kv}[{iv} + 1:]"] and [unparse(e) for e in asg.targets[0].elts] == ["key", "value"]):
                ob.violation(fx, asg, "key and value slices are assigned in the wrong roles")
        # bare key -> True
        for nd in cfg.nodes:
            if isinstance(nd.ast, ast.Assign) and isinstance(nd.ast.value, ast.Tuple) and unparse(nd.ast.value.elts[0]) == kv and nd.id in cfg.live():
                f = Facts(repo, fx, {})
                for (t, lab) in cfg.guards(nd.id):
                    if t.kind == "test":
                        f.assume(t.ast, lab == "true")
                ok = f.get(f"{iv} == -1") is True and repo.fold_in(nd.ast.value.elts[1], fx) is True
                ob.site(fx, nd.ast, "bare key gets the value True when no '=' is present", ok=ok)
                if not ok:
                    ob.violation(fx, nd.ast, "a bare key is not mapped to True exactly when no '=' is present")
        und = [t for t in cfg.nodes if t.kind == "test" and unparse(t.ast) in ("key[0] == '_'", "key.startswith('_')")]
        ok = bool(und) and all(isinstance(cfg.nodes[m].ast, ast.Raise) for t in und for (m, l) in cfg.succ[t.id] if l == "true")
        ob.site(fx, und[0].ast if und else fx.node, "keys starting with '_' are rejected", ok=ok)
        if not ok:
            ob.violation(fx, fx.node, "keys starting with an underscore are not rejected", construct="no underscore test")
        elif not all(cfg.dominated_by(nd.id, und[0].id) for nd, _c, _k in [(n, 0, 0) for n in cfg.nodes if n.kind == "stmt" and n.ast is not None and any(isinstance(c.func, ast.Name) and c.func.id == "setattr" for c in calls_in_node(n))]):
            ob.violation(fx, und[0].ast, "the underscore test does not precede the attribute store")
        fg = repo.func("xspec.XSpec.__getattr__")
        rets = [n for n in repo.own_nodes(fg) if isinstance(n, ast.Return)]
        ob.site(fg, fg.node, "absent names read as None")
        if len(rets) != 1 or not (isinstance(rets[0].value, ast.Constant) and rets[0].value.value is None):
            ob.violation(fg, fg.node, "XSpec.__getattr__ does not return None for absent names")
        envs = [n for n in repo.own_nodes(fx) if isinstance(n, ast.Assign) and isinstance(n.targets[0], ast.Subscript) and unparse(n.targets[0].value) == "self.env"]
        if envs:
            pre = [t for t in cfg.nodes if t.kind == "test" and "startswith('env:')" in unparse(t.ast)]
            if not pre or unparse(envs[0].targets[0].slice) != "key[4:]" or unparse(envs[0].value) != "value":
                ob.violation(fx, envs[0], "env: keys are not collected as env[<name after 'env:'>] = value")

    locks = LockSets(repo)
    fa = repo.func("multi.Group.allocate_id")
    with ctx.obligation("C20.d", "autoid") as ob:
        n = 0
        for fi in repo.cls("Group").methods.values():
            if fi.name == "__init__":
                continue
            for x in repo.own_nodes(fi):
                if isinstance(x, ast.Attribute) and x.attr == "_autoidcounter":
                    n += 1
                    held = locks.held(fi, x)
                    ob.site(fi, x, "_autoidcounter access", held=sorted(held))
                    if IDLOCK not in held:
                        ob.violation(fi, x, "the auto-id counter is accessed outside _autoidlock: concurrent makegateway calls can get the same id")
        ob.require(n >= 2, f"{n} counter accesses (floor 2)")
        tests = [x for x in repo.own_nodes(fa) if isinstance(x, ast.Compare) and unparse(x) == "id in self"]
        for t in tests:
            if IDLOCK not in lexical_locks(repo, fa, t):
                ob.violation(fa, t, "the uniqueness test of an automatic id runs outside the lock")
        incs = [x for x in repo.own_nodes(fa) if isinstance(x, ast.AugAssign) and unparse(x.target) == "self._autoidcounter"]
        if len(incs) != 1 or not isinstance(incs[0].op, ast.Add) or repo.fold_in(incs[0].value, fa) != 1:
            ob.violation(fa, fa.node, "the auto-id counter is not incremented by one per allocation")
        idb = [x for x in repo.own_nodes(fa) if isinstance(x, ast.Assign) and unparse(x.targets[0]) == "id"]
        if not idb or "self._autoidcounter" not in unparse(idb[0].value):
            ob.violation(fa, fa.node, "automatic ids are not derived from the counter")

    check_explicit_id(ctx, "C20.e")

    with ctx.obligation("C20.f", "lookup-agree") as ob:
        g = repo.cls("Group")
        for name in ("__getitem__", "__len__", "__iter__"):
            m = g.methods.get(name)
            ob.require(m is not None, f"Group.{name} vanished")
            attrs = {n.attr for n in repo.own_nodes(m) if isinstance(n, ast.Attribute) and unparse(n.value) == "self"}
            ob.site(m, None, f"Group.{name} reads the member list", attrs=sorted(attrs))
            if attrs != {"_gateways"}:
                ob.violation(m, m.node, f"Group.{name} consults {sorted(attrs)} instead of the single member list _gateways")
        mc = g.methods["__contains__"]
        subs = [n for n in repo.own_nodes(mc) if isinstance(n, ast.Subscript)]
        attrs = {n.attr for n in repo.own_nodes(mc) if isinstance(n, ast.Attribute) and unparse(n.value) == "self"}
        ob.site(mc, None, "membership is defined through lookup (self[key])")
        if [unparse(s) for s in subs] != ["self[key]"] or attrs:
            ob.violation(mc, mc.node, "Group.__contains__ is not defined through __getitem__")
        gi = g.methods["__getitem__"]
        cmp_ = [unparse(n) for n in repo.own_nodes(gi) if isinstance(n, ast.Compare)]
        if "gw.id == key" not in cmp_:
            ob.violation(gi, gi.node, "lookup by id does not compare gateway ids")
        it = g.methods["__iter__"]
        r = [n for n in repo.own_nodes(it) if isinstance(n, ast.Return)]
        if not r or "self._gateways" not in unparse(r[0].value) or "sorted" in unparse(r[0].value) or "reversed" in unparse(r[0].value):
            ob.violation(it, it.node, "iteration does not follow the member list's own order")
        reg = repo.func("multi.Group._register")
        ap = [c for c in repo.calls_in(reg) if callee_attr(c) == "append" and unparse(c.func.value) == "self._gateways"]
        if len(ap) != 1:
            ob.violation(reg, reg.node, "_register does not append the gateway to the member list once")
