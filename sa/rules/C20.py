"""C20 Specs parse faithfully and group ids stay unique."""

from __future__ import annotations

import ast

from ..cfg import Oracle, build_cfg
from ..index import AnalysisError, UNKNOWN, norm, unparse
from ..report import Ctx
from ..terms import cmp_const, const, evaluator, mentions, show, subterms
from ..util import Facts, LockSets, callee_attr, calls_in_node, cfg_nodes_with_call, feasible_paths, lexical_locks, xtext

IDLOCK = "Group._autoidlock"


def check_explicit_id(ctx: Ctx, oid: str) -> None:
    """C05.c / C20.e: a raising membership test on the requested id dominates every
    process-creating call in makegateway, for auto and explicit ids."""
    repo = ctx.repo
    fm = repo.func("multi.Group.makegateway")
    fa = repo.func("multi.Group.allocate_id")
    with ctx.obligation(oid, "id-before-spawn") as ob:
        cfg = build_cfg(repo, fm, Oracle(repo, fm, precise=True))
        alloc = cfg_nodes_with_call(cfg, lambda c: callee_attr(c) == "allocate_id")
        creators = cfg_nodes_with_call(cfg, lambda c: callee_attr(c) in ("create_io", "ProxyIO", "bootstrap") or (callee_attr(c) == "remote_exec" and "master" in unparse(c.func)))
        ob.require(len(alloc) == 1 and len(creators) >= 4, "makegateway: allocate_id / process-creating calls not found")
        for cr in creators:
            ok = cfg.dominated_by(cr.id, alloc[0].id)
            ob.site(fm, cr.ast, "process-creating call dominated by allocate_id(spec)", ok=ok)
            if not ok:
                ob.violation(fm, cr.ast, "a process / connection is created before the gateway id has been checked: a rejected makegateway leaves a child behind")
        # allocate_id: every normal exit has established `<id> not in self`
        ev = evaluator(repo, fa)
        ca = ev.cfg
        spec = fa.params()[1]
        specid = ("sym", f"{spec}.id")
        SELF = ("sym", "self")
        k = {"auto": 0, "explicit": 0}
        for path, st in ev.run():
            end = ca.nodes[path[-1][0]]
            taken = [t for (t, v) in st.cond if v is True and t[0] == "cmp" and t[1] == "in" and t[3] == SELF]
            if taken:
                rs = [e for e in st.events if e.kind == "raise"]
                if not (end.kind == "raise" and rs and _is_exc(rs[-1].value, "ValueError")):
                    ob.violation(fa, fa.node, "a taken id is not rejected with ValueError", construct="taken id accepted")
                continue
            if end.kind != "return":
                continue
            stores = [e for e in st.events if e.kind == "assign" and e.target == f"{spec}.id"]
            kind = "auto" if stores else "explicit"
            if kind == "explicit" and (("cmp", "is", specid, ("const", None)), True) in st.cond:
                # an id-less spec leaves without an id: nothing to check here (C20.d requires the auto id)
                ob.violation(fa, fa.node, "allocate_id returns without assigning an id to an id-less spec", construct="no id assigned")
                continue
            k[kind] += 1
            idt = stores[-1].value if stores else specid
            ok = (("cmp", "in", idt, SELF), False) in st.cond
            ob.site(fa, fa.node, f"allocate_id ({kind} id): normal exit only after `{show(idt)} in self` tested false", ok=ok)
            if not ok:
                ob.violation(fa, fa.node, f"allocate_id returns for an {'explicit' if kind == 'explicit' else 'automatic'} id without a uniqueness test raising on a taken id "
                                          "(the clash is only noticed by _register's assert, after the child process exists)",
                             construct=f"allocate_id {kind} unchecked", path=ca.describe_path(path))
        ob.require(k["auto"] >= 1 and k["explicit"] >= 1, f"allocate_id: normal paths found: {k}")


def _containers(kind: str):
    if kind == "attr":
        return [("sym", "self.__dict__"), ("pcall", "vars", (("sym", "self"),), ())]
    return [("sym", "self.env")]


def _is_exc(t, name: str) -> bool:
    return isinstance(t, tuple) and ((t[0] == "fresh" and t[2] == name) or (t[0] == "pcall" and t[1] == name))


def _idx(item):
    return ("pcall", ("meth", item, "find"), (const("="),), ())


def _part(item):
    return ("pcall", ("meth", item, "partition"), (const("="),), ())


def _split1(item):
    return ("pcall", ("meth", item, "split"), (const("="), const(1)), ())


def _has_eq(cond, item):
    """what the path condition says about the presence of '=' in the element: True / False / None / 'conflict'"""
    out = set()
    IDX, P, S = _idx(item), _part(item), _split1(item)
    for (t, v) in cond:
        r = None
        cc = cmp_const(t)
        if cc is not None and cc[1] in (IDX, ("pcall", ("meth", item, "index"), (const("="),), ())) and isinstance(cc[2], int):
            c, op = cc[2], cc[0]
            r = {("eq", -1): False, ("lt", 0): False, ("le", -1): False, ("ge", 0): True, ("gt", -1): True}.get((op, c))
        elif t == ("idx", P, const(1)):
            r = True
        elif t[0] == "cmp" and t[1] == "eq" and t[2] == ("idx", P, const(1)) and t[3] in (const(""), const("=")):
            r = t[3] == const("=")
        elif t[0] == "cmp" and t[1] == "in" and t[2] == const("=") and t[3] == item:
            r = True
        elif cc is not None and cc[1] == ("pcall", "len", (S,), ()):
            r = {("eq", 1): False, ("eq", 2): True, ("lt", 2): False, ("gt", 1): True, ("ge", 2): True, ("le", 1): False}.get((cc[0], cc[2]))
        if r is not None:
            out.add(r == v)
    if len(out) == 2:
        return "conflict"
    return out.pop() if out else None


def _classify_key(K, item) -> str:
    if K == item:
        return "WHOLE"
    if K == ("slice", item, None, _idx(item)):
        return "PRE"
    if K in (("idx", _part(item), const(0)), ("idx", _split1(item), const(0))):
        return "PRESTAR"
    return "OTHER"


def _classify_val(V, item) -> str:
    if V == const(True):
        return "TRUE"
    if V == ("slice", item, ("bin", "Add", _idx(item), const(1)), None) or V == ("idx", _split1(item), const(1)):
        return "POST"
    if V == ("idx", _part(item), const(2)):
        return "POSTSTAR"
    return "OTHER"


def _spec_paths(repo, fx):
    """every feasible path once round the key/value loop of XSpec.__init__, with the stores it performs"""
    ev = evaluator(repo, fx)
    cfg = ev.cfg
    heads = [n for n in cfg.nodes if n.kind == "for" and n.id in cfg.live()]
    if len(heads) != 1:
        raise AnalysisError("XSpec.__init__: key/value loop not found")
    head = heads[0]
    out = {"stores": [], "dup_true": [], "und_true": [], "nstores": {}, "cfg": cfg, "iter": None, "item": None}
    for path, st in ev.run(back_stops={head.id}):
        if not any(nid == head.id for (nid, _l) in path[:-1]):
            continue
        item = next((e.value for e in st.events if e.kind == "assign" and e.value[0] == "elem" and e.value[2] == head.id), None)
        if item is None:
            continue
        out["item"] = item
        out["iter"] = item[1]
        for e in st.events:
            K = V = None
            if e.kind == "call" and e.callee == "setattr" and len(e.args) == 3 and e.args[0] == ("sym", "self"):
                kind, K, V = "attr", e.args[1], e.args[2]
            elif e.kind == "store" and e.recv in (("sym", "self.env"), st.env.get("self.env")):
                kind, K, V = "env", e.key, e.value
            elif e.kind == "store" and e.recv in (("sym", "self.__dict__"), ("pcall", "vars", (("sym", "self"),), ())):
                kind, K, V = "attr", e.key, e.value
            if K is not None:
                out["stores"].append((kind, e, K, V, st.cond[:e.ncond], st))
                out["nstores"][kind] = out["nstores"].get(kind, 0) + 1
        def _disj(t):
            return [x for a in t[1:] for x in _disj(a)] if t[0] == "or" else [t]
        dups = [d for (t, v) in st.cond if v is True for d in _disj(t)
                if d[0] == "cmp" and d[1] == "in" and d[3] in _containers("attr") + _containers("env") + [st.env.get("self.env")]]
        if dups:
            out["dup_true"].append((path, st, [fx.node]))
            out.setdefault("dup_terms", []).append((dups, st))
        unds = [t for (t, v) in st.cond if v is True and ((t[0] == "cmp" and t[1] == "eq" and t[2][0] == "idx" and t[2][2] == const(0) and t[3] == const("_"))
                                                         or (t[0] == "pcall" and isinstance(t[1], tuple) and t[1][0] == "meth" and t[1][2] == "startswith" and t[2] == (const("_"),)))]
        if unds:
            out["und_true"].append((path, st, unds[0]))
    return out


def check(ctx: Ctx) -> None:
    repo = ctx.repo
    ctx.decides = ("the duplicate-key test consults the container each store writes (attributes and env:); identity methods depend on the spec text "
                   "only; key/value are the complementary slices around the first '='; bare key -> True; __getattr__ -> None; underscore keys "
                   "rejected; the auto-id counter is read, incremented and checked inside its lock; explicit ids are checked before any process "
                   "exists; the id of a gateway is tested against the group again right before it is appended (registration); the container protocol methods read one list.")
    ctx.not_decided = "all strings over the alphabet are not enumerated (the claim follows from the split shape)."
    fx = repo.func("xspec.XSpec.__init__")
    sp = _spec_paths(repo, fx)

    with ctx.obligation("C20.a", "dup-store-agree") as ob:
        ob.require(sp["nstores"].get("attr", 0) >= 1 and sp["nstores"].get("env", 0) >= 1, f"key stores in XSpec.__init__: {sp['nstores']} (floor: one attribute store, one env store)")
        for (kind, ev, K, V, cond, st) in sp["stores"]:
            containers = _containers(kind) + ([st.env["self.env"]] if kind == "env" and "self.env" in st.env else [])
            tested = any(t[0] == "cmp" and t[1] == "in" and t[3] in containers and v is False and t[2] == K for (t, v) in cond)
            if not tested:
                # the test may be one operand of a combined condition: decide `K not in container` from the whole path condition
                from ..terms import implies as _imp
                try:
                    tested = any(_imp(cond, ("not", ("cmp", "in", K, c_))) is True and any(("cmp", "in", K, c_) in set(subterms(t)) for (t, _v) in cond) for c_ in containers)
                except Exception:
                    tested = False
            ob.site(fx, ev.node, f"{kind} store of key {show(K)} only after `key in {show(containers[0])}` tested false", ok=tested)
            if not tested:
                ob.violation(fx, ev.node, f"the key is stored in {show(containers[0])} but no dominating duplicate test consults {show(containers[0])}: a repeated key of this kind is accepted silently",
                             construct=f"{kind} store without duplicate test")
        for (path, st, dups) in sp["dup_true"]:
            last = [e for e in st.events if e.kind == "raise"]
            ok = sp["cfg"].nodes[path[-1][0]].kind == "raise" and last and _is_exc(last[-1].value, "ValueError")
            if not ok:
                ob.violation(fx, dups[0], "a repeated key is not rejected with ValueError", construct="duplicate key accepted")

        # ... and only then: a key is refused as a duplicate only for being present in the container it would be stored in under
        # the name it would be stored under (plain keys and env: names are two namespaces; `id=x//env:id=x` is a valid spec)
        stored = set()
        for (kind, ev, K, V, cond, st) in sp["stores"]:
            stored.add((kind, K))
        for (dups, st) in sp.get("dup_terms", []):
            for t in dups:
                kind = "env" if t[3] in _containers("env") + [st.env.get("self.env")] else "attr"
                ok = (kind, t[2]) in stored
                if not ok:
                    ob.violation(fx, fx.node, f"a key is refused as a duplicate because {show(t[2])} is in {show(t[3])}, which is not where (or not the name under which) this "
                                              "kind of key is stored: unique keys are rejected", construct=f"duplicate test {kind}:{show(t[2])} matches no store")
                    break

    with ctx.obligation("C20.b", "text-identity") as ob:
        want = {"__eq__": ast.Eq, "__ne__": ast.NotEq}
        for name in ("__eq__", "__ne__", "__hash__", "__str__"):
            m = repo.cls("XSpec").methods.get(name)
            ob.require(m is not None, f"XSpec.{name} vanished")
            m = repo.func(m.qualname)
            attrs = {n.attr for n in repo.own_nodes(m) if isinstance(n, ast.Attribute) and unparse(n.value) == "self"}
            ob.site(m, None, f"{name} depends on the spec text only", self_attrs=sorted(attrs))
            if attrs != {"_spec"}:
                ob.violation(m, m.node, f"XSpec.{name} depends on {sorted(attrs)} instead of the spec text alone")
            rets = [n for n in repo.own_nodes(m) if isinstance(n, ast.Return)]
            r = rets[0].value if len(rets) == 1 else None
            if name in want:
                other = m.params()[1] if len(m.params()) > 1 else "other"
                ok = isinstance(r, ast.Compare) and len(r.ops) == 1 and isinstance(r.ops[0], want[name]) and \
                    {xtext(repo, m, r.left), xtext(repo, m, r.comparators[0])} in ({"self._spec", f"getattr({other}, '_spec', None)"}, {"self._spec", f"{other}._spec"})
                if not ok:
                    ob.violation(m, m.node, f"XSpec.{name} is not a comparison of the two spec texts")
            elif name == "__hash__" and xtext(repo, m, r) != "hash(self._spec)":
                ob.violation(m, m.node, "XSpec.__hash__ is not the hash of the spec text")
            elif name == "__str__" and xtext(repo, m, r) != "self._spec":
                ob.violation(m, m.node, "str(spec) does not print the spec text back unchanged")
        st = [n for n in repo.own_nodes(fx) if isinstance(n, ast.Assign) and unparse(n.targets[0]) == "self._spec"]
        if len(st) != 1 or unparse(st[0].value) != fx.params()[1]:
            ob.violation(fx, fx.node, "the spec text is not stored unmodified")

    with ctx.obligation("C20.c", "split") as ob:
        it = sp["iter"]
        ob.site(fx, fx.node, "split on '//'", iter=show(it) if it else None)
        if it != ("pcall", f"{fx.params()[1]}.split", (const("//"),), ()):
            ob.violation(fx, fx.node, "the spec is not split on '//'")
        n_has = {True: 0, False: 0}
        for (kind, ev, K, V, cond, st) in sp["stores"]:
            item = sp["item"]
            has = _has_eq(cond, item)
            k0 = K
            if kind == "env":
                envkeys = [t[1][1] for (t, v) in cond if v is True and t[0] == "pcall" and isinstance(t[1], tuple) and t[1][0] == "meth" and t[1][2] == "startswith" and t[2] == (const("env:"),)]
                # the name after the prefix: `key[4:]`, or `key.removeprefix("env:")` (the same string once startswith held)
                if not envkeys or K not in (("slice", envkeys[-1], const(4), None), ("pcall", ("meth", envkeys[-1], "removeprefix"), (const("env:"),), ())):
                    ob.violation(fx, ev.node, "env: keys are not collected as env[<name after 'env:'>] = value")
                    if not envkeys:
                        continue
                k0 = envkeys[-1]
            else:
                pre = ("pcall", ("meth", k0, "startswith"), (const("env:"),), ())
                if (pre, False) not in cond:
                    ob.violation(fx, ev.node, "a key starting with 'env:' can be stored as an attribute instead of an environment entry")
            kc, vc = _classify_key(k0, item), _classify_val(V, item)
            if has == "conflict":
                continue
            ok = (has is True and kc in ("PRE", "PRESTAR") and vc in ("POST", "POSTSTAR")) or (has is False and kc in ("WHOLE", "PRESTAR") and vc == "TRUE")
            if has in (True, False):
                n_has[has] += 1
            ob.site(fx, ev.node, f"{kind} store: '=' {'present' if has else 'absent' if has is False else 'undecided'} -> key {kc}, value {vc}", ok=ok)
            if has is None:
                ob.violation(fx, ev.node, "the key/value separator is not the first '=' of the element (no test for the presence of '=' precedes the store)")
            elif not ok and has is True:
                ob.violation(fx, ev.node, f"key/value are {show(k0)} / {show(V)}: not the text before / after the first '=': characters are lost or duplicated")
            elif not ok:
                ob.violation(fx, ev.node, "a bare key is not mapped to True exactly when no '=' is present")
            und = [(t, v) for (t, v) in cond if v is False and ((t[0] == "cmp" and t[1] == "eq" and t[2] == ("idx", k0, const(0)) and t[3] == const("_"))
                                                                  or t == ("pcall", ("meth", k0, "startswith"), (const("_"),), ()))]
            if not und:
                ob.violation(fx, ev.node, "keys starting with an underscore are not rejected", construct="no underscore test")
        ob.require(n_has[True] >= 1 and n_has[False] >= 1, f"store paths with '=' present/absent: {n_has}")
        for (path, st, t) in sp["und_true"]:
            if sp["cfg"].nodes[path[-1][0]].kind != "raise":
                ob.violation(fx, fx.node, "keys starting with an underscore are not rejected", construct="underscore key accepted")
        fg = repo.func("xspec.XSpec.__getattr__")
        rets = [n for n in repo.own_nodes(fg) if isinstance(n, ast.Return)]
        ob.site(fg, fg.node, "absent names read as None")
        if len(rets) != 1 or not (isinstance(rets[0].value, ast.Constant) and rets[0].value.value is None):
            ob.violation(fg, fg.node, "XSpec.__getattr__ does not return None for absent names")

    locks = LockSets(repo)
    fa = repo.func("multi.Group.allocate_id")
    with ctx.obligation("C20.d", "autoid") as ob:
        n = 0
        for fi0 in repo.cls("Group").methods.values():
            if fi0.name in ("__init__", "allocate_id"):
                continue
            fi = repo.func(fi0.qualname)
            for x in repo.own_nodes(fi):
                if isinstance(x, ast.Attribute) and x.attr == "_autoidcounter":
                    n += 1
                    held = locks.held(fi, x)
                    ob.site(fi, x, "_autoidcounter access", held=sorted(held))
                    if IDLOCK not in held:
                        ob.violation(fi, x, "the auto-id counter is accessed outside _autoidlock: concurrent makegateway calls can get the same id")
        # allocate_id itself: on every feasible path the counter is read / advanced and the automatic id is tested
        # while the lock is held (with-statement, acquire/try/finally or a conditionally chosen guard object)
        spec = fa.params()[1]
        LOCKT, CNT0, SELF = ("sym", "self._autoidlock"), ("sym", "self._autoidcounter"), ("sym", "self")
        evl = evaluator(repo, fa)
        seen = set()
        for (_p, st) in evl.run():
            for e in st.events:
                vals = list(e.args) + list(e.kwargs.values()) + ([e.value] if e.value is not None else [])
                touches = e.target == "self._autoidcounter" or any(mentions(v, CNT0) for v in vals if isinstance(v, tuple))
                if not touches or e.kind not in ("assign", "call", "store"):
                    continue
                ok = LOCKT in e.held
                if id(e.node) not in seen:
                    seen.add(id(e.node))
                    n += 1
                    ob.site(fa, e.node, "_autoidcounter access", held=[show(h) for h in e.held])
                if not ok:
                    ob.violation(fa, e.node, "the auto-id counter is accessed outside _autoidlock: concurrent makegateway calls can get the same id")
            for ((t, v), h) in zip(st.cond, st.cond_held):
                if t[0] == "cmp" and t[1] == "in" and t[3] == SELF and mentions(t[2], CNT0) and LOCKT not in h:
                    ob.violation(fa, fa.node, "the uniqueness test of an automatic id runs outside the lock")
        ob.require(n >= 2, f"{n} counter accesses (floor 2)")
        ev = evaluator(repo, fa)
        CNT = ("sym", "self._autoidcounter")
        nauto = 0
        for path, st in ev.run():
            stores = [e for e in st.events if e.kind == "assign" and e.target == f"{spec}.id"]
            if ev.cfg.nodes[path[-1][0]].kind != "return" or not stores:
                continue
            nauto += 1
            if st.env.get("self._autoidcounter") not in (("bin", "Add", CNT, const(1)), ("bin", "Add", const(1), CNT)):
                ob.violation(fa, fa.node, "the auto-id counter is not incremented by one per allocation")
            if not mentions(stores[-1].value, CNT):
                ob.violation(fa, fa.node, "automatic ids are not derived from the counter")
        ob.require(nauto >= 1, "allocate_id: no path assigns an automatic id")

    check_explicit_id(ctx, "C20.e")

    with ctx.obligation("C20.h", "absent-names-none") as ob:
        # "None for absent names": class-level defaults of XSpec are None (they are what an absent key reads as; __getattr__ covers the rest)
        xc = repo.cls("XSpec")
        nd = 0
        for st_ in xc.node.body:
            tg = st_.targets[0] if isinstance(st_, ast.Assign) and len(st_.targets) == 1 else (st_.target if isinstance(st_, ast.AnnAssign) else None)
            val = getattr(st_, "value", None)
            if isinstance(tg, ast.Name) and not tg.id.startswith("_") and val is not None and not isinstance(val, (ast.Lambda,)):
                nd += 1
                ok = isinstance(val, ast.Constant) and val.value is None
                ob.site(repo.func("xspec.XSpec.__init__"), st_, f"class default {tg.id} = None", ok=ok)
                if not ok:
                    ob.violation(repo.func("xspec.XSpec.__init__"), st_, f"XSpec.{tg.id} defaults to `{unparse(val)}`: a name absent from the spec string must read as None "
                                                                        "(code distinguishes absent from False by identity)", construct=f"default {tg.id}")
        ob.require(nd >= 3, f"{nd} class-level defaults of XSpec (floor 3)")

    with ctx.obligation("C20.i", "argv-fresh-per-call") as ob:
        # popen_args extends the list it gets from shell_split_path in place: that list must be fresh per call (no result cache)
        gio_ = repo.module("gateway_io")
        nmut = 0
        for f in repo.scan_funcs():
            if f.module.name != "gateway_io":
                continue
            for n_ in repo.own_nodes(f):
                if isinstance(n_, ast.Assign) and len(n_.targets) == 1 and isinstance(n_.targets[0], ast.Name) and isinstance(n_.value, (ast.Call, ast.IfExp)):
                    srcs = [n_.value] if isinstance(n_.value, ast.Call) else [x for x in (n_.value.body, n_.value.orelse) if isinstance(x, ast.Call)]
                    tg_ = [t for c_ in srcs for t in repo.resolve_call(c_, f)]
                    nm = n_.targets[0].id
                    mutated = any(isinstance(c, ast.Call) and isinstance(c.func, ast.Attribute) and isinstance(c.func.value, ast.Name) and c.func.value.id == nm
                                  and c.func.attr in ("append", "extend", "insert", "pop", "remove", "sort", "reverse", "clear") for c in repo.calls_in(f)) or \
                        any(isinstance(x, ast.AugAssign) and isinstance(x.target, ast.Name) and x.target.id == nm for x in repo.own_nodes(f))
                    if not mutated:
                        continue
                    for t in tg_:
                        nmut += 1
                        cached = [unparse(d) for d in t.node.decorator_list if any(w in unparse(d) for w in ("lru_cache", "cache", "memo"))]
                        ob.site(f, n_, f"{f.short} mutates the result of {t.short}: fresh object per call", cached=cached)
                        if cached:
                            ob.violation(t, t.node, f"{t.short} is cached ({cached[0]}) but {f.short} mutates the list it returns: every spec with the same python= text shares "
                                                    "one argv, options accumulate across gateways", construct=f"cached {t.short} mutated by {f.short}")
        if nmut == 0:
            ob.site(gio_, None, "no function of gateway_io mutates a list it got from another function: nothing to share")

    with ctx.obligation("C20.g", "register-rechecks-id") as ob:
        # allocate_id tests the id long before the (slow) bootstrap finishes: two creations claiming the same id both pass it.
        # The last line of defence is the test of the gateway's *id* against the group right before it is appended
        # (an assertion on the pinned tree: it holds in the default mode and vanishes under -O -- recorded, not judged).
        fmk = repo.merged("multi.Group.makegateway", ["multi.Group._register"])
        evr = evaluator(repo, fmk)
        napp = 0
        bad = set()
        for (_p, st) in evr.run(limit=40000):
            for e in st.events:
                if e.kind == "call" and e.recv == ("sym", "self._gateways") and e.attr in ("append", "insert") and e.args:
                    napp += 1
                    G = e.args[-1]
                    ids = [("attr", G, "id")] + ([("sym", G[1] + ".id")] if G[0] == "sym" else [])
                    ok = any(any(mentions(t, i) for i in ids) and (mentions(t, ("sym", "self")) or mentions(t, ("sym", "self._gateways")))
                             for (t, _v) in st.cond[:e.ncond])
                    if id(e.node) not in bad:
                        ob.site(fmk, e.node, "the gateway is appended only after its id was tested against the group", ok=ok)
                    if not ok and id(e.node) not in bad:
                        bad.add(id(e.node))
                        ob.violation(fmk, e.node, f"`{show(G)}` is registered without its id having been tested against the group at registration time: two creations that both passed "
                                                  "allocate_id() before either registered end up as two live gateways with one id", construct="register without id test")
                    bad.add(id(e.node)) if ok else None
        ob.require(napp >= 1, "no registration (self._gateways.append) found on makegateway's paths")

    with ctx.obligation("C20.f", "lookup-agree") as ob:
        g = repo.cls("Group")
        for name in ("__getitem__", "__len__", "__iter__"):
            m = g.methods.get(name)
            ob.require(m is not None, f"Group.{name} vanished")
            m = repo.func(m.qualname)
            attrs = {n.attr for n in repo.own_nodes(m) if isinstance(n, ast.Attribute) and unparse(n.value) == "self"}
            ob.site(m, None, f"Group.{name} reads the member list", attrs=sorted(attrs))
            if attrs != {"_gateways"}:
                ob.violation(m, m.node, f"Group.{name} consults {sorted(attrs)} instead of the single member list _gateways")
        mc = repo.flat(g.methods["__contains__"])
        subs = [n for n in repo.own_nodes(mc) if isinstance(n, ast.Subscript)]
        attrs = {n.attr for n in repo.own_nodes(mc) if isinstance(n, ast.Attribute) and unparse(n.value) == "self"}
        ob.site(mc, None, "membership is defined through lookup (self[key])")
        if [unparse(s) for s in subs] != ["self[key]"] or attrs:
            ob.violation(mc, mc.node, "Group.__contains__ is not defined through __getitem__")
        gi = repo.func(g.methods["__getitem__"].qualname)
        keyp = gi.params()[1]
        cmp_ = [n for n in ast.walk(gi.node) if isinstance(n, ast.Compare) and len(n.ops) == 1 and isinstance(n.ops[0], ast.Eq)
                and any(isinstance(a, ast.Attribute) and a.attr == "id" and xtext(repo, gi, b) == keyp for a, b in ((n.left, n.comparators[0]), (n.comparators[0], n.left)))]
        if not cmp_:
            ob.violation(gi, gi.node, "lookup by id does not compare gateway ids")
        it = repo.flat(g.methods["__iter__"])
        r = [n for n in repo.own_nodes(it) if isinstance(n, ast.Return)]
        rv = xtext(repo, it, r[0].value) if r else ""   # (locals expanded)
        if not r or "self._gateways" not in rv or "sorted" in rv or "reversed" in rv:
            ob.violation(it, it.node, "iteration does not follow the member list's own order")
        reg = repo.func("multi.Group._register")
        ap = [c for c in repo.calls_in(reg) if callee_attr(c) == "append" and unparse(c.func.value) == "self._gateways"]
        if len(ap) != 1:
            ob.violation(reg, reg.node, "_register does not append the gateway to the member list once")
