"""C18 Channel ids never collide; channels travel over channels intact; tables shrink."""

from __future__ import annotations

import ast

from ..cfg import Oracle, build_cfg
from ..index import AnalysisError, UNKNOWN, norm, unparse
from ..report import Ctx
from ..terms import evaluator, show
from ..util import LockSets, arg, callee_attr, calls_in_node, cfg_nodes_with_call
from ..wire import ReaderTranslator, canon_reader
from ._chan import GB, WRITELOCK
from .C10 import check_registration_only_open, check_terminal_frame
from .C12 import reader_terms, writer_terms


def check_alloc_lock(ctx: Ctx, oid: str) -> None:
    """C18.b (also C02.k): id allocation and get-or-create of the channel object happen inside the factory's write lock"""
    repo = ctx.repo
    locks = LockSets(repo)
    fn = repo.func(f"{GB}.ChannelFactory.new")
    evn = evaluator(repo, fn)
    COUNT = ("sym", "self.count")
    idp = ("sym", fn.params()[1])
    with ctx.obligation(oid, "alloc-lock") as ob:
        fn = repo.func(f"{GB}.ChannelFactory.new")
        n = 0
        for x in repo.own_nodes(fn):
            hit = None
            if isinstance(x, ast.Attribute) and x.attr == "count" and unparse(x.value) == "self":
                hit = "count access"
            if isinstance(x, ast.Attribute) and x.attr == "_channels" and unparse(x.value) == "self":
                hit = "_channels get-or-create"
            if hit:
                n += 1
                held = locks.held(fn, x)
                ob.site(fn, x, hit, held=sorted(held))
                if WRITELOCK not in held:
                    ob.violation(fn, x, f"{hit} outside _writelock: two threads can obtain the same id / two Channel objects for one id")
        ob.require(n >= 4, f"{n} counter/table accesses in new() (floor 4)")
        # the created channel gets the allocated id and the factory's gateway, and is registered under that id
        nmk = 0
        for (pth, st) in evn.run(limit=4000):
            if pth[-1][0] != evn.cfg.exit.id:
                continue
            auto = st.known.get(("cmp", "is", idp, ("const", None)))
            want_id = COUNT if auto is True else idp
            mk = [e for e in st.events if e.kind == "call" and e.callee == "Channel"]
            if auto is None:
                ob.violation(fn, fn.node, "new() does not distinguish a requested id from an automatic one")
                continue
            looked = [e for e in st.events if (e.kind == "call" and e.callee == "self._channels.get" and e.args[:1] == (want_id,))]
            if mk:
                nmk += 1
                if mk[0].args != (("sym", "self.gateway"), want_id):
                    ob.violation(fn, mk[0].node, "the new Channel is not created with (gateway, allocated id)")
                reg = [e for e in st.events if e.kind == "store" and e.target == "self._channels" and e.key == want_id and e.value == mk[0].result]
                if not reg:
                    ob.violation(fn, mk[0].node, "the new Channel is not registered under its id")
                if st.ret != mk[0].result:
                    ob.violation(fn, mk[0].node, "new() does not return the channel it created")
            else:
                ok = st.ret in [("idx", ("sym", "self._channels"), want_id)] + [e.result for e in looked]
                if not ok:
                    ob.violation(fn, fn.node, f"new() returns {show(st.ret) if st.ret else None}: not the channel registered under the id")
        ob.require(nmk >= 1, "Channel(...) not found in new()")



def check_unregister_total(ctx: Ctx, oid: str) -> None:
    """_no_longer_opened(id) removes the id from both tables on every path -- in particular whether or not a Channel object still
    exists (`_channels` is weak: a dropped channel with a live callback is by construction absent from it) -- and hands the
    end marker to the callback it removed (shared: C03.k, C10.k)"""
    repo = ctx.repo
    with ctx.obligation(oid, "unregister-total") as ob:
        fnl = repo.func(f"{GB}.ChannelFactory._no_longer_opened")
        cfg = build_cfg(repo, fnl, Oracle(repo, fnl, precise=True))
        for tbl in ("self._channels", "self._callbacks"):
            pn = cfg_nodes_with_call(cfg, lambda c: callee_attr(c) == "pop" and unparse(c.func.value) == tbl)
            ok = bool(pn) and cfg.must_pass([cfg.entry.id], [cfg.exit.id], {x.id for x in pn}) is None
            ob.site(fnl, pn[0].ast if pn else fnl.node, f"{tbl}.pop(id) on every path of _no_longer_opened", ok=ok)
            if not ok:
                ob.violation(fnl, pn[0].ast if pn else fnl.node, f"{tbl}.pop is not executed on every path of _no_longer_opened: for a channel whose object was dropped while its callback "
                                                                 "stays registered the close never delivers the end marker and the registration stays for good",
                             construct=f"conditional pop {tbl}")
        from ._chan import entry_calls
        em = [c for (c, _o, what) in entry_calls(repo, fnl) if what == "endmarker"]
        ob.site(fnl, em[0] if em else fnl.node, "the removed callback is called with its end marker", ok=bool(em))
        if not em:
            ob.violation(fnl, fnl.node, "_no_longer_opened does not hand the end marker to the callback it removes", construct="no endmarker call")


def check(ctx: Ctx) -> None:
    repo = ctx.repo
    ctx.decides = ("id parity: the initiating gateway starts at 1, the worker at 2 (even default), step 2; allocation and get-or-create inside "
                   "the factory's write lock; save_Channel/load_channel agree on the id and the loader connects to factory.new(that id); the "
                   "channel table is weak, both tables are popped on every closed transition, remote_status unregisters its ad-hoc channel.")
    ctx.not_decided = "growth over thousands of cycles (GC timing)."
    locks = LockSets(repo)

    with ctx.obligation("C18.a", "id-parity", nontrivial=False) as ob:
        gi = repo.func("gateway.Gateway.__init__")
        sc = [c for c in repo.calls_in(gi) if callee_attr(c) == "__init__"]
        ob.require(len(sc) == 1, "Gateway.__init__: super().__init__ call not found")
        v = arg(sc[0], 2, "_startcount")
        from ..util import expand as _exp
        iv = repo.fold_in(_exp(repo, gi, v), gi) if v is not None else None
        ob.site(gi, sc[0], "initiating side starts at an odd id", startcount=iv)
        fs = repo.func(f"{GB}.serve")
        wc = [c for c in repo.calls_in(fs) if isinstance(c.func, ast.Name) and c.func.id == "WorkerGateway"]
        ob.require(len(wc) == 1, "serve(): WorkerGateway construction not found")
        v2 = arg(wc[0], 2, "_startcount")
        bi = repo.func(f"{GB}.BaseGateway.__init__")
        dflt = repo.fold_in(bi.node.args.defaults[-1], bi) if bi.node.args.defaults else None
        wv = repo.fold_in(_exp(repo, fs, v2), fs) if v2 is not None else dflt
        ob.site(fs, wc[0], "worker side starts at an even id", startcount=wv, base_default=dflt)
        if not (isinstance(iv, int) and isinstance(wv, int) and iv % 2 == 1 and wv % 2 == 0):
            ob.violation(gi, sc[0], f"start counts {iv!r} (initiator) / {wv!r} (worker) do not have different parity: both sides would allocate the same channel ids",
                         construct=f"startcounts {iv!r}/{wv!r}")
        if isinstance(dflt, int) and isinstance(iv, int) and dflt % 2 == iv % 2:
            ob.violation(bi, bi.node, f"BaseGateway's default start count {dflt} has the initiator's parity", construct=f"default {dflt}")
        cf = [c for c in repo.calls_in(bi) if isinstance(c.func, ast.Name) and c.func.id == "ChannelFactory"]
        ob.require(len(cf) == 1, "ChannelFactory construction not found")
        if len(cf[0].args) < 2 or unparse(cf[0].args[1]) != "_startcount":
            ob.violation(bi, cf[0], "the start count is not handed to the ChannelFactory")
        fi = repo.func(f"{GB}.ChannelFactory.__init__")
        st = [n for n in repo.own_nodes(fi) if isinstance(n, ast.Assign) and unparse(n.targets[0]) == "self.count"]
        if len(st) != 1 or unparse(st[0].value) != fi.params()[2]:
            ob.violation(fi, fi.node, "ChannelFactory.count is not initialised from the start count")
        fn = repo.func(f"{GB}.ChannelFactory.new")
        evn = evaluator(repo, fn)
        COUNT = ("sym", "self.count")
        idp = ("sym", fn.params()[1])
        nalloc = 0
        for (pth, st) in evn.run(limit=4000):
            if pth[-1][0] != evn.cfg.exit.id:
                continue
            final = st.env.get("self.count", COUNT)
            auto = st.known.get(("cmp", "is", idp, ("const", None)))
            if auto is True:
                nalloc += 1
                step = final[3][1] if final[0] == "bin" and final[1] == "Add" and final[2] == COUNT and final[3][0] == "const" else (
                    final[2][1] if final[0] == "bin" and final[1] == "Add" and final[3] == COUNT and final[2][0] == "const" else None)
                ob.site(fn, fn.node, "allocation step", step=step, count_after=show(final))
                if final == COUNT:
                    ob.violation(fn, fn.node, "an automatic id is handed out without advancing the counter: the next channel gets the same id", construct="no advance")
                elif step is None:
                    ob.violation(fn, fn.node, f"the id counter is re-assigned (`self.count = {show(final)}`) instead of only advancing by the step: its parity can flip and both sides then allocate the same ids",
                                 construct="counter re-assigned")
                elif step != 2:
                    ob.violation(fn, fn.node, f"the id counter advances by {step!r} instead of 2: ids of the two sides collide", construct=f"step {step}")
            elif final != COUNT:
                ob.violation(fn, fn.node, "the id counter is changed although an explicit id was requested", construct="advance on explicit id")
        ob.require(nalloc >= 1, "`self.count += step` not found in new()")
        # count is written nowhere else
        for f in repo.scan_funcs():
            for n in repo.own_nodes(f):
                if isinstance(n, (ast.Assign, ast.AugAssign)) and f.short not in ("ChannelFactory.__init__", "ChannelFactory.new"):
                    for t in (n.targets if isinstance(n, ast.Assign) else [n.target]):
                        if isinstance(t, ast.Attribute) and t.attr == "count" and repo.type_of(t.value, f) == "ChannelFactory":
                            ob.violation(f, n, "the channel id counter is written outside ChannelFactory.new")

    check_alloc_lock(ctx, "C18.b")

    with ctx.obligation("C18.c", "channel-codec") as ob:
        wt = writer_terms(repo)
        rt = reader_terms(repo)
        op = repo.cls("opcode").consts["CHANNEL"]
        m, term = wt["Channel"]
        ob.site(m, None, "save_Channel writes the channel's id", term=repr(term))
        if term != [("OP", op), ("INT4", "v.id")]:
            ob.violation(m, m.node, f"save_Channel writes {term!r} instead of CHANNEL + int4(id)")
        f, rterm = rt[op]
        f = repo.func(f.qualname)
        ob.site(f, None, "load_channel connects to channelfactory.new(<the id read>)", term=repr(rterm))
        if rterm != [("READ", ("const", 4)), ("PUSH", ("channel", ("int4", ("R", 0))))]:
            ob.violation(f, f.node, f"load_channel does not rebuild the channel from the id it read: {rterm!r}")
        nw = [c for c in repo.calls_in(f) if callee_attr(c) == "new"]
        from ..util import xtext
        if len(nw) != 1 or xtext(repo, f, nw[0].func.value) != "self.channelfactory":
            ob.violation(f, f.node, "load_channel does not obtain the channel from the gateway's own factory (get-or-create by id)")
        # the unserializer is given the receiving channel's gateway
        flr = repo.func(f"{GB}.ChannelFactory._local_receive")
        for c in repo.calls_in(flr):
            if callee_attr(c) == "loads_internal":
                ob.site(flr, c, "items are decoded in the context of the receiving channel")
                if len(c.args) < 2 or unparse(c.args[1]) != "channel":
                    ob.violation(flr, c, "received items are decoded without the receiving channel: contained channels could not be connected")

    with ctx.obligation("C18.d", "forget") as ob:
        fi = repo.func(f"{GB}.ChannelFactory.__init__")
        t = repo.field_type("ChannelFactory", "_channels")
        ob.site(fi, None, "_channels is a WeakValueDictionary", type=t)
        if t != "WeakValueDictionary":
            ob.violation(fi, fi.node, "ChannelFactory._channels is not a WeakValueDictionary: dropped channels are never forgotten")
        fnl = repo.func(f"{GB}.ChannelFactory._no_longer_opened")
        pops = {unparse(c.func.value): c for c in repo.calls_in(fnl) if callee_attr(c) == "pop"}
        idp = fnl.params()[1]
        for tbl in ("self._channels", "self._callbacks"):
            c = pops.get(tbl)
            ok = c is not None and unparse(c.args[0]) == idp and len(c.args) == 2
            ob.site(fnl, c if c is not None else fnl.node, f"{tbl}.pop(id, None)", ok=ok)
            if not ok:
                ob.violation(fnl, fnl.node, f"_no_longer_opened does not remove the id from {tbl}: per-gateway state grows with finished conversations", construct=f"no pop {tbl}")
        cfg = build_cfg(repo, fnl, Oracle(repo, fnl, precise=True))
        for tbl in ("self._channels", "self._callbacks"):
            pn = cfg_nodes_with_call(cfg, lambda c: callee_attr(c) == "pop" and unparse(c.func.value) == tbl)
            if pn and cfg.must_pass([cfg.entry.id], [cfg.exit.id], {x.id for x in pn}) is not None:
                ob.violation(fnl, pn[0].ast, f"{tbl}.pop is not executed on every path")
        frs = repo.func("gateway.Gateway.remote_status")
        lc = [c for c in repo.calls_in(frs) if callee_attr(c) == "_local_close"]
        nc = [c for c in repo.calls_in(frs) if callee_attr(c) == "newchannel"]
        ok = len(lc) == 1 and len(nc) == 1 and unparse(lc[0].args[0]).endswith(".id")
        ob.site(frs, lc[0] if lc else frs.node, "remote_status unregisters its ad-hoc channel", ok=ok)
        if not ok:
            ob.violation(frs, frs.node, "remote_status leaves its ad-hoc channel registered")
        ob.note("closed transitions reach _no_longer_opened on every path: decided by C03.b; __del__ notifies the peer: C03.f")

    check_registration_only_open(ctx, "C18.f")
    check_terminal_frame(ctx, "C18.e")
    from .C03 import check_del_notifies
    check_del_notifies(ctx, "C18.g")

    # a closed or dropped channel leaves both tables on every path of the close transition (sendonly included)
    from .C03 import check_transition_complete
    check_transition_complete(ctx, "C18.h")
    # ... also when a callback fails after its channel object was dropped
    from .C07 import check_callback_failure_closes
    check_callback_failure_closes(ctx, "C18.i")

    # a channel sent through another channel arrives: the carrier's queue->callback hand-over is atomic w.r.t. the receiver thread
    from ..util import LockSets as _LS
    from .C10 import check_handover_lock
    check_handover_lock(ctx, _LS(repo), "C18.j")
