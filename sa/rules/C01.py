"""C01 Serializer round-trip is total and type-exact on builtin values."""

from __future__ import annotations

import ast

from ..cfg import Oracle, build_cfg
from ..effects import Effects
from ..index import AnalysisError, FuncInfo, Repo, UNKNOWN, norm, unparse  # noqa: F401
from ..replay import Mismatch, Replayer, verdict
from ..report import Ctx
from ..util import Facts, arg, callee_attr, calls_in_node, cfg_nodes_with_call
from ..wire import ReaderTranslator, canon_reader, eval_cfg
from .C12 import P2, P3, reader_terms, writer_terms

GB = "gateway_base"
GRAMMAR = ["NoneType", "bool", "int", "float", "complex", "bytes", "str", "list", "tuple", "dict", "set", "frozenset"]
ACCEPTED = set(GRAMMAR) | {"Channel"}
SAVE_METHODS = ACCEPTED | {"long"}  # save_long: py2 legacy, unreachable by name on py3


def static_type_set(repo: Repo, fi_or_cls, node: ast.AST) -> set[str] | None:
    """Evaluate a literal collection of types: frozenset((type(None), bool, ...) + (list, ..., Channel))."""
    if isinstance(node, ast.Call) and isinstance(node.func, ast.Name) and node.func.id in ("frozenset", "set", "tuple") and len(node.args) == 1:
        return static_type_set(repo, fi_or_cls, node.args[0])
    if isinstance(node, ast.BinOp) and isinstance(node.op, (ast.Add, ast.BitOr)):
        l, r = static_type_set(repo, fi_or_cls, node.left), static_type_set(repo, fi_or_cls, node.right)
        return None if l is None or r is None else l | r
    if isinstance(node, (ast.Tuple, ast.List, ast.Set)):
        out = set()
        for e in node.elts:
            if isinstance(e, ast.Name) and (e.id in ("bool", "bytes", "str", "int", "float", "complex", "list", "dict", "tuple", "set", "frozenset") or e.id in repo.classes):
                out.add(e.id)
            elif isinstance(e, ast.Call) and unparse(e) == "type(None)":
                out.add("NoneType")
            else:
                return None
        return out
    if isinstance(node, ast.Dict):
        return static_type_set(repo, fi_or_cls, ast.Tuple(elts=list(node.keys), ctx=ast.Load()))
    return None


def is_type_valued(repo: Repo, fi: FuncInfo, e: ast.AST, depth: int = 0) -> bool:
    """the expression denotes a *type* (type(x), a local bound to it, a parameter annotated/always passed a type)"""
    if depth > 3:
        return False
    if isinstance(e, ast.Call) and isinstance(e.func, ast.Name) and e.func.id == "type" and len(e.args) == 1:
        return True
    if isinstance(e, ast.Attribute) and e.attr == "__class__":
        return True
    if isinstance(e, ast.Name):
        for a in fi.node.args.args + fi.node.args.kwonlyargs:
            if a.arg == e.id:
                if a.annotation is not None and unparse(a.annotation).split("[")[0] in ("type", "Type", "typing.Type"):
                    return True
                sites = repo.callsites_flat(fi.qualname)
                formals = [x.arg for x in fi.node.args.args]
                idx = formals.index(e.id) - (1 if formals and formals[0] in ("self", "cls") else 0)
                if sites and all(idx < len(c.args) and is_type_valued(repo, caller, c.args[idx], depth + 1) for caller, c in sites):
                    return True
                return False
        al = repo.local_alias(e.id, fi)
        return al is not None and is_type_valued(repo, fi, al, depth + 1)
    return False


def check_encoder_pure(ctx: Ctx, oid: str) -> None:
    """the bytes written for a value depend on its exact type and content only -- not on what was saved before (shared: C01.i, C12.f)"""
    repo = ctx.repo
    ser = repo.cls("_Serializer")
    with ctx.obligation(oid, "encoder-pure") as ob:
        # the encoding of a value may depend on its exact type and content only: a container of the serializer that is
        # keyed by a *value* being saved conflates equal values of different type (1 == 1.0 == True, 0.0 == -0.0)
        n = 0
        for m in ser.methods.values():
            vparams = {p for p in m.params() if p != "self"}
            for x in repo.own_nodes(m):
                if isinstance(x, ast.Subscript) and isinstance(x.value, ast.Attribute) and unparse(x.value.value) in ("self", "cls", ser.name, "self.__class__"):
                    n += 1
                    key_names = {y.id for y in ast.walk(x.slice) if isinstance(y, ast.Name)}
                    by_type = is_type_valued(repo, m, x.slice)
                    ob.site(m, x, f"serializer table access {norm(x)[:50]}", keyed_by_type=by_type)
                    if key_names & vparams and not by_type:
                        ob.violation(m, x, f"the serializer consults a table keyed by the value being saved (`{norm(x)}`): equal values of different type or bit pattern "
                                           "(1, 1.0, True; 0.0, -0.0) would share one encoding -- the round trip is no longer type-exact")
                if isinstance(x, ast.Call) and callee_attr(x) in ("get", "setdefault", "pop") and isinstance(x.func, ast.Attribute) and isinstance(x.func.value, ast.Attribute) \
                        and unparse(x.func.value.value) in ("self", "cls", ser.name, "self.__class__"):
                    n += 1
                if isinstance(x, ast.Call) and callee_attr(x) in ("get", "setdefault", "pop") and isinstance(x.func, ast.Attribute) and isinstance(x.func.value, ast.Attribute) and unparse(x.func.value.value) in ("self", "cls") \
                        and x.args and {y.id for y in ast.walk(x.args[0]) if isinstance(y, ast.Name)} & vparams and not is_type_valued(repo, m, x.args[0]):
                    ob.violation(m, x, f"the serializer consults a table keyed by the value being saved (`{norm(x)[:60]}`)")
            for x in repo.own_nodes(m):
                if isinstance(x, ast.Assign) and m.name != "__init__" and any(unparse(t) == "self._write" for t in x.targets):
                    ob.violation(m, x, "the serializer's sink is re-bound while saving: bytes can be re-ordered or replayed")
        ob.require(n >= 1, f"{n} serializer table accesses (floor 1: the type-keyed dispatch table)")



def check_decoder_fresh(ctx: Ctx, oid: str) -> None:
    """every loaded container is a new object: the loader takes no value from a table of prebuilt mutable objects (C01.m)"""
    repo = ctx.repo
    uns = repo.cls("Unserializer")
    MUT_CTORS = {"set", "list", "dict", "bytearray", "deque", "defaultdict", "OrderedDict"}

    def mutable(v: ast.AST) -> bool:
        return isinstance(v, (ast.List, ast.Dict, ast.Set, ast.ListComp, ast.DictComp, ast.SetComp)) or \
            (isinstance(v, ast.Call) and unparse(v.func).split(".")[-1] in MUT_CTORS)
    with ctx.obligation(oid, "decoder-fresh") as ob:
        tables = {}
        for st in uns.node.body:
            tg = st.targets[0] if isinstance(st, ast.Assign) and len(st.targets) == 1 else (st.target if isinstance(st, ast.AnnAssign) else None)
            val = getattr(st, "value", None)
            if isinstance(tg, ast.Name) and isinstance(val, ast.Dict):
                tables[tg.id] = [v for v in val.values if v is not None and mutable(v)]
            elif isinstance(tg, ast.Name) and val is not None and mutable(val):
                tables[tg.id] = [val]
        n = 0
        for m in uns.methods.values():
            fm = repo.func(m.qualname)
            for x in repo.own_nodes(fm):
                base = None
                if isinstance(x, ast.Subscript) and isinstance(x.ctx, ast.Load) and isinstance(x.value, ast.Attribute):
                    base = x.value
                elif isinstance(x, ast.Call) and callee_attr(x) in ("get", "setdefault") and isinstance(x.func.value, ast.Attribute):
                    base = x.func.value
                elif isinstance(x, ast.Attribute) and isinstance(x.ctx, ast.Load):
                    base = x
                if base is None or unparse(base.value) not in ("self", "cls", uns.name, "self.__class__", "type(self)") or base.attr not in tables:
                    continue
                n += 1
                bad = tables[base.attr]
                ob.site(fm, x, f"loader reads the class-level table {base.attr}", mutable_values=len(bad))
                if bad:
                    ob.violation(fm, x, f"the loader takes values from the class-level table `{base.attr}`, which holds a prebuilt mutable object (`{norm(bad[0])[:30]}`): every load "
                                        "returns the same object, and a receiver that mutates it changes what later loads return", construct=f"shared mutable {base.attr}")
        ob.note(f"class-level tables of the loader holding mutable values: {sorted(k for k, v in tables.items() if v)}; reads of class-level tables: {n}")


def check(ctx: Ctx) -> None:
    repo = ctx.repo
    gb = repo.module(GB)
    ser = repo.cls("_Serializer")
    ctx.decides = ("dispatch by exact type over a closed, statically evaluated type set; the accepted set is the grammar "
                   "plus Channel; every fixed-width integer pack is range-guarded on all call chains; symbolic replay of "
                   "each save_* term through the registered loaders returns the value with its exact type (dict order, "
                   "key/value roles, element counts); only DumpError escapes save(); payloads are complete before _send.")
    ctx.not_decided = ("equality on concrete values is not observed: it follows from the obligations and the axioms AX-struct, "
                       "AX-codec, AX-decimal, AX-complex by structural induction.")
    ctx.assume("A1", "A2", "A5", "A6")
    ctx.trust("struct pack/unpack are inverse on in-range values", "utf-8 and ascii-decimal round trips", "dict preserves insertion order")
    f_save = repo.func(f"{GB}._Serializer._save")

    # ---- C01.a / C01.b dispatch
    cfg = build_cfg(repo, f_save, Oracle(repo, f_save, precise=True))
    with ctx.obligation("C01.a", "dispatch-exact") as ob:
        tps = [n for n in repo.own_nodes(f_save) if isinstance(n, ast.Assign) and isinstance(n.value, ast.Call)
               and unparse(n.value.func) == "type" and len(n.value.args) == 1]
        ob.require(len(tps) == 1 and isinstance(tps[0].targets[0], ast.Name), "`tp = type(obj)` not found in _save")
        tp = tps[0].targets[0].id
        objname = unparse(tps[0].value.args[0])
        params = [p for p in f_save.params() if p != "self"]
        ob.site(f_save, tps[0], "dispatch key is type(obj) of the value parameter", key=tp)
        if objname not in params:
            ob.violation(f_save, tps[0], "the dispatch key is not the type of the value being saved")
        for n in repo.own_nodes(f_save):
            if isinstance(n, ast.Call) and isinstance(n.func, ast.Name) and n.func.id in ("isinstance", "issubclass"):
                ob.violation(f_save, n, "subclass-aware test in the serializer dispatch: subclass instances would be accepted and lose their type")
            if isinstance(n, ast.Attribute) and n.attr in ("__mro__", "__bases__", "mro", "__base__"):
                ob.violation(f_save, n, "the serializer dispatch walks the class hierarchy")
        # every subscript of the dispatch cache is keyed by tp
        for n in repo.own_nodes(f_save):
            if isinstance(n, ast.Subscript) and "_dispatch" in unparse(n.value):
                ob.site(f_save, n, "cache keyed by the exact type")
                if unparse(n.slice) != tp:
                    ob.violation(f_save, n, "the dispatch cache is not keyed by type(obj)")
        disp = cfg_nodes_with_call(cfg, lambda c: len(c.args) == 2 and unparse(c.args[0]) == "self" and unparse(c.args[1]) == objname)
        ob.require(len(disp) >= 1, "dispatch call `dispatch(self, obj)` not found")

    with ctx.obligation("C01.b", "dispatch-closed") as ob:
        # the name-keyed lookup must be fenced by a membership test in a closed, statically known type set
        lookups = [c for c in repo.calls_in(f_save) if isinstance(c.func, ast.Name) and c.func.id == "getattr"]
        closed_sets: dict[str, set[str]] = {}
        for st in ser.node.body:
            tgt = st.targets[0] if isinstance(st, ast.Assign) else (st.target if isinstance(st, ast.AnnAssign) else None)
            if isinstance(tgt, ast.Name) and getattr(st, "value", None) is not None:
                ts = static_type_set(repo, ser, st.value)
                if ts:
                    closed_sets[tgt.id] = ts
        ob.note(f"statically evaluated type sets: { {k: sorted(v) for k, v in closed_sets.items()} }")
        if not lookups:
            # a literal {type: save method} table is closed by construction: its keys must be the serialisable grammar,
            # each mapped to the save method of that very type
            tables = [(tgt_, st_.value) for st_ in ser.node.body for tgt_ in [st_.targets[0] if isinstance(st_, ast.Assign) else (st_.target if isinstance(st_, ast.AnnAssign) else None)]
                      if isinstance(tgt_, ast.Name) and isinstance(getattr(st_, "value", None), ast.Dict) and st_.value.keys
                      and any(isinstance(x, ast.Attribute) and x.attr == tgt_.id for x in repo.own_nodes(f_save))]
            ob.site(f_save, f_save.node, "no name-keyed lookup in _save", literal_tables=[t.id for t, _v in tables])
            if not tables:
                ob.violation(f_save, f_save.node, "the type dispatch of _save consults neither a fenced name lookup nor a literal table of the serialisable types",
                             construct="no closed dispatch")
            for tgt_, d in tables:
                ts = static_type_set(repo, ser, d)
                if ts is None or ts != ACCEPTED:
                    ob.violation(gb, d, f"the literal dispatch table {tgt_.id} does not list exactly the serialisable grammar: extra={sorted((ts or set()) - ACCEPTED)} missing={sorted(ACCEPTED - (ts or set()))}",
                                 construct=f"type set {sorted(ts) if ts else None}")
                for k, v in zip(d.keys, d.values):
                    kn = "NoneType" if unparse(k) == "type(None)" else unparse(k)
                    if unparse(v) != f"save_{kn}":
                        ob.violation(gb, v, f"the dispatch table maps {kn} to {unparse(v)} instead of save_{kn}: the value is written in another type's encoding")
        for lk in lookups:
            fenced = None
            for nd in cfg.node_containing(lk):
                # stores into the cache / the dispatch call that follow the lookup
                uses = [n for n in cfg.nodes if n.id in cfg.reach([nd.id]) and n.id != nd.id and n.ast is not None
                        and (any(isinstance(x, ast.Subscript) and isinstance(x.ctx, ast.Store) and "_dispatch" in unparse(x.value) for x in ast.walk(n.ast)))]
                for u in uses:
                    for (t, lab) in cfg.guards(u.id):
                        if t.kind != "test":
                            continue
                        f = Facts(repo, f_save, {})
                        f.assume(t.ast, lab == "true")
                        for name, ts in closed_sets.items():
                            if f.get(f"{tp} in self.{name}") is True or f.get(f"{tp} in {ser.name}.{name}") is True:
                                fenced = name
            ob.site(f_save, lk, "name-keyed method lookup fenced by a closed type set", fence=fenced)
            if fenced is None:
                ob.violation(f_save, lk, "the save method is looked up by class *name* (`'save_' + tp.__name__`) without a closed type-identity fence: "
                                         "any foreign class named like a builtin is accepted (type('float',(),{})() -> struct.error)")
            elif closed_sets[fenced] != ACCEPTED:
                extra, missing = closed_sets[fenced] - ACCEPTED, ACCEPTED - closed_sets[fenced]
                ob.violation(f_save, lk, f"the closed type set differs from the serialisable grammar: extra={sorted(extra)} missing={sorted(missing)}",
                             construct=f"type set {sorted(closed_sets[fenced])}")
        # unknown types raise DumpError
        rs = [n for n in repo.own_nodes(f_save) if isinstance(n, ast.Raise)]
        if not rs or not all(unparse(r.exc).startswith("DumpError") for r in rs):
            ob.violation(f_save, rs[0] if rs else f_save.node, "an unsupported type is not rejected with DumpError")

    with ctx.obligation("C01.c", "accepted-set", nontrivial=False) as ob:
        have = {n[5:] for n in ser.methods if n.startswith("save_")}
        ob.site(gb, ser.node, "save_* methods", methods=sorted(have))
        ob.require(len(have) >= 14, f"{len(have)} save_* methods (floor 14)")
        if have != SAVE_METHODS:
            ob.violation(gb, ser.node, f"save_* methods differ from the grammar: extra={sorted(have - SAVE_METHODS)} missing={sorted(SAVE_METHODS - have)}",
                         construct=f"save_* = {sorted(have)}")

    # ---- C01.d / C01.g effects of save()
    f_pub = repo.func(f"{GB}._Serializer.save")
    savers = [m for n, m in sorted(ser.methods.items()) if n.startswith("save_")]
    dyn_names = {unparse(c.func) for c in repo.calls_in(f_save) if isinstance(c.func, ast.Name) and len(c.args) == 2 and unparse(c.args[0]) == "self"}
    eff = Effects(repo, dynamic={(f_save.qualname, n): savers for n in (dyn_names or {"dispatch"})}, extra_total={"enumerate"})
    esc = eff.escapes(f_pub)
    if eff.unclassified:
        fi, c = eff.unclassified[0]
        raise AnalysisError(f"C01.g: unclassified callee `{norm(c.func)}` at {fi.module.rel}:{c.lineno} ({fi.short})")
    if eff.used_a1:
        ctx.assume("A1")
    with ctx.obligation("C01.d", "int-range") as ob:
        packs = [s for s in eff.primitive_sites if s["kind"] == "struct.pack"]
        ob.require(len(packs) >= 3, f"{len(packs)} struct.pack sites (floor 3)")
        for s in packs:
            ob.site(None, None, s["construct"], at=s["site"], discharged=s.get("discharged"), interval=s.get("interval"))
        for e in esc:
            if e.kind == "struct.pack":
                where, _, rest = e.origin.partition(" ")
                fn, _, cons = rest.partition(": ")
                fi = next((f for f in repo.funcs.values() if f.short == fn), f_pub)
                ob.violation(fi, ast.Pass(lineno=int(where.rpartition(":")[2]), col_offset=0),
                             "a fixed-width struct.pack argument is not range-guarded on every call chain "
                             f"(chain: save -> {' -> '.join(e.chain)}): struct.error instead of the decimal long-int encoding / DumpError",
                             construct=f"{cons} via {e.chain[-2] if len(e.chain) > 1 else fn}", chain=list(e.chain))

    with ctx.obligation("C01.g", "errors-typed") as ob:
        ob.note(f"functions analysed: {len(eff.analysed)}")
        for s in eff.primitive_sites:
            if s["kind"] != "struct.pack":
                ob.site(None, None, f"{s['kind']}: {s['construct']}", at=s["site"], discharged=s.get("discharged"))
        seen = set()
        for e in esc:
            if repo.is_subclass_name(e.cls, "DumpError") is True or e.kind == "struct.pack":
                continue
            if (e.cls, e.origin) in seen:
                continue
            seen.add((e.cls, e.origin))
            where, _, rest = e.origin.partition(" ")
            fn, _, cons = rest.partition(": ")
            fi = next((f for f in repo.funcs.values() if f.short == fn), f_pub)
            ob.violation(fi, ast.Pass(lineno=int(where.rpartition(":")[2]), col_offset=0),
                         f"{e.cls} can escape dumps()/Channel.send ({e.kind}) instead of DumpError; chain: save -> {' -> '.join(e.chain)}",
                         construct=f"{e.cls}: {cons}")
        if not ob.sites:
            ob.site(f_pub, None, "no partial primitive besides struct.pack")
        ctx.extra["c01_conversions"] = "UnicodeEncodeError -> DumpError in _write_unicode_string"

    # ---- C01.e codec agreement by symbolic replay
    wt = rt = None
    werr = None
    try:
        wt = writer_terms(repo)
        rt = reader_terms(repo)
    except AnalysisError as e:
        werr = e
    with ctx.obligation("C01.e", "codec-agreement") as ob:
        if werr is not None:
            raise AnalysisError(str(werr))
        for flags in ((True, False), (False, False)):
            rd = {op: eval_cfg(t, {P2: flags[0], P3: flags[1]}) for op, (_f, t) in rt.items()}
            rp = Replayer(rd)
            for T in sorted(wt):
                m, term = wt[T]
                arms = [(None, term)]
                if len(term) == 1 and term[0][0] == "ALT":
                    arms = [(("if", term[0][1]), term[0][2]), (("ifnot", term[0][1]), term[0][3])]

                def has_alt(tt):
                    return any(isinstance(x, tuple) and x and (x[0] == "ALT" or any(isinstance(y, list) and has_alt(y) for y in x)) for x in tt)

                def expand(tt, cap=16):
                    """every way of resolving the conditionals left inside a writer term (also inside loop bodies): each is an encoding
                    the writer can produce and must load back"""
                    outs = [[]]
                    for tok in tt:
                        if isinstance(tok, tuple) and tok and tok[0] == "ALT":
                            g0 = tok[1]
                            skip_none = isinstance(g0, tuple) and g0[0] == "cond" and isinstance(g0[1], str)
                            if skip_none and g0[1].endswith(" is not None") and tok[3] == []:
                                # an item that is None is not written: the loader's NEWLIST pre-fills None (dump format, C12.c), so the value
                                # round-trips all the same -- only the storing arm is an encoding to replay
                                opts = expand(tok[2], cap)
                            elif skip_none and g0[1].endswith(" is None") and tok[2] == []:
                                opts = expand(tok[3], cap)
                            else:
                                opts = [x for arm_ in (tok[2], tok[3]) for x in expand(arm_, cap)]
                        elif isinstance(tok, tuple) and any(isinstance(y, list) for y in tok):
                            subs = [[y] if not isinstance(y, list) else expand(y, cap) for y in tok]
                            import itertools as _it
                            opts = [[tuple(c)] for c in _it.islice(_it.product(*subs), cap)]
                        else:
                            opts = [[tok]]
                        outs = [o + x for o in outs for x in opts][:cap]
                    return outs
                arms = [(g_, a2) for (g_, a_) in arms for a2 in (expand(a_) if has_alt(a_) else [a_])]
                for guard, arm in arms:
                    try:
                        res = rp.run(arm, [])
                        why = verdict(T, res)
                        if why is None and res and res[0][0] == "const":
                            want = {("if", ("truthy", "v")): True, ("ifnot", ("truthy", "v")): False}.get(guard, None if T == "NoneType" else "?")
                            if type(res[0][1]) is not type(want) or res[0][1] != want:
                                why = f"loads back the constant {res[0][1]!r}"
                    except Mismatch as ex:
                        why, res = str(ex), None
                    if flags == (True, False):
                        ob.site(m, None, f"replay save_{T}{' ' + str(guard) if guard else ''} through the loaders -> v : {T}", result=repr(res)[:160])
                    if why:
                        ob.violation(m, m.node, f"a {T} does not load back as itself (strconfig={flags}): {why}", construct=f"save_{T}: {why[:140]}")

    with ctx.obligation("C01.f", "dict-order", nontrivial=False) as ob:
        if werr is not None:
            raise AnalysisError(str(werr))
        m, term = wt["dict"] if "dict" in wt else (None, [])
        stars = [t for t in term if t[0] == "STAR"]
        ob.require(m is not None and len(stars) == 1, "save_dict loop not found")
        ob.site(m, None, "dict entries written in the dict's own iteration order", iter=stars[0][1])
        if stars[0][1] != "items(v)":
            ob.violation(m, m.node, f"save_dict iterates over {stars[0][1]} instead of the dict's own items(): insertion order is lost", construct=f"iter {stars[0][1]}")

    check_encoder_pure(ctx, "C01.i")
    check_decoder_fresh(ctx, "C01.m")

    # ---- C01.j every int the 4-byte branch accepts is written (the helper's own range guard must not reject any of them)
    with ctx.obligation("C01.j", "accepted-int-total") as ob:
        from ..terms import evaluator as _ev
        fsi = repo.merged(f"{GB}._Serializer._save_integral", [f"{GB}._Serializer._write_int4"])
        evi = _ev(repo, fsi)
        short_p = fsi.params()[2] if len(fsi.params()) > 2 else "short_op"
        n4 = 0
        for (pth, st_) in evi.run(limit=4000):
            wrote_short = any(e.kind == "call" and e.callee == "self._write" and e.args[:1] == (("sym", short_p),) for e in st_.events)
            if not wrote_short:
                continue
            n4 += 1
            end_ = evi.cfg.nodes[pth[-1][0]]
            ob.site(fsi, fsi.node, "4-byte branch: the value is packed, never rejected", end=end_.kind)
            if end_.kind == "raise":
                rs = [e for e in st_.events if e.kind == "raise"]
                ob.violation(fsi, rs[-1].node if rs else fsi.node, "an int inside the 4-byte range chosen by _save_integral is rejected by the range guard of the int4 writer: "
                                                                  "a supported value (the boundary) raises DumpError instead of round-tripping", construct="4-byte branch can raise")
        ob.require(n4 >= 1, "_save_integral: 4-byte branch not found")

    # ---- C01.k codecs are strict: an error handler changes which strings are accepted / what bytes are written
    with ctx.obligation("C01.k", "strict-codecs", nontrivial=False) as ob:
        ncodec = 0
        for cname in ("_Serializer", "Unserializer"):
            for m0 in repo.cls(cname).methods.values():
                m = repo.flat(m0)
                for c in repo.calls_in(m):
                    if callee_attr(c) in ("encode", "decode") and isinstance(c.func, ast.Attribute):
                        ncodec += 1
                        errs = [k for k in c.keywords if k.arg == "errors"] or c.args[1:2]
                        ok = not errs or (isinstance(errs[0].value if isinstance(errs[0], ast.keyword) else errs[0], ast.Constant)
                                          and (errs[0].value if isinstance(errs[0], ast.keyword) else errs[0]).value == "strict")
                        ob.site(m, c, "codec call without a lenient error handler", ok=ok)
                        if not ok:
                            ob.violation(m, c, f"`{norm(c)[:60]}` passes an error handler: strings that must be rejected with DumpError / LoadError are let through "
                                               "(or altered) and the peer's decoder, which is strict, fails on them")
        ob.require(ncodec >= 4, f"{ncodec} encode/decode calls in the serializer (floor 4)")

    # ---- C01.l the reader applies no content test to a payload that the writer does not know about
    with ctx.obligation("C01.l", "reader-no-stricter-than-writer") as ob:
        # a loader may reject a payload because the decoding primitive itself fails (int(), decode(): try/except) -- a separate
        # predicate over the payload bytes (isdigit, startswith, a comparison) rejects strings the writer legitimately emits
        # unless the writer guarantees that predicate; none of the writers does (they emit str(i), encode(...), raw bytes)
        from ..terms import evaluator as _evl, subterms as _subl
        nload = 0
        for lname, m0 in sorted(repo.cls("Unserializer").methods.items()):
            if not lname.startswith("load_"):
                continue
            m = repo.func(m0.qualname)
            nload += 1
            bad = None
            try:
                paths = list(_evl(repo, m).run(limit=4000))
            except AnalysisError:
                continue
            for (pth, st_) in paths:
                rz = [e for e in st_.events if e.kind == "raise"]
                if not rz or any(e.kind == "call" and e.raised and not str(e.callee or "").split(".")[-1][:1].isupper() for e in st_.events):
                    continue   # not a raise of the loader's own, or the conversion of a failed primitive
                payloads = {e.result for e in st_.events if e.kind == "call" and e.result is not None and
                            str(e.callee or e.attr or "").split(".")[-1] in ("_read_byte_string", "_read_exact", "read")}
                for (t, _v) in st_.cond[:rz[-1].ncond]:
                    subs = list(_subl(t))
                    uses_payload = any(x in payloads for x in subs)
                    is_content_test = any(isinstance(x, tuple) and len(x) == 4 and x[0] == "pcall" and isinstance(x[1], tuple) and x[1][:1] == ("meth",) and x[1][1] in payloads for x in subs) \
                        or (t[0] == "cmp" and (t[2] in payloads or t[3] in payloads) and t[1] in ("eq", "ne", "in", "lt", "le"))
                    if uses_payload and is_content_test and bad is None:
                        bad = (rz[-1], t)
            ob.site(m, m.node, f"{lname}: a payload is rejected only when the decoding primitive fails", ok=bad is None)
            if bad is not None:
                from ..terms import show as _shl
                ob.violation(m, bad[0].node, f"{lname} rejects a payload by the content test `{_shl(bad[1])[:80]}`, which is not part of the format: values the writer emits "
                                             "(e.g. the sign of a negative big integer) are refused on load although they were serialised", construct=f"{lname}: content test on payload")
        ob.require(nload >= 15, f"{nload} loaders (floor 15)")

    # ---- C01.h dump-before-send
    with ctx.obligation("C01.h", "dump-before-send") as ob:
        nsend = 0
        for fi in repo.scan_funcs():
            for c in repo.calls_in(fi):
                tg = repo.resolve_call(c, fi)
                if not any(t.qualname == f"{GB}.BaseGateway._send" for t in tg):
                    continue
                nsend += 1
                payload = arg(c, 2, "data")
                ok, how = True, "no payload"
                if payload is not None:
                    src = payload
                    if isinstance(payload, ast.Name):
                        al = repo.local_alias(payload.id, fi)
                        src = al if al is not None else payload
                        if payload.id in fi.params() and fi.short in ("BaseGateway._send",):
                            src = None
                    ok = isinstance(src, ast.Call) and unparse(src.func).split(".")[-1] == "dumps_internal"
                    how = norm(src)[:60] if src is not None else "?"
                ob.site(fi, c, "payload is a completed dumps_internal(...) value", payload=how)
                if not ok:
                    ob.violation(fi, c, "a frame payload is not a completed dumps_internal(...) value: a DumpError could strike after bytes reached the connection")
        ob.require(nsend >= 12, f"{nsend} _send call sites (floor 12)")
        # the streaming serializer form only in public dump()
        for fi in repo.scan_funcs():
            for c in repo.calls_in(fi):
                if isinstance(c.func, ast.Name) and c.func.id == "_Serializer" and (c.args or c.keywords):
                    ob.site(fi, c, "streaming _Serializer(write=...) only in dump()")
                    if fi.short != "dump":
                        ob.violation(fi, c, "a streaming serializer writes straight to a sink outside the public dump(): partial data can reach a connection before DumpError")
        fs = repo.func(f"{GB}.Channel.send")
        cs = build_cfg(repo, fs, Oracle(repo, fs, precise=True))
        sends = cfg_nodes_with_call(cs, lambda c: callee_attr(c) == "_send")
        ob.require(len(sends) == 1, "Channel.send: exactly one _send expected")
        for n in cs.nodes:
            if n.kind == "stmt" and isinstance(n.ast, (ast.Assign, ast.AugAssign)) and n.id in cs.live():
                for t in (n.ast.targets if isinstance(n.ast, ast.Assign) else [n.ast.target]):
                    if isinstance(t, ast.Attribute):
                        ob.violation(fs, n.ast, "Channel.send writes channel/gateway state (the channel would not stay usable after a DumpError)")
