"""C12 Serialized byte format is dump-format v2 (wire terms vs frozen reference)."""

from __future__ import annotations

import ast
import itertools

from .. import ref_format_v2 as ref
from ..cfg import Oracle, build_cfg
from ..index import AnalysisError, FuncInfo, Repo, UNKNOWN, norm, unparse
from ..report import Ctx
from ..util import arg, callee_attr, calls_in_node, cfg_nodes_with_call
from ..wire import ReaderTranslator, WriterTranslator, canon_reader, diff_terms, eval_cfg, normalize_writer
from .C13 import loader_registry

GB = "gateway_base"
P2, P3 = "py2str_as_py3str", "py3str_as_py2str"


def writer_terms(repo: Repo) -> dict[str, tuple[FuncInfo, list]]:
    w = WriterTranslator(repo)
    ci = repo.cls("_Serializer")
    out = {}
    for name, m in sorted(ci.methods.items()):
        if name.startswith("save_"):
            out[name[5:]] = (m, normalize_writer(w.term_of(name)))
    return out


def reader_terms(repo: Repo) -> dict[bytes, tuple[FuncInfo, list]]:
    r = ReaderTranslator(repo)
    return {k: (f, canon_reader(r.term_of(f))) for k, f in loader_registry(repo).items()}


def _ends(e: ast.AST, name: str) -> bool:
    t = unparse(e)
    return t == name or t.endswith("." + name)


def check(ctx: Ctx) -> None:
    repo = ctx.repo
    gb = repo.module(GB)
    ctx.decides = ("the 21 opcode letters, version byte, int4 range and struct formats equal the frozen v2 reference; the "
                   "writer term of every save_* method and the reader term of every registered loader under the four "
                   "string-coercion settings equal the reference grammar; coercion flags keep their positions at every "
                   "pack/unpack site and the documented defaults; the version gate precedes any opcode.")
    ctx.not_decided = "bytes of concrete values are not produced; interpreter versions 3.10-3.13 (no version-dependent construct involved)."
    ctx.trust("sa/ref_format_v2.py (reference grammar written from the format description)", "struct format semantics")

    with ctx.obligation("C12.a", "constants", nontrivial=False) as ob:
        ops = repo.cls("opcode").consts
        ob.site(gb, repo.cls("opcode").node, "opcode table", n=len(ops))
        if ops != ref.OPCODES:
            for k in sorted(set(ops) | set(ref.OPCODES)):
                if ops.get(k) != ref.OPCODES.get(k):
                    ob.violation(gb, repo.cls("opcode").node, f"opcode {k} is {ops.get(k)!r}, dump format v2 says {ref.OPCODES.get(k)!r}",
                                 construct=f"opcode.{k}={ops.get(k)!r}")
        for name, want in (("DUMPFORMAT_VERSION", ref.VERSION), ("FOUR_BYTE_INT_MAX", ref.INT4_MAX),
                           ("FLOAT_FORMAT", ref.FLOAT_FORMAT), ("COMPLEX_FORMAT", ref.COMPLEX_FORMAT)):
            have = gb.consts.get(name, UNKNOWN)
            ob.site(gb, None, f"{name} == {want!r}", have=repr(have))
            if have is UNKNOWN:
                raise AnalysisError(f"C12.a: constant {name} vanished or is not foldable")
            if have != want:
                ob.violation(gb, None, f"{name} is {have!r}, dump format v2 says {want!r}", construct=f"{name}={have!r}")
        vals = list(ops.values())
        if len(set(vals)) != len(vals):
            ob.violation(gb, repo.cls("opcode").node, "two opcodes share one letter", construct="duplicate opcode")

    with ctx.obligation("C12.b", "enc-schema") as ob:
        wt = writer_terms(repo)
        ob.require(len(wt) >= 14, f"{len(wt)} save_* methods (floor 14)")
        for tname, want in ref.WRITER.items():
            if tname not in wt:
                ob.violation(gb, repo.cls("_Serializer").node, f"no save_{tname} method: values of type {tname} are not encodable",
                             construct=f"missing save_{tname}")
                continue
            m, have = wt[tname]
            ob.site(m, None, f"writer term of {tname} == reference", term=repr(have)[:300])
            d = diff_terms(have, want)
            if d:
                ob.violation(m, m.node, f"encoding of {tname} deviates from dump format v2: {d}", construct=f"save_{tname}: {d[:120]}")
        for tname in wt:
            if tname not in ref.WRITER:
                ob.violation(wt[tname][0], wt[tname][0].node, f"save_{tname}: type outside the v2 grammar is encodable", construct=f"extra save_{tname}")

    with ctx.obligation("C12.c", "dec-schema") as ob:
        rt = reader_terms(repo)
        ob.require(len(rt) == 21, f"{len(rt)} registered loaders (floor 21)")
        for a, b in itertools.product((False, True), repeat=2):
            want = ref.reader(a, b)
            for op, wterm in want.items():
                if op not in rt:
                    ob.violation(gb, repo.cls("Unserializer").node, f"opcode {op!r} has no registered loader", construct=f"missing loader {op!r}")
                    continue
                f, term = rt[op]
                have = eval_cfg(term, {P2: a, P3: b})
                if (a, b) == (False, False):
                    ob.site(f, None, f"reader term of {op!r} == reference under 4 coercion settings", term=repr(have)[:200])
                d = diff_terms(have, wterm)
                if d:
                    ob.violation(f, f.node, f"decoding of opcode {op!r} under ({P2}={a}, {P3}={b}) deviates from dump format v2: {d}",
                                 construct=f"{f.name}[{int(a)}{int(b)}]: {d[:120]}")

    with ctx.obligation("C12.d", "strconfig-plumbing") as ob:
        pairs = 0
        for fi in repo.scan_funcs():
            for n in repo.own_nodes(fi):
                if isinstance(n, ast.Tuple) and len(n.elts) == 2 and any(_ends(e, P2) or _ends(e, P3) for e in n.elts):
                    pairs += 1
                    ok = _ends(n.elts[0], P2) and _ends(n.elts[1], P3)
                    ob.site(fi, n, "strconfig pair: position 0 = py2str_as_py3str, 1 = py3str_as_py2str", ok=ok)
                    if not ok:
                        ob.violation(fi, n, "the string-coercion pair is built/unpacked with the two switches in the wrong positions")
                if isinstance(n, ast.Call):
                    for k in n.keywords:
                        if k.arg in (P2, P3):
                            other = P3 if k.arg == P2 else P2
                            if _ends(k.value, other):
                                ob.violation(fi, n, f"keyword {k.arg} receives the value of {other}")
                    # positional passing into a function that has the two parameters
                    for t in repo.resolve_call(n, fi):
                        formals = [a.arg for a in t.node.args.args if a.arg != "self"]
                        for i, a in enumerate(n.args):
                            if i < len(formals) and formals[i] in (P2, P3):
                                other = P3 if formals[i] == P2 else P2
                                if _ends(a, other):
                                    ob.violation(fi, n, f"parameter {formals[i]} receives the value of {other}")
        ob.require(pairs >= 5, f"{pairs} strconfig pair sites (floor 5)")
        # documented defaults
        def defaults(q: str) -> dict[str, object]:
            f = repo.func(q)
            a = f.node.args
            pos = a.posonlyargs + a.args
            ds = [None] * (len(pos) - len(a.defaults)) + list(a.defaults)
            return {p.arg: (repo.fold_in(d, f) if d is not None else UNKNOWN) for p, d in zip(pos, ds)}
        for q, want in ((f"{GB}.loads", ref.DEFAULT_PUBLIC), (f"{GB}.load", ref.DEFAULT_PUBLIC),
                        (f"{GB}.Channel.reconfigure", ref.DEFAULT_CHANNEL), ("gateway.Gateway.reconfigure", ref.DEFAULT_CHANNEL)):
            d = defaults(q)
            have = (d.get(P2), d.get(P3))
            ob.site(repo.func(q), None, f"defaults {have} == {want}")
            if have != want:
                ob.violation(repo.func(q), repo.func(q).node, f"documented default of the coercion switches is {want}, found {have}", construct=f"defaults {have}")
        uc = repo.cls("Unserializer").consts
        have = (uc.get(P2), uc.get(P3))
        ob.site(gb, repo.cls("Unserializer").node, f"Unserializer class defaults {have}")
        if have != ref.DEFAULT_CHANNEL:
            ob.violation(gb, repo.cls("Unserializer").node, f"Unserializer class defaults are {have}, documented {ref.DEFAULT_CHANNEL}", construct=f"class defaults {have}")
        ci = repo.func(f"{GB}.Channel.__init__")
        got = [c for c in repo.calls_in(ci) if isinstance(c.func, ast.Name) and c.func.id == "getattr" and len(c.args) == 3
               and repo.fold_in(c.args[1], ci) == "_strconfig"]
        ob.require(len(got) == 1, "Channel.__init__: getattr(gateway, '_strconfig', default) not found")
        dv = repo.fold_in(got[0].args[2], ci)
        ob.site(ci, got[0], f"channel default strconfig {dv}")
        if dv != ref.DEFAULT_CHANNEL:
            ob.violation(ci, got[0], f"channel default strconfig is {dv}, documented {ref.DEFAULT_CHANNEL}")
        # Unserializer takes the strconfig of the channel/gateway it is given
        ui = repo.func(f"{GB}.Unserializer.__init__")
        from ..terms import cmp_term, evaluator, show, tv
        evu = evaluator(repo, ui)
        ps = ui.params()
        COG, SC = ("sym", ps[2]), ("sym", ps[3])
        ADOPT = ("sym", f"{ps[2]}._strconfig")
        ISNONE = cmp_term("is", COG, ("const", None))
        npaths = nadopt = 0
        for (pth, st) in evu.run(limit=4000):
            if pth[-1][0] != evu.cfg.exit.id:
                continue
            tested = [t for (t, _v) in st.cond if t in (SC, ADOPT)]
            if not tested:
                ob.violation(ui, ui.node, "Unserializer.__init__ does not look at a strconfig at all", construct="no strconfig test")
                continue
            S = tested[-1]
            npaths += 1
            none = st.known.get(ISNONE)
            if none is None and (("pcall", "isinstance", (COG, ("sym", "Channel")), ()), True) in st.cond:
                none = False
            if S == ADOPT:
                nadopt += 1
            ok = (none is False and S == ADOPT) or (none is True and S == SC)
            if nadopt == 1 and S == ADOPT:
                ob.site(ui, ui.node, "the channel's/gateway's *current* strconfig wins whenever one is given", effective=show(S), channel_or_gateway_is_None=none)
            if not ok:
                if none is False:
                    ob.violation(ui, ui.node, "the strconfig of the channel/gateway is adopted only under an extra condition: a snapshot passed explicitly (callback "
                                              "registration time) overrides a later Channel.reconfigure()", construct="adoption conditional")
                else:
                    ob.violation(ui, ui.node, f"Unserializer.__init__ uses {show(S)} as the coercion switches without establishing whether a channel/gateway was given",
                                 construct="strconfig source undecided")
            applied = [e for e in st.events if e.kind == "assign" and e.target in (f"self.{P2}", f"self.{P3}")]
            if st.known.get(S) is True and [(e.target, e.value) for e in applied] != [(f"self.{P2}", ("idx", S, ("const", 0))), (f"self.{P3}", ("idx", S, ("const", 1)))]:
                ob.violation(ui, ui.node, "the effective strconfig pair is not applied to (py2str_as_py3str, py3str_as_py2str) in this order")
        if nadopt == 0:
            ob.violation(ui, ui.node, "Unserializer.__init__ no longer adopts the strconfig of its channel/gateway", construct="no _strconfig adoption")
        # RECONFIGURE handler stores the received pair unmodified
        fr = repo.func(f"{GB}.Message._reconfigure")
        stores = [n for n in repo.own_nodes(fr) if isinstance(n, ast.Assign) and unparse(n.targets[0]).endswith("._strconfig")]
        ob.require(len(stores) == 2, "_reconfigure: two _strconfig stores expected (gateway / channel)")
        src = {unparse(n.value) for n in stores}
        ob.site(fr, stores[0], "RECONFIGURE stores the received pair unmodified", value=sorted(src))
        if len(src) != 1:
            ob.violation(fr, stores[0], "gateway and channel reconfigure store different values")
        # scoping of the switches on the receiving side: the gateway-level pair is written only for channel id 0; every other id
        # configures that channel (created on demand -- the frame may precede the channel's first use or follow its last)
        evr = evaluator(repo, fr)
        mp = fr.params()[0]
        CID = ("sym", f"{mp}.channelid")
        n_gw = n_ch = 0
        for (pth, st) in evr.run(limit=4000):
            known = dict(st.cond)
            zero = tv(cmp_term("eq", CID, ("const", 0)), known)
            for e in st.events:
                if e.kind != "assign" or not str(e.target).endswith("._strconfig"):
                    continue
                if str(e.target) in (f"{fr.params()[1]}._strconfig",):
                    n_gw += 1
                    if zero is not True:
                        ob.violation(fr, e.node, "RECONFIGURE writes the gateway-level coercion switches although the frame names a channel (id != 0 not excluded): a late or "
                                                 "early channel reconfigure changes what every other channel of that side decodes", construct="gateway strconfig for channel id")
                else:
                    n_ch += 1
                    tgt = str(e.target)
                    base = tgt.rsplit(".", 1)[0]
                    if "channelid" not in tgt and base in st.env:
                        # the channel reached through a local: it must be the result of `<factory>.new(<the frame's channel id>)`
                        mk = [c_ for c_ in st.events if c_.kind == "call" and c_.result == st.env[base]]
                        if mk and str(mk[0].callee or "").endswith("_channelfactory.new") and mk[0].args[:1] == (CID,):
                            tgt = f"{mk[0].callee}({mp}.channelid)._strconfig"
                    if zero is not False or "channelid" not in tgt:
                        ob.violation(fr, e.node, "RECONFIGURE for a channel id does not configure exactly that channel", construct="channel strconfig target")
        ob.site(fr, fr.node, "gateway-level switches only for id 0, channel-level for the named id", gateway_stores=n_gw, channel_stores=n_ch)
        ob.require(n_gw >= 1 and n_ch >= 1, f"_reconfigure: stores on paths: gateway {n_gw}, channel {n_ch}")
        # rsync keeps raw bytes/str apart
        fa = repo.func("rsync.RSync.add_target")
        rc = [c for c in repo.calls_in(fa) if callee_attr(c) == "reconfigure"]
        ob.require(len(rc) == 1, "RSync.add_target: channel.reconfigure call not found")
        from ..util import arg as _arg
        rparams = [p_ for p_ in repo.func(f"{GB}.Channel.reconfigure").params() if p_ != "self"]
        kv = {}
        rfn = repo.func(f"{GB}.Channel.reconfigure").node
        rnames = [a_.arg for a_ in rfn.args.posonlyargs + rfn.args.args]
        rdefaults = dict(zip(rnames[len(rnames) - len(rfn.args.defaults):], rfn.args.defaults))
        for nm in (P2, P3):
            a_ = _arg(rc[0], rparams.index(nm) if nm in rparams else None, nm)
            if a_ is None and isinstance(rdefaults.get(nm), ast.Constant):
                kv[nm] = rdefaults[nm].value   # argument omitted: the parameter's literal default applies
            elif a_ is not None:
                kv[nm] = repo.fold_in(a_, fa)
        ob.site(fa, rc[0], "rsync channel coercion (False, False)", kw=kv)
        if (kv.get(P2), kv.get(P3)) != (False, False):
            ob.violation(fa, rc[0], "rsync reconfigures its channel with other coercion switches than (False, False)")

    with ctx.obligation("C12.e", "version-gate") as ob:
        for q, meth in ((f"{GB}.load", "load"), (f"{GB}.dumps", "save"), (f"{GB}.dump", "save")):
            f = repo.func(q)
            cs = [c for c in repo.calls_in(f) if callee_attr(c) == meth and isinstance(c.func, ast.Attribute)]
            ob.require(len(cs) == 1, f"{q}: .{meth}(...) call not found")
            v = arg(cs[0], 1 if meth == "save" else 0, "versioned")
            val = repo.fold_in(v, f) if v is not None else None
            ob.site(f, cs[0], f"public API passes versioned=True", value=val)
            if val is not True:
                ob.violation(f, cs[0], f"{q.split('.')[-1]}() does not use the versioned stream format")
        fl = repo.func(f"{GB}.loads")
        if not [c for c in repo.calls_in(fl) if isinstance(c.func, ast.Name) and c.func.id == "load"]:
            ob.violation(fl, fl.node, "loads() no longer goes through load()", construct="loads-not-via-load")
        for q, meth in ((f"{GB}.loads_internal", "load"), (f"{GB}.dumps_internal", "save")):
            f = repo.func(q)
            cs = [c for c in repo.calls_in(f) if callee_attr(c) == meth and isinstance(c.func, ast.Attribute)]
            ob.require(len(cs) == 1, f"{q}: .{meth}(...) call not found")
            v = arg(cs[0], 1 if meth == "save" else 0, "versioned")
            val = repo.fold_in(v, f) if v is not None else False
            ob.site(f, cs[0], "internal API is unversioned on both sides", value=val)
            if val is not False:
                ob.violation(f, cs[0], "internal (channel) serialization must stay unversioned on both sides")
        ul = repo.func(f"{GB}.Unserializer.load")
        cfg = build_cfg(repo, ul, Oracle(repo, ul, precise=True))
        tests = [n for n in cfg.nodes if n.kind == "test" and "DUMPFORMAT_VERSION" in unparse(n.ast)]
        if not tests:
            ob.violation(ul, ul.node, "Unserializer.load never compares the version byte with DUMPFORMAT_VERSION: foreign-version data is not rejected", construct="no version comparison")
            raise AnalysisError("C12.e: remaining sub-checks need the version comparison")
        t = tests[0]
        neq = isinstance(t.ast, ast.Compare) and isinstance(t.ast.ops[0], ast.NotEq)
        bad = [cfg.nodes[m] for (m, l) in cfg.succ[t.id] if l == ("true" if neq else "false")]
        ok = bad and all(isinstance(x.ast, ast.Raise) and repo.is_subclass_name(unparse(x.ast.exc).split("(")[0], "DataFormatError") for x in bad)
        ob.site(ul, t.ast, "foreign version byte raises a DataFormatError", ok=bool(ok))
        if not ok:
            ob.violation(ul, t.ast, "a foreign version byte is not rejected with a DataFormatError")
        vt = [n for n in cfg.nodes if n.kind == "test" and unparse(n.ast) == "versioned"]
        loops = [n for n in cfg.nodes if n.kind == "test" and isinstance(n.owner, ast.While)]
        ob.require(len(vt) == 1 and len(loops) == 1, "versioned test / dispatch loop not found")
        p = cfg.must_pass([m for (m, l) in cfg.succ[vt[0].id] if l == "true"], [loops[0].id], {t.id})
        if p is not None:
            ob.violation(ul, vt[0].ast, "with versioned=True the dispatch loop is reachable without the version comparison", path=cfg.describe_path(p))
        rd = [c for c in repo.calls_in(ul) if unparse(c.func) == "self.stream.read" and c.lineno <= t.line]
        if not rd or repo.fold_in(rd[0].args[0], ul) != 1:
            ob.violation(ul, t.ast, "the version gate does not read exactly one byte")
        # writer: [version] value STOP
        sv = repo.func(f"{GB}._Serializer.save")
        cs = build_cfg(repo, sv, Oracle(repo, sv, precise=True))
        ver = cfg_nodes_with_call(cs, lambda c: unparse(c.func) == "self._write" and c.args and repo.fold_in(c.args[0], sv) == ref.VERSION)
        body = cfg_nodes_with_call(cs, lambda c: unparse(c.func) == "self._save")
        stop = cfg_nodes_with_call(cs, lambda c: unparse(c.func) == "self._write" and c.args and repo.fold_in(c.args[0], sv) == ref.OPCODES["STOP"])
        ob.require(len(ver) == 1 and len(body) == 1 and len(stop) == 1, "save(): version / value / STOP writes not found exactly once")
        vtest = [n for n in cs.nodes if n.kind == "test" and unparse(n.ast) == "versioned"]
        ob.require(len(vtest) == 1, "save(): versioned test not found")
        ob.site(sv, sv.node, "stream = [version] value STOP in this order")
        p = cs.must_pass([m for (m, l) in cs.succ[vtest[0].id] if l == "true"], [body[0].id], {ver[0].id})
        if p is not None:
            ob.violation(sv, vtest[0].ast, "versioned save can write the value without the version byte first")
        if not cs.dominated_by(stop[0].id, body[0].id):
            ob.violation(sv, stop[0].ast, "STOP is not written after the value")
        if any(l == "false" and cs.dominated_by(ver[0].id, vtest[0].id) is False for (_m, l) in cs.succ[vtest[0].id]):
            pass
        unv = cs.reach([m for (m, l) in cs.succ[vtest[0].id] if l == "false"])
        if ver[0].id in unv and not cs.dominated_by(ver[0].id, vtest[0].id):
            ob.violation(sv, ver[0].ast, "the version byte is also written for unversioned (channel) streams")

    # "one fixed opcode letter per type": what is written for a value depends on its exact type and content, not on the history of the
    # process (no table keyed by equal-comparing values)
    from .C01 import check_encoder_pure
    check_encoder_pure(ctx, "C12.f")
