"""C14 main_thread_only: no false deadlock (DESIGN.md section 3, C14)."""

from __future__ import annotations

import ast

from ..cfg import ANY, Oracle, build_cfg, guard_atoms
from ..index import AnalysisError, UNKNOWN, norm, unparse
from ..report import Ctx
from ..util import (Facts, arg, callee_attr, calls_in_node, cfg_nodes_with_call, feasible_paths, local_aliases,
                    nexpr)

EVT = "_executetask_complete"


def _is_evt_call(c: ast.Call, meth: str) -> bool:
    return callee_attr(c) == meth and isinstance(c.func, ast.Attribute) and unparse(c.func.value).endswith(EVT)


def check(ctx: Ctx) -> None:
    repo = ctx.repo
    ctx.decides = ("C14.a the completion event is set on every exit of executetask; C14.b the event is cleared only "
                   "after a successful positive-timeout wait and the rejection arm only closes the channel; C14.c "
                   "under backend==main_thread_only _try_send_to_primary_thread falls through to a new thread only "
                   "when the event is set and the mailbox is None; C14.d serve() creates the event set.")
    ctx.not_decided = "thread identity / submission order as observed facts; the 1 s timing."
    ctx.trust("threading.Event semantics (set/clear/wait)")

    # ---- C14.a complete-on-all-exits
    fi = repo.func("gateway_base.WorkerGateway.executetask")
    cfg = build_cfg(repo, fi, Oracle(repo, fi))
    with ctx.obligation("C14.a", "complete-on-all-exits") as ob:
        # on value terms along every path (exceptional ones included): the event -- through whatever local it is
        # reached -- is set before the function is left, unless the path has established that there is no event
        from ..terms import NONE as _N0, evaluator as _ev0, tv as _tv0
        ev0 = _ev0(repo, fi, Oracle(repo, fi))
        EVS = ("sym", f"self.{EVT}")
        n_set = 0
        counts = {"return": 0, "raise": 0}
        reported = set()
        for (pth, st) in ev0.run(limit=200000):
            end = pth[-1][0]
            if end not in (cfg.exit.id, cfg.raise_exit.id) and end not in (ev0.cfg.exit.id, ev0.cfg.raise_exit.id):
                continue
            kind = "return" if end == ev0.cfg.exit.id else "raise"
            counts[kind] += 1
            sets = [e for e in st.events if e.kind == "call" and e.attr == "set" and e.recv == EVS]
            n_set += bool(sets)
            # one set per task, after everything the task still tells the peer: _local_schedulexec pairs each accepted task with one
            # clear(); a second, later set() of the finished task goes stale and reads "main thread free" while the next task runs
            if sets:
                k0 = st.events.index(sets[0])
                later = [e for e in st.events[k0 + 1:] if e.kind == "call" and (e.attr in ("close", "_send", "send") or (e in sets[1:]))]
                key2 = ("early", id(sets[0].node))
                if later and key2 not in reported:
                    reported.add(key2)
                    what = "is set again later on the same path" if any(e in sets[1:] for e in later) else f"is followed by `{norm(later[0].node)[:40]}`"
                    ob.violation(fi, sets[0].node, f"{EVT}.set() is not the last thing executetask does for its task: it {what}; the receiver thread may accept the next "
                                                   "remote_exec in between and the event then reads 'main thread free' while that task runs (the deadlock error is never raised)",
                                 construct="completion event set early")
            if sets or _tv0(("cmp", "is", EVS, _N0), dict(st.cond)) is True:
                continue
            last = ev0.cfg.nodes[pth[-2][0]] if len(pth) >= 2 else None
            key = (kind, id(last.ast) if last is not None else 0)
            if key in reported:
                continue
            reported.add(key)
            ob.violation(fi, last.ast if last is not None and last.ast is not None else fi.node,
                         f"an exit of executetask ({kind}) skips {EVT}.set(): a failing or interrupted body "
                         "leaves the event clear and every later remote_exec is answered with the deadlock error",
                         construct=f"exit:{kind} via {norm(last.ast)[:80] if last is not None and last.ast is not None else '?'}",
                         path=ev0.cfg.describe_path(pth))
        ob.require(n_set >= 1, f"no {EVT}.set() in executetask")
        for kind in ("return", "raise"):
            ob.site(fi, fi.node, f"every path ENTRY->{kind.upper()} passes {EVT}.set()", exit=kind, paths=counts[kind])
        ob.require(counts["return"] >= 1, "executetask: no returning path")

    # ---- C14.b clear-after-wait
    fs = repo.func("gateway_base.WorkerGateway._local_schedulexec")
    cfgs = build_cfg(repo, fs, Oracle(repo, fs, precise=True))
    with ctx.obligation("C14.b", "clear-after-wait") as ob:
        from ..terms import const, evaluator, show
        evs = evaluator(repo, fs)
        EV = f"self.{EVT}"
        TEXT = repo.module("gateway_base").consts.get("MAIN_THREAD_ONLY_DEADLOCK_TEXT")
        MT = ("cmp", "eq", ("sym", "self._execpool.execmodel.backend"), const("main_thread_only"))
        nwait = nspawn = nmt = 0
        seen = set()
        fsv = repo.func("gateway_base.WorkerGateway.serve")
        pool_shares_model = any(isinstance(c.func, ast.Name) and c.func.id == "WorkerPool" and c.args and unparse(c.args[0]) == "self.execmodel" for c in repo.calls_in(fsv)) \
            and sum(1 for n_ in ast.walk(repo.cls("WorkerGateway").node) if isinstance(n_, ast.Attribute) and n_.attr == "_execpool" and isinstance(n_.ctx, ast.Store)) == 1
        for (pth, st) in evs.run(limit=4000):
            mt = st.known.get(MT)
            if mt is None and pool_shares_model:
                # the pool is built from the gateway's own execmodel (serve()): self.execmodel is the same object
                mt = st.known.get(("cmp", "eq", ("sym", "self.execmodel.backend"), const("main_thread_only")))
            if mt is None:
                # keyed on the event's presence instead (serve() creates it iff the backend is main_thread_only: C14.d)
                evnone = st.known.get(("cmp", "is", ("sym", EV), ("const", None)))
                mt = None if evnone is None else (not evnone)
            if mt is None:
                if any(e.kind == "call" and e.attr == "spawn" for e in st.events):
                    ob.violation(fs, fs.node, "a task is spawned without testing for the main_thread_only backend")
                continue
            nmt += 1
            calls = [e for e in st.events if e.kind == "call"]
            waits = [e for e in calls if e.callee == f"{EV}.wait"]
            for w in waits:
                nwait += 1
                to = w.arg(0, "timeout")
                val = to[1] if to is not None and to[0] == "const" else None
                if id(w.node) not in seen:
                    seen.add(id(w.node))
                    ob.site(fs, w.node, f"bounded wait timeout={val!r}")
                if not (isinstance(val, (int, float)) and not isinstance(val, bool) and val > 0):
                    ob.violation(fs, w.node, "the wait for the previous task has no positive constant timeout: the deadlock "
                                             "answer can be given although the previous body is just finishing")
            ok_waits = [w for w in waits if st.known.get(w.result) is True]
            failed = [w for w in waits if st.known.get(w.result) is False]
            for c in [e for e in calls if e.callee == f"{EV}.clear"]:
                ok = any(calls.index(w) < calls.index(c) and (w.result, True) in st.cond[:c.ncond] for w in ok_waits)
                ob.site(fs, c.node, "clear() dominated by successful wait", ok=ok)
                if not ok:
                    ob.violation(fs, c.node, "clear() of the completion event is not dominated by a successful wait()")
            if failed and mt is True:
                after = calls[calls.index(failed[0]) + 1:]
                closes = [e for e in after if e.attr == "close" and e.args[:1] == (const(TEXT),)]
                for e in after:
                    if e.attr in ("clear", "set", "spawn", "start"):
                        ob.violation(fs, e.node, f"the deadlock-rejection arm also performs {e.attr}() -- it must leave the running task and the event untouched")
                ob.site(fs, failed[0].node, "rejection arm = close(DEADLOCK_TEXT) only", closes=len(closes))
                if len(closes) != 1:
                    ob.violation(fs, failed[0].node, "the rejection arm does not close the channel with the documented deadlock text exactly once")
            for sp in [e for e in calls if e.attr == "spawn"]:
                nspawn += 1
                if mt is True:
                    cleared = any(e.callee == f"{EV}.clear" and calls.index(e) < calls.index(sp) for e in calls)
                    ob.site(fs, sp.node, "main_thread_only arm: spawn only after clear()", ok=cleared)
                    if not cleared:
                        ob.violation(fs, sp.node, "under main_thread_only a task can be spawned without clearing the completion event",
                                     path=evs.cfg.describe_path(pth))
        if nmt == 0:
            ob.violation(fs, fs.node, "_local_schedulexec does not test for the main_thread_only backend", construct="backend test missing")
        elif nwait == 0 or nspawn == 0:
            ob.violation(fs, fs.node, "the scheduling step does not wait for the previous task before handing over the next one", construct="wait/spawn missing")

    # ---- C14.c main-thread arm of the mailbox
    # spawn and (where it still exists as a function of its own) _try_send_to_primary_thread are analysed as one unit
    ft = repo.merged("gateway_base.WorkerPool.spawn", ["gateway_base.WorkerPool._try_send_to_primary_thread"])
    with ctx.obligation("C14.c", "main-thread-arm") as ob:
        from ..terms import NONE as _NONE, const as _c, evaluator as _ev
        evt = _ev(repo, ft)
        READY = ("sym", "self._primary_thread_task_ready")
        BOX = ("sym", "self._primary_thread_task")
        MTO = ("cmp", "eq", ("sym", "self.execmodel.backend"), _c("main_thread_only"))
        n_false = 0
        for (pth, st) in evt.run(limit=20000):
            if pth[-1][0] != evt.cfg.exit.id:
                continue
            starts = [e for e in st.events if e.kind == "call" and e.callee == "self.execmodel.start"]
            if not starts:
                continue
            cond = st.cond[:starts[0].ncond]
            from ..terms import implies as _implies
            NOREADY = ("cmp", "is", READY, _NONE)
            if _implies(cond, NOREADY) is True:
                continue  # a pool without a primary thread (never the main_thread_only pool)
            if _implies(cond, ("not", MTO)) is True:
                continue  # 'thread' model: overflow into a new thread is intended
            n_false += 1
            issets = [e.result for e in st.events if e.kind == "call" and e.callee == "self._primary_thread_task_ready.is_set"]
            under_mto = list(cond) + [(MTO, True), (NOREADY, False)]
            isset = any(_implies(under_mto, r) is True for r in issets)
            mailbox_none = _implies(under_mto, ("cmp", "is", BOX, _NONE)) is True
            ob.site(ft, starts[0].node, "path starting a new thread while main_thread_only is possible", is_set=isset, mailbox_is_None=mailbox_none,
                    path=evt.cfg.describe_path(pth))
            if not (isset is True and mailbox_none is True):
                ob.violation(ft, starts[0].node,
                             "under main_thread_only a path falls through to a new thread without the condition "
                             "'event set and mailbox is None' (the body would not run in the main thread)",
                             path=evt.cfg.describe_path(pth))
        ob.require(n_false >= 1, "no fall-through path found in spawn / _try_send_to_primary_thread")
        # waiting for the occupant of the mailbox must only wait: Reply.get() would re-raise the previous body's stored
        # exception (an interrupt) in the receiver thread, which takes it for a terminate request and shuts the gateway down
        for pth, st in evt.run(limit=40000):
            for e in st.events:
                if e.kind == "call" and e.recv == BOX and e.attr not in (None, "waitfinish") and e.attr in ("get", "run", "_result", "_exc"):
                    ob.violation(ft, e.node, f"the hand-over waits for the previous task with Reply.{e.attr}(), which re-raises that task's stored exception in the "
                                             "receiver thread: after an interrupted body the next remote_exec takes the gateway down instead of running",
                                 construct=f"mailbox occupant .{e.attr}()")
                    break
        # writer census: who stores None into the mailbox
        writers = []
        for f in repo.scan_funcs():
            for n in repo.own_nodes(f):
                if isinstance(n, ast.Assign):
                    for t in n.targets:
                        if isinstance(t, ast.Attribute) and t.attr == "_primary_thread_task" \
                                and isinstance(n.value, ast.Constant) and n.value.value is None:
                            writers.append((f, n))
        for f, n in writers:
            ob.site(f, n, "mailbox := None writer")
            if f.short != "WorkerPool.trigger_shutdown":
                ob.violation(f, n, "the mailbox is reset to None outside trigger_shutdown: a main_thread_only task "
                                   "could then be started in a fresh thread")

    # ---- C14.d event created set, before the receiver starts
    fv = repo.func("gateway_base.WorkerGateway.serve")
    cfgv = build_cfg(repo, fv, Oracle(repo, fv, precise=True))
    with ctx.obligation("C14.d", "event-initially-set") as ob:
        from ..terms import const as _c, evaluator as _ev
        evv = _ev(repo, fv)
        EVK = f"self.{EVT}"
        ninit = nmt = 0
        for (pth, st) in evv.run(limit=20000):
            calls = [e for e in st.events if e.kind == "call"]
            inits = [e for e in calls if e.callee == "self._initreceive"]
            if not inits:
                continue
            ninit += 1
            mts = [v for (t, v) in st.cond[:inits[0].ncond] if t[0] == "cmp" and t[1] == "eq" and t[3] == _c("main_thread_only")]
            if not mts:
                continue
            stored = [e for e in st.events if e.kind == "assign" and e.target == EVK and st.events.index(e) < st.events.index(inits[0])]
            val = stored[-1].value if stored else None
            if mts[-1] is True:
                nmt += 1
                ok = val is not None and val[0] == "fresh" and any(e.attr == "set" and e.recv == val and calls.index(e) < calls.index(inits[0]) for e in calls)
                ob.site(fv, inits[0].node, "main_thread_only: event created, set() and published before _initreceive()", ok=ok)
                if not ok:
                    ob.violation(fv, inits[0].node, "the completion event is not set before the receiver thread starts: the first "
                                                    "remote_exec would be answered with the deadlock error", path=evv.cfg.describe_path(pth))
            elif val is not None and val != ("const", None):
                ob.violation(fv, inits[0].node, "a completion event is created for an execmodel other than main_thread_only")
        ob.require(ninit >= 1, "_initreceive anchor missing in serve")
        if nmt == 0:
            ob.violation(fv, fv.node, "serve() does not distinguish the main_thread_only backend before starting the receiver", construct="main_thread_only test missing in serve")

    # the hand-over waits for the previous Reply while holding _running_lock: the Reply must complete without needing that lock
    from .C09 import check_reply_completion
    check_reply_completion(ctx, "C14.f")

    with ctx.obligation("C14.e", "completion-needs-no-receiver-lock") as ob:
        # the receiver thread holds _receivelock while it waits (up to 1 s) for the previous task's completion event; everything the
        # finishing task does before it sets that event -- closing its channel -- must therefore not need _receivelock
        fe_ = repo.func("gateway_base.WorkerGateway.executetask")
        onpath = ["gateway_base.Channel.close", "gateway_base.ChannelFactory._no_longer_opened", "gateway_base.BaseGateway._send", "gateway_base.Message.to_io"]
        nfn = 0
        for q in onpath:
            f_ = repo.func(q)
            nfn += 1
            for n_ in repo.own_nodes(f_):
                locks_ = []
                if isinstance(n_, ast.With):
                    locks_ = [unparse(i_.context_expr) for i_ in n_.items]
                elif isinstance(n_, ast.Call) and isinstance(n_.func, ast.Attribute) and n_.func.attr == "acquire":
                    locks_ = [unparse(n_.func.value)]
                for l_ in locks_:
                    if l_.endswith("_receivelock"):
                        ob.violation(f_, n_, f"{f_.short} takes _receivelock, and it runs in the finishing task before _executetask_complete.set(): a remote_exec arriving "
                                             "right after the previous channel closed finds the lock held by the receiver's own 1 s wait, the wait times out and the request "
                                             "is answered with a false deadlock error", construct=f"{f_.short} acquires _receivelock")
            ob.site(f_, f_.node, f"{f_.short} (on the path from the end of the body to the completion event) takes no receiver lock")
        ob.require(nfn == 4, "completion path functions not found")

    with ctx.obligation("C14.g", "accepted-request-is-run") as ob:
        # "a remote_exec issued after the previous channel has closed always runs": the request is accepted by spawn() into the one-slot
        # mailbox while the primary thread may still be between the end of the previous body and its re-check under _running_lock; the loop
        # must neither clear the ready event nor leave while the mailbox holds a reply it has not run (same obligation as C09.d / C11.g)
        from .C09 import check_primary_loop
        check_primary_loop(repo, ob)
