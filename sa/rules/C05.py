"""C05 Group.terminate(timeout) returns promptly and leaves no local child behind."""

from __future__ import annotations

import ast

from ..cfg import Oracle, build_cfg
from ..index import AnalysisError, FuncInfo, Repo, UNKNOWN, norm, unparse
from ..report import Ctx
from ..terms import NONE, Evaluator, const, evaluator, show, subterms
from ..util import Facts, arg, callee_attr, calls_in_node, cfg_nodes_with_call, xtext
from .C20 import check_explicit_id

BLOCKING = {"wait", "get", "waitfinish", "waitall", "join", "receive", "waitclose", "acquire", "readline"}
#: (function, callee) -> reason.  Single named symbols.
EXEMPT = {
    ("WorkerPool._try_send_to_primary_thread", "waitfinish"):
        "only reachable for pools with an integrated primary thread; safe_terminate builds WorkerPool(execmodel) without hasprimary",
}


def derived_from_param(repo: Repo, fi: FuncInfo, e: ast.AST | None, param: str, depth: int = 0) -> bool:
    """the expression is the timeout parameter or a local computed only from it and constants"""
    if e is None or depth > 3:
        return False
    if isinstance(e, ast.Constant):
        return e.value is not None
    names = [n.id for n in ast.walk(e) if isinstance(n, ast.Name)]
    if not names:
        return False
    ok = True
    for n in names:
        if n == param:
            continue
        al = repo.local_alias(n, fi)
        if al is None or not derived_from_param(repo, fi, al, param, depth + 1):
            # enclosing function's parameter (closure of safe_terminate.termkill)
            p = fi.parent
            found = False
            while p is not None:
                if n in p.params() and n == param:
                    found = True
                p = p.parent
            if not found:
                ok = False
    return ok


def term_derived(t, cond, param: str) -> bool:
    """the timeout term is built from the `timeout` parameter and constants only; None only where `timeout is None`"""
    P = ("sym", param)
    if t == P:
        return True
    if t[0] == "const":
        if t[1] is None:
            return (("cmp", "is", P, NONE), True) in cond
        return not isinstance(t[1], bool)
    if t[0] == "bin":
        return term_derived(t[2], cond, param) and term_derived(t[3], cond, param)
    if t[0] == "ite":
        return term_derived(t[2], list(cond) + [(t[1], True)], param) and term_derived(t[3], list(cond) + [(_neg(t[1]), True)] + [(t[1], False)], param)
    return False


def _neg(c):
    return ("not", c)


def all_paths(ev: Evaluator):
    heads = {n.id for n in ev.cfg.nodes if n.kind in ("test", "for") and isinstance(n.owner, (ast.While, ast.For))}
    return ev.run(back_stops=heads, limit=20000)


def call_verdicts(repo: Repo, fi: FuncInfo, oracle=None) -> dict[int, list]:
    """id(ast.Call) -> [(event, state)] over every feasible path of fi (loop bodies included)"""
    out: dict[int, list] = {}
    ev = evaluator(repo, fi, oracle)
    for _path, st in all_paths(ev):
        for e in st.events:
            if e.kind == "call":
                out.setdefault(id(e.node), []).append((e, st))
    return out


def resolve_func(t, defs, repo=None, module: str = "multi"):
    """AST of the local function a term denotes (def name, partial(def, ..), lambda, module-level function)"""
    if t[0] == "func":
        return defs.get(t[1])
    if t[0] == "sym" and repo is not None and repo.has_func(f"{module}.{t[1]}"):
        return repo.func(f"{module}.{t[1]}").node
    if t[0] == "lambda":
        lam = defs.get(t[1])
        # `lambda: f(x)` is partial(f, x): follow it to the local function it wraps
        if isinstance(lam, ast.Lambda) and isinstance(lam.body, ast.Call) and isinstance(lam.body.func, ast.Name):
            inner = defs.get(lam.body.func.id)
            if inner is None and repo is not None and repo.has_func(f"{module}.{lam.body.func.id}"):
                inner = repo.func(f"{module}.{lam.body.func.id}").node
            if inner is not None:
                return inner
        return lam
    if t[0] == "pcall" and t[1] in ("partial", "functools.partial") and t[2]:
        return resolve_func(t[2][0], defs, repo, module)
    return None


def caller_thread_functions(repo: Repo, root: str) -> dict[str, list[str]]:
    """functions executed in the calling thread: closure over *direct* calls only
    (function values handed to spawn/partial run in pool threads)."""
    seen: dict[str, list[str]] = {root: [root.split(".", 1)[1]]}
    work = [root]
    while work:
        q = work.pop()
        fi = repo.func(q)
        for c in repo.calls_in(fi):
            for t in repo.resolve_call(c, fi):
                if t.qualname not in seen:
                    seen[t.qualname] = seen[q] + [t.short]
                    work.append(t.qualname)
    return seen


def check_kill_on_timeout(ctx: Ctx, oid: str) -> None:
    """C05.b (also C16.h): the (terminate, kill) pairs of Group.terminate and the timeout arm of safe_terminate"""
    repo = ctx.repo
    ft = repo.func("multi.Group.terminate")
    fs = repo.func("multi.safe_terminate")
    with ctx.obligation(oid, "kill-on-timeout") as ob:
        # the function safe_terminate runs in the pool for each (term, kill) pair
        evs = evaluator(repo, fs)
        tkq = None
        tkargs: tuple = ()
        for _p, st in all_paths(evs):
            for e in st.calls("spawn"):
                if len(e.args) >= 3 and e.args[0][0] == "func" and repo.has_func(f"multi.safe_terminate.{e.args[0][1]}"):
                    tkq, tkargs = f"multi.safe_terminate.{e.args[0][1]}", e.args[1:]
                elif len(e.args) >= 3 and e.args[0][0] == "sym" and repo.has_func(f"multi.{e.args[0][1]}"):
                    tkq, tkargs = f"multi.{e.args[0][1]}", e.args[1:]   # a module-level function instead of a closure
        ob.require(tkq is not None, "safe_terminate: the per-pair function handed to the pool (spawn(termkill, termfunc, killfunc)) not found")
        tk = repo.func(tkq)
        ob.require(len(tk.params()) == len(tkargs) >= 2, "termkill does not take (.., termfunc, killfunc)")
        termp, killp = tk.params()[-2:]
        # values handed in explicitly instead of being captured: the pool and the timeout
        to_param = next((pn for pn, a in zip(tk.params(), tkargs) if a == ("sym", "timeout")), "timeout")
        evk = evaluator(repo, tk, Oracle(repo, tk, precise=True, call_raises=lambda c, f: [("OSError", True)] if callee_attr(c) == "get" else None))
        nget = ntimeout = 0
        for path, st in all_paths(evk):
            sp = [e for e in st.calls("spawn") if e.args and e.args[0] == ("sym", termp)]
            if len(sp) != 1:
                ob.violation(tk, tk.node, "termkill does not run the terminate function in the pool")
                continue
            gets = [e for e in st.calls("get") if e.recv == sp[0].result]
            if not gets:
                if evk.cfg.nodes[path[-1][0]].kind == "return":
                    ob.violation(tk, tk.node, "termkill does not wait for the terminate function: the kill arm is never reached", construct="no wait for termfunc")
                continue
            g = gets[0]
            nget += 1
            tt = g.arg(0, "timeout")
            if tt is None or not term_derived(tt, st.cond[:g.ncond], to_param):
                ob.violation(tk, g.node, "the wait for the terminate function is not bounded by the timeout: a stuck child is never killed (the kill arm is never reached)")
            if g.raised:
                ntimeout += 1
                after = st.events[st.events.index(g) + 1:]
                ok = any(e.kind == "call" and e.callee == killp for e in after)
                ob.site(tk, g.node, "timeout of the terminate function leads to killfunc()", ok=ok)
                if not ok:
                    ob.violation(tk, g.node, "when the terminate function times out the kill function is not called: a stuck child is never killed")
        ob.require(nget >= 1, "termkill: wait for the terminate function (reply.get) not found")
        if ntimeout == 0:
            ob.violation(tk, tk.node, "when the terminate function times out the kill function is not called: a stuck child is never killed", construct="no killfunc call")
        # the pairs built by Group.terminate
        evt = evaluator(repo, ft)
        found = None
        for _p, st in all_paths(evt):
            for e in st.calls("safe_terminate"):
                found = (e, st)
        ob.require(found is not None, "safe_terminate call not found")
        e, st = found
        if len(e.args) < 2 or e.args[1] != ("sym", "timeout"):
            ob.violation(ft, e.node, "terminate does not pass its timeout to safe_terminate")
        pairs = e.arg(2, "list_of_paired_functions")
        TOJOIN = ("sym", "self._gateways_to_join")
        ob.require(pairs is not None and pairs[0] == "comp" and len(pairs[3]) == 1, "terminate: the list of (terminate, kill) pairs handed to safe_terminate is not a comprehension over the to-join list")
        if pairs[3][0][1] != TOJOIN:
            ob.violation(ft, e.node, "the exited gateways are not handed to safe_terminate")
        elt, defs, where = pairs[2], st.defs, ft
        if elt[0] == "fresh":
            # the pair is built by a helper: follow it
            mk = [x for x in st.events if x.kind == "call" and x.result == elt]
            tgt = repo.resolve_call(mk[0].node, ft) if mk else []
            ob.require(len(tgt) == 1, "terminate: the helper building the (terminate, kill) pair does not resolve")
            where = repo.func(tgt[0].qualname)
            evh = evaluator(repo, where)
            rets = [(st2.ret, st2.defs) for _p2, st2 in all_paths(evh) if st2.ret is not None]
            ob.require(len(rets) == 1, "terminate: pair helper has no single return value")
            elt, defs = rets[0]
        ob.require(elt[0] == "tuple" and len(elt) == 3, "terminate: (terminate, kill) pair not found")
        fj, fk = resolve_func(elt[1], defs, repo), resolve_func(elt[2], defs, repo)
        if (fj is None or fk is None) and where is not ft and where.cls is not None:
            # the pair is made of bound methods of a small job object (`(self.join_wait, self.kill)`)
            def _meth(t_):
                if t_[0] == "sym" and t_[1].startswith("self.") and t_[1].count(".") == 1:
                    m_ = repo.lookup_method(where.cls, t_[1][5:])
                    return repo.func(m_.qualname).node if m_ is not None else None
                return None
            fj, fk = fj or _meth(elt[1]), fk or _meth(elt[2])
        ob.site(where, e.node, "(term, kill) pair", pair=[show(elt[1]), show(elt[2])])
        ob.require(fj is not None and fk is not None, "terminate: the functions of the (terminate, kill) pair do not resolve to local functions")
        # a closure created per element must bind the element *now* (partial, default argument): a lambda/def that merely
        # mentions the loop variable sees its last value when the pool calls it -- every pair would act on one gateway
        for role, t_ in (("terminate", elt[1]), ("kill", elt[2])):
            lam = defs.get(t_[1]) if t_[0] in ("lambda", "func") else None
            if lam is None:
                continue
            loops = [c for c in ast.walk(where.node) if isinstance(c, (ast.ListComp, ast.SetComp, ast.GeneratorExp, ast.For)) and any(x is lam for x in ast.walk(c))]
            targets = {x.id for c in loops for g in (c.generators if not isinstance(c, ast.For) else [c]) for x in ast.walk(g.target) if isinstance(x, ast.Name)}
            a_ = lam.args
            own = {p.arg for p in a_.posonlyargs + a_.args + a_.kwonlyargs} | ({a_.vararg.arg} if a_.vararg else set()) | ({a_.kwarg.arg} if a_.kwarg else set())
            body_nodes = ast.walk(lam.body) if isinstance(lam, ast.Lambda) else (x for b in lam.body for x in ast.walk(b))
            late = sorted({x.id for x in body_nodes if isinstance(x, ast.Name) and isinstance(x.ctx, ast.Load) and x.id in targets and x.id not in own})
            if late:
                ob.violation(where, lam, f"the {role} function of each pair is a closure over the loop variable {late[0]!r} (bound late): when the pool runs the pairs every one of them "
                                         "acts on the *last* gateway -- the others are never joined or killed", construct=f"late-bound {late[0]} in {role} closure")

        def io_calls(fn):
            body = fn.body if isinstance(fn, ast.Lambda) else fn
            return {callee_attr(c) for c in ast.walk(body) if isinstance(c, ast.Call) and isinstance(c.func, ast.Attribute) and (unparse(c.func.value).endswith("._io") or callee_attr(c) == "join")}
        jc, kc = io_calls(fj), io_calls(fk)
        # the receiver thread is joined *before* waiting for the process: for a proxied (via=) member the wait request is
        # served by the forwarder's only receiver thread, which then cannot dispatch the kill request any more
        order = [callee_attr(c) for c in sorted((c for c in ast.walk(fj.body if isinstance(fj, ast.Lambda) else fj) if isinstance(c, ast.Call) and isinstance(c.func, ast.Attribute)
                                                  and (callee_attr(c) == "join" or (callee_attr(c) == "wait" and unparse(c.func.value).endswith("._io")))),
                                                 key=lambda c: (c.lineno, c.col_offset))]
        if "join" in order and "wait" in order and order.index("wait") < order.index("join"):
            ob.violation(where, fj, "join_wait() waits for the process before joining the receiver thread: for a gateway proxied through a via-master the blocking "
                                    "wait request occupies the forwarder, and the kill sent after the timeout never reaches the hung worker")
        if "kill" in jc and "kill" not in kc:
            ob.violation(where, fj, "the (terminate, kill) pair is built in the wrong roles")
        else:
            if "kill" not in kc:
                ob.violation(where, fk, "kill() does not kill the gateway's io/process")
            else:
                # ... on every path: a kill that is skipped under some condition on the gateway (receiver finished, ...) leaves a
                # process behind whose connection is gone but whose interpreter still runs
                kcalls = [c for c in ast.walk(fk.body if isinstance(fk, ast.Lambda) else fk) if isinstance(c, ast.Call) and callee_attr(c) == "kill"]
                for kc_ in kcalls:
                    guards_ = [a for a in repo.ancestors(kc_) if isinstance(a, (ast.If, ast.IfExp, ast.While, ast.Try)) and a is not fk and any(x is kc_ for x in ast.walk(a))
                               and not (isinstance(a, ast.Try) and any(x is kc_ for b in a.body + a.finalbody for x in ast.walk(b)))]
                    guards_ = [g for g in guards_ if any(g is x for x in ast.walk(fk))]
                    if guards_:
                        ob.violation(where, kc_, f"the kill of a member is conditional (`{norm(guards_[0])[:60]}`): when the condition does not hold the member's process is never killed "
                                                 "although terminate() returns", construct="conditional kill")
            if "join" not in jc or "wait" not in jc:
                ob.violation(where, fj, "join_wait() does not join the receiver and wait for the process")
        pk = repo.func("gateway_io.Popen2IOMaster.kill")
        pw = repo.func("gateway_io.Popen2IOMaster.wait")
        ob.site(pk, None, "Popen2IOMaster.kill -> popen.kill(); wait -> popen.wait()")
        for f_, meth, msg in ((pk, "self.popen.kill", "Popen2IOMaster.kill does not kill the subprocess"), (pw, "self.popen.wait", "Popen2IOMaster.wait does not reap the subprocess")):
            evp = evaluator(repo, f_)
            paths = list(all_paths(evp))
            if not paths or not all(any(x.kind == "call" and x.callee == meth for x in st_.events) for _pp, st_ in paths):
                ob.violation(f_, f_.node, msg)



def check(ctx: Ctx) -> None:
    repo = ctx.repo
    ctx.decides = ("on the direct-call graph from Group.terminate every blocking primitive executed in the caller's thread carries a timeout "
                   "derived from the `timeout` parameter (unbounded waits only inside the term/kill functions run by pool threads, or after a "
                   "successful bounded wait on the same object); the timeout arm of termkill calls killfunc, kill reaches Popen.kill, join_wait "
                   "reaches Popen.wait (receiver joined first), each pair binds its own gateway (no late-bound closure); Gateway.exit cannot raise before later members were told to exit; a raising id test dominates every process-creating call of makegateway; via-masters exit last.")
    ctx.not_decided = "what remote interpreters do, real process liveness and timing."
    ctx.assume("A3")
    ft = repo.func("multi.Group.terminate")
    fs = repo.func("multi.safe_terminate")

    with ctx.obligation("C05.a", "bounded-waits") as ob:
        funcs = caller_thread_functions(repo, ft.qualname)
        ob.note(f"{len(funcs)} functions in the caller's thread from Group.terminate")
        ob.require("multi.safe_terminate" in funcs and "gateway.Gateway.exit" in funcs, "terminate no longer reaches Gateway.exit / safe_terminate by direct calls")
        n = 0
        _vc: dict[str, dict] = {}

        def verdicts(f: FuncInfo) -> dict:
            if f.qualname not in _vc:
                _vc[f.qualname] = call_verdicts(repo, f)
            return _vc[f.qualname]
        for q, chain in sorted(funcs.items()):
            fi = repo.func(q)
            for c in repo.calls_in(fi):
                a = callee_attr(c)
                if a not in BLOCKING or not isinstance(c.func, ast.Attribute):
                    continue
                recv = unparse(c.func.value)
                if recv in ("os.environ", "self.__dict__", "options", "kwargs", "d", "self._channels", "self._callbacks") or a == "get" and repo.type_of(c.func.value, fi) in (None,) and recv.endswith(("_channels", "environ")):
                    continue
                if a == "get" and "queue" not in recv.lower() and "reply" not in recv.lower() and "items" not in recv.lower():
                    # dict.get and friends
                    if repo.type_of(c.func.value, fi) not in ("Reply", "FifoQueue"):
                        continue
                if a == "acquire":
                    continue  # A3-like: pool / factory locks are held for bounded, non-blocking sections (C09.b)
                n += 1
                to = arg(c, 0, "timeout")
                if a == "get" and to is not None and c.args and not any(k.arg == "timeout" for k in c.keywords) and repo.type_of(c.func.value, fi) == "FifoQueue":
                    to = arg(c, 1, "timeout")
                param = "timeout"
                bounded = to is not None and not (isinstance(to, ast.Constant) and to.value is None)
                why = "has a timeout" if bounded else None
                seen_ev = verdicts(fi).get(id(c)) if q.startswith("multi.") else None
                if q.startswith("multi.") and seen_ev:
                    # term-based: on every feasible path the timeout argument derives from the parameter
                    bounded = True
                    for (e, st) in seen_ev:
                        tt = e.arg(1 if (a == "get" and repo.type_of(c.func.value, fi) == "FifoQueue") else 0, "timeout")
                        if a == "get" and not e.args and "timeout" not in e.kwargs:
                            tt = None
                        cond = st.cond[:e.ncond]
                        if tt is not None and term_derived(tt, cond, param):
                            continue
                        # completion is monotone: X.get()/X.waitfinish() after a successful bounded X.waitfinish(t)
                        prior = [p for p in st.events if p is not e and p.kind == "call" and p.attr == "waitfinish" and p.recv == e.recv and not p.raised
                                 and st.events.index(p) < st.events.index(e) and p.arg(0, "timeout") is not None and term_derived(p.arg(0, "timeout"), st.cond[:p.ncond], param)]
                        if tt is None and a in ("get", "waitfinish") and prior:
                            why = "follows a successful bounded waitfinish on the same reply"
                            continue
                        bounded = False
                    if bounded and why is None:
                        why = "timeout derived from the parameter"
                elif bounded and q.startswith("multi."):
                    bounded = derived_from_param(repo, fi, to, param)
                    why = "timeout derived from the parameter" if bounded else None
                ex = EXEMPT.get((fi.short, a))
                if ex is None and a == "waitfinish" and fi.short == "WorkerPool.spawn" and xtext(repo, fi, c.func.value) == "self._primary_thread_task":
                    # the same hand-over step, merged into its only caller
                    ex = EXEMPT[("WorkerPool._try_send_to_primary_thread", "waitfinish")]
                if not bounded and ex:
                    # the reason must still hold: safe_terminate builds the pool without a primary thread
                    mk = [x for x in repo.calls_in(fs) if isinstance(x.func, ast.Name) and x.func.id == "WorkerPool"]
                    if len(mk) == 1 and len(mk[0].args) == 1 and not mk[0].keywords:
                        bounded, why = True, "exempt: " + ex
                ob.site(fi, c, f"blocking call in the caller's thread: {norm(c)[:60]}", chain=" -> ".join(chain[-4:]), bounded=why)
                if not bounded:
                    ob.violation(fi, c, f"unbounded blocking call `{norm(c)[:70]}` on the Group.terminate(timeout) path (chain: {' -> '.join(chain)}): "
                                        "terminate can hang far beyond its timeout when the other side does not answer",
                                 construct=f"{fi.short}: {norm(c)[:80]}", chain=chain)
        ob.require(n >= 3, f"{n} blocking calls found on the terminate path (floor 3)")

    check_kill_on_timeout(ctx, "C05.b")

    check_explicit_id(ctx, "C05.c")

    with ctx.obligation("C05.e", "kill-work-is-parallel-and-complete") as ob:
        # (1) every (terminate, kill) pair is handed to the pool before the first reply is waited for: a lazily evaluated
        #     sequence of spawns (generator) would handle the stuck members one after another, n * timeout instead of ~timeout
        sp = [c for c in repo.calls_in(fs) if callee_attr(c) == "spawn"]
        ob.require(len(sp) >= 1, "safe_terminate: spawn of the per-pair worker not found")
        for c in sp:
            lazy = None
            child = c
            for anc in repo.ancestors(c):
                if anc is fs.node:
                    break
                if isinstance(anc, ast.GeneratorExp):
                    par = repo.parent(anc)
                    fname_ = unparse(par.func).split(".")[-1] if isinstance(par, ast.Call) else ""
                    # consumed on the spot by a container constructor / extend
                    eager = isinstance(par, ast.Call) and fname_ in ("list", "tuple", "sorted", "set", "frozenset", "deque", "extend", "extendleft") and par.args[:1] == [anc]
                    if not eager:
                        lazy = anc
                if isinstance(anc, ast.Lambda):
                    lazy = anc
                child = anc
            ob.site(fs, c, "the per-pair workers are all spawned before any is waited for", lazy=lazy is not None)
            if lazy is not None:
                ob.violation(fs, c, "the workers that terminate/kill the members are spawned lazily (generator): each one starts only when the previous member "
                                    "has been waited for, so Group.terminate(timeout) takes about len(group) * timeout with several stuck members",
                             construct="lazy spawn")
        # (2) the gateways that have exited and await joining are forgotten only after they were handed to safe_terminate
        evt2 = evaluator(repo, ft)
        npass = 0
        bad2 = set()
        TOJ = ("sym", "self._gateways_to_join")
        for _p, st in all_paths(evt2):
            evs_ = st.events
            def reads_tojoin(e):
                return any(x == TOJ for a_ in list(e.args) + list(e.kwargs.values()) for x in subterms(a_))
            sts = [i for i, e in enumerate(evs_) if e.kind == "call" and e.callee == "safe_terminate" and reads_tojoin(e)]
            clr = [(i, e) for i, e in enumerate(evs_) if (e.kind in ("store", "del") and e.recv == TOJ) or (e.kind == "call" and e.recv == TOJ and e.attr in ("clear", "pop", "remove"))
                   or (e.kind == "assign" and e.target == "self._gateways_to_join")]
            if sts:
                npass += 1
            for (i, e) in clr:
                # within one pass of the loop: a clear that is followed by a safe_terminate call without an intervening exit() round is premature
                nxt = [j for j in sts if j > i]
                prev = [j for j in sts if j < i]
                if nxt and (not prev) and id(e.node) not in bad2:
                    bad2.add(id(e.node))
                    ob.violation(ft, e.node, "the list of exited gateways is emptied before it was handed to safe_terminate: gateways the user exit()ed before "
                                             "terminate() are never joined, waited for or killed", construct="to-join list cleared before safe_terminate")
        ob.site(ft, ft.node, "exited gateways are forgotten only after safe_terminate handled them", passes=npass, ok=not bad2)
        ob.require(npass >= 1, "terminate: no path calls safe_terminate")

    with ctx.obligation("C05.d", "exit-order") as ob:
        loops = [n for n in repo.own_nodes(ft) if isinstance(n, ast.While)]
        ob.require(any(unparse(l.test) == "self" for l in loops), "terminate: `while self` loop not found")
        evt = evaluator(repo, ft)
        SELF = ("sym", "self")
        exits, adds, clears = [], [], 0
        for _p, st in all_paths(evt):
            for e in st.events:
                if e.kind == "call" and e.attr == "exit" and e.recv is not None and e.recv[0] == "elem":
                    exits.append((e, st))
                elif e.kind == "call" and e.attr == "add":
                    adds.append((e, st))
                elif (e.kind in ("store", "del") and e.recv == ("sym", "self._gateways_to_join")) or (e.kind == "call" and e.callee == "self._gateways_to_join.clear"):
                    clears += 1
        ob.require(len(exits) >= 1, "gw.exit() not found")

        def via_of(member):
            return ("attr", ("attr", member, "spec"), "via") if member[0] != "sym" else ("sym", f"{member[1]}.spec.via")

        def is_via_set(V, st) -> bool:
            if V[0] == "comp" and V[1] in ("set", "gen") and len(V[3]) == 1 and V[3][0][1] == SELF:
                tgt = V[3][0][0]
                return V[2] in (via_of(("bound", tgt)),)
            if V[0] == "pcall" and V[1] in ("set", "frozenset") and len(V[2]) == 1:
                return is_via_set(V[2][0], st)
            if V[0] == "new" and V[2] == "set":
                return any(a.recv == V and a.args and a.args[0][0] in ("attr", "sym") and a.args[0] == via_of(a_st_elem(a, st2)) for (a, st2) in adds)
            return False

        def a_st_elem(a, st2):
            # the loop element the add() argument was read from
            cand = ("sym", "?")
            for x in st2.events:
                if x is a:
                    break
                if x.kind == "assign" and x.value[0] == "elem" and x.value[1] == SELF:
                    cand = x.value
            return cand
        for (e, st) in exits:
            member = e.recv
            ok = member[1] == SELF
            skipped = [t for (t, v) in st.cond[:e.ncond] if v is False and t[0] == "cmp" and t[1] == "in" and t[2] == ("attr", member, "id") and is_via_set(t[3], st)]
            ok = ok and bool(skipped)
            ob.site(ft, e.node, "gateways that are someone's via are skipped until their dependants are gone", ok=ok)
            if not ok:
                collected = any(t[0] == "cmp" and t[1] == "in" and t[2] == ("attr", member, "id") for (t, v) in st.cond[:e.ncond] if v is False)
                if collected:
                    ob.violation(ft, e.node, "the set of via-masters is not collected from the members' specs")
                else:
                    ob.violation(ft, e.node, "a via-master can be told to exit before the gateways proxied through it")
        ge = repo.func("gateway.Gateway.exit")
        un = [c for c in repo.calls_in(ge) if callee_attr(c) == "_unregister"]
        ob.site(ge, un[0] if un else ge.node, "exit() unregisters the gateway from its group")
        if len(un) != 1:
            ob.violation(ge, ge.node, "Gateway.exit does not unregister from the group: `while self` never ends")
        fu = repo.func("multi.Group._unregister")
        cs = {(callee_attr(c), unparse(c.func.value)) for c in repo.calls_in(fu)}
        if cs != {("remove", "self._gateways"), ("append", "self._gateways_to_join")}:
            ob.violation(fu, fu.node, "_unregister does not move the gateway from the member list to the to-join list")
        if not clears:
            ob.violation(ft, ft.node, "the to-join list is not cleared after the join/kill round")
        # exit() must not raise for a connection that is already gone: terminate() would be aborted before the join/kill round.
        # Both the termination frame and the close of the write end sit inside a try that swallows OSError
        from ..cfg import handler_class_names
        for c in repo.calls_in(ge):
            if callee_attr(c) not in ("_send", "close_write"):
                continue
            caught = False
            child = c
            for anc in repo.ancestors(c):
                if anc is ge.node:
                    break
                if isinstance(anc, ast.Try) and any(child is s_ or any(child is y for y in ast.walk(s_)) for s_ in anc.body):
                    for h in anc.handlers:
                        names = handler_class_names(repo, ge, h.type) if h.type is not None else ["BaseException"]
                        if any(n_ in ("OSError", "IOError", "EnvironmentError", "Exception", "BaseException") for n_ in names) \
                                and not any(isinstance(x, ast.Raise) for x in ast.walk(h)):
                            caught = True
                child = anc
            ob.site(ge, c, f"exit(): {callee_attr(c)} cannot raise out of exit()", swallowed=caught)
            if not caught:
                ob.violation(ge, c, f"Gateway.exit lets an OSError of `{norm(c)[:50]}` escape: Group.terminate(timeout) is aborted by a peer that is already gone "
                                    "and the remaining members are neither joined nor killed")
        # exit(): termination message then close_write, errors swallowed
        names = [callee_attr(c) for c in repo.calls_in(ge)]
        consts = repo.cls("Message").consts
        snd = [c for c in repo.calls_in(ge) if callee_attr(c) == "_send"]
        if len(snd) != 1 or repo.fold_in(snd[0].args[0], ge) != consts["GATEWAY_TERMINATE"] or "close_write" not in names:
            ob.violation(ge, ge.node, "Gateway.exit does not send GATEWAY_TERMINATE followed by close_write")

    # "every sub process it started is gone": terminate() only knows the members of the group.  A gateway whose process exists must be
    # registered before anything else in makegateway can fail (the remote chdir/nice/env step can: ValueError, RemoteError).
    with ctx.obligation("C05.f", "started-gateway-registered-first") as ob:
        fm = repo.func("multi.Group.makegateway")
        cfgm = build_cfg(repo, fm, Oracle(repo, fm, precise=True))
        boots = cfg_nodes_with_call(cfgm, lambda c: callee_attr(c) == "bootstrap")
        regs = cfg_nodes_with_call(cfgm, lambda c: callee_attr(c) == "_register" or (callee_attr(c) == "append" and "_gateways" in unparse(c.func)))
        ob.require(len(boots) >= 1 and len(regs) >= 1, f"makegateway: bootstrap sites {len(boots)} (floor 1) / registration {len(regs)} (floor 1)")
        regids = {r.id for r in regs}
        for b in boots:
            # everything that can run after the process exists and before the registration: must not be able to fail or leave
            seen_, work, bad = set(), [m for (m, lab) in cfgm.succ[b.id] if not str(lab).startswith("exc")], None
            while work and bad is None:
                nid = work.pop()
                if nid in seen_ or nid in regids:
                    continue
                seen_.add(nid)
                node = cfgm.nodes[nid]
                if nid in (cfgm.exit.id, cfgm.raise_exit.id) or isinstance(node.ast, (ast.Return, ast.Raise)):
                    bad = (node, "leaves")
                    break
                own = node.ast.test if isinstance(node.ast, (ast.If, ast.While)) else node.ast
                # (trace calls are contained: BaseGateway._trace / Group._trace swallow what their sink raises -- C11.j)
                if own is not None and any((isinstance(x, ast.Call) and callee_attr(x) not in ("_trace", "trace")) or isinstance(x, (ast.Subscript, ast.Await)) for x in ast.walk(own)):
                    bad = (node, "can raise")
                    break
                work.extend(m for (m, _lab) in cfgm.succ[nid])
            ob.site(fm, b.ast, "a bootstrapped gateway is registered with the group before anything else in makegateway can fail", ok=bad is None)
            if bad is not None:
                ob.violation(fm, bad[0].ast if bad[0].ast is not None else b.ast,
                             f"after the worker process was started makegateway {bad[1]} (`{unparse(bad[0].ast)[:50] if bad[0].ast is not None else 'exit'}`) before the gateway is "
                             "registered: on failure Group.terminate() never sees it and the process stays alive", construct="failure point before _register")
