"""C05 Group.terminate(timeout) returns promptly and leaves no local child behind."""

from __future__ import annotations

import ast

from ..cfg import Oracle, build_cfg
from ..index import AnalysisError, FuncInfo, Repo, UNKNOWN, norm, unparse
from ..report import Ctx
from ..util import Facts, arg, callee_attr, calls_in_node, cfg_nodes_with_call
from .C20 import check_explicit_id

BLOCKING = {"wait", "get", "waitfinish", "waitall", "join", "receive", "waitclose", "acquire", "readline"}
#: (function, callee) -> reason.  Single named symbols.
EXEMPT = {
    ("WorkerPool._try_send_to_primary_thread", "waitfinish"):
        "only reachable for pools with an integrated primary thread; safe_terminate builds WorkerPool(execmodel) without hasprimary",
}


def derived_from_param(repo: Repo, fi: FuncInfo, e: ast.AST | None, param: str, depth: int = 0) -> bool:
    """the expression is the timeout parameter or a local computed only from it and constants"""
    if e is None or depth > 3:
        return False
    if isinstance(e, ast.Constant):
        return e.value is not None
    names = [n.id for n in ast.walk(e) if isinstance(n, ast.Name)]
    if not names:
        return False
    ok = True
    for n in names:
        if n == param:
            continue
        al = repo.local_alias(n, fi)
        if al is None or not derived_from_param(repo, fi, al, param, depth + 1):
            # enclosing function's parameter (closure of safe_terminate.termkill)
            p = fi.parent
            found = False
            while p is not None:
                if n in p.params() and n == param:
                    found = True
                p = p.parent
            if not found:
                ok = False
    return ok


def caller_thread_functions(repo: Repo, root: str) -> dict[str, list[str]]:
    """functions executed in the calling thread: closure over *direct* calls only
    (function values handed to spawn/partial run in pool threads)."""
    seen: dict[str, list[str]] = {root: [root.split(".", 1)[1]]}
    work = [root]
    while work:
        q = work.pop()
        fi = repo.funcs[q]
        for c in repo.calls_in(fi):
            for t in repo.resolve_call(c, fi):
                if t.qualname not in seen:
                    seen[t.qualname] = seen[q] + [t.short]
                    work.append(t.qualname)
    return seen


def check(ctx: Ctx) -> None:
    repo = ctx.repo
    ctx.decides = ("on the direct-call graph from Group.terminate every blocking primitive executed in the caller's thread carries a timeout "
                   "derived from the `timeout` parameter (unbounded waits only inside the term/kill functions run by pool threads, or after a "
                   "successful bounded wait on the same object); the timeout arm of termkill calls killfunc, kill reaches Popen.kill, join_wait "
                   "reaches Popen.wait; a raising id test dominates every process-creating call of makegateway; via-masters exit last.")
    ctx.not_decided = "what remote interpreters do, real process liveness and timing."
    ctx.assume("A3")
    ft = repo.func("multi.Group.terminate")
    fs = repo.func("multi.safe_terminate")

    with ctx.obligation("C05.a", "bounded-waits") as ob:
        funcs = caller_thread_functions(repo, ft.qualname)
        ob.note(f"{len(funcs)} functions in the caller's thread from Group.terminate")
        ob.require("multi.safe_terminate" in funcs and "gateway.Gateway.exit" in funcs, "terminate no longer reaches Gateway.exit / safe_terminate by direct calls")
        n = 0
        for q, chain in sorted(funcs.items()):
            fi = repo.funcs[q]
            for c in repo.calls_in(fi):
                a = callee_attr(c)
                if a not in BLOCKING or not isinstance(c.func, ast.Attribute):
                    continue
                recv = unparse(c.func.value)
                if recv in ("os.environ", "self.__dict__", "options", "kwargs", "d", "self._channels", "self._callbacks") or a == "get" and repo.type_of(c.func.value, fi) in (None,) and recv.endswith(("_channels", "environ")):
                    continue
                if a == "get" and "queue" not in recv.lower() and "reply" not in recv.lower() and "items" not in recv.lower():
                    # dict.get and friends
                    if repo.type_of(c.func.value, fi) not in ("Reply", "FifoQueue"):
                        continue
                if a == "acquire":
                    continue  # A3-like: pool / factory locks are held for bounded, non-blocking sections (C09.b)
                n += 1
                to = arg(c, 0, "timeout")
                if a == "get" and to is not None and c.args and not any(k.arg == "timeout" for k in c.keywords) and repo.type_of(c.func.value, fi) == "FifoQueue":
                    to = arg(c, 1, "timeout")
                param = "timeout"
                bounded = to is not None and not (isinstance(to, ast.Constant) and to.value is None)
                if bounded and q.startswith("multi."):
                    bounded = derived_from_param(repo, fi, to, param)
                why = "timeout derived from the parameter" if bounded else None
                if not bounded and a in ("get", "waitfinish") and not c.args and not c.keywords:
                    # completion is monotone: X.get() after a successful bounded X.waitfinish(t)
                    for prev in repo.calls_in(fi):
                        if prev.lineno < c.lineno and callee_attr(prev) == "waitfinish" and unparse(prev.func.value) == recv and (prev.args or prev.keywords):
                            tr = next((x for x in repo.ancestors(prev) if isinstance(x, ast.Try)), None)
                            if tr is not None and any("OSError" in unparse(h.type) and isinstance(h.body[-1], (ast.Continue, ast.Return, ast.Raise)) for h in tr.handlers if h.type is not None) \
                                    and not any(x is tr for x in repo.ancestors(c)):
                                bounded, why = True, "follows a successful bounded waitfinish on the same reply"
                ex = EXEMPT.get((fi.short, a))
                if not bounded and ex:
                    # the reason must still hold: safe_terminate builds the pool without a primary thread
                    mk = [x for x in repo.calls_in(fs) if isinstance(x.func, ast.Name) and x.func.id == "WorkerPool"]
                    if len(mk) == 1 and len(mk[0].args) == 1 and not mk[0].keywords:
                        bounded, why = True, "exempt: " + ex
                ob.site(fi, c, f"blocking call in the caller's thread: {norm(c)[:60]}", chain=" -> ".join(chain[-4:]), bounded=why)
                if not bounded:
                    ob.violation(fi, c, f"unbounded blocking call `{norm(c)[:70]}` on the Group.terminate(timeout) path (chain: {' -> '.join(chain)}): "
                                        "terminate can hang far beyond its timeout when the other side does not answer",
                                 construct=f"{fi.short}: {norm(c)[:80]}", chain=chain)
        ob.require(n >= 3, f"{n} blocking calls found on the terminate path (floor 3)")

    with ctx.obligation("C05.b", "kill-on-timeout") as ob:
        tk = repo.func("multi.safe_terminate.termkill")
        cfg = build_cfg(repo, tk, Oracle(repo, tk, precise=True, call_raises=lambda c, f: [("OSError", True)] if callee_attr(c) == "get" else None))
        gets = cfg_nodes_with_call(cfg, lambda c: callee_attr(c) == "get")
        kills = cfg_nodes_with_call(cfg, lambda c: isinstance(c.func, ast.Name) and c.func.id == tk.params()[1])
        ob.require(len(gets) == 1, "termkill: wait for the terminate function (reply.get) not found")
        gc = [c for c in calls_in_node(gets[0]) if callee_attr(c) == "get"][0]
        to = arg(gc, 0, "timeout")
        if to is None or not derived_from_param(repo, tk, to, "timeout"):
            ob.violation(tk, gc, "the wait for the terminate function is not bounded by the timeout: a stuck child is never killed (the kill arm is never reached)")
        if not kills:
            ob.violation(tk, gets[0].ast, "when the terminate function times out the kill function is not called: a stuck child is never killed", construct="no killfunc call")
        exc_succ = [m for (m, l) in cfg.succ[gets[0].id] if l.startswith("exc:")]
        p = cfg.must_pass(exc_succ, [cfg.exit.id, cfg.raise_exit.id], {k.id for k in kills})
        ob.site(tk, gets[0].ast, "timeout of the terminate function leads to killfunc()")
        if kills and (p is not None or not exc_succ):
            ob.violation(tk, gets[0].ast, "when the terminate function times out the kill function is not called: a stuck child is never killed")
        sp = [c for c in repo.calls_in(tk) if callee_attr(c) == "spawn" and c.args and unparse(c.args[0]) == tk.params()[0]]
        if len(sp) != 1:
            ob.violation(tk, tk.node, "termkill does not run the terminate function in the pool")
        # the pairs built by Group.terminate
        pairs = [n for n in ast.walk(ft.node) if isinstance(n, ast.Tuple) and len(n.elts) == 2 and all(isinstance(e, ast.Call) and unparse(e.func) == "partial" for e in n.elts)]
        ob.require(len(pairs) == 1, "terminate: (partial(join_wait, gw), partial(kill, gw)) not found")
        names = [unparse(e.args[0]) for e in pairs[0].elts]
        ob.site(ft, pairs[0], "(term, kill) pair", pair=names)
        fk = repo.func("multi.Group.terminate.kill")
        fj = repo.func("multi.Group.terminate.join_wait")
        if names != ["join_wait", "kill"]:
            ob.violation(ft, pairs[0], "the (terminate, kill) pair is built in the wrong roles")
        if not any(callee_attr(c) == "kill" and unparse(c.func.value).endswith("._io") for c in repo.calls_in(fk)):
            ob.violation(fk, fk.node, "kill() does not kill the gateway's io/process")
        jc = [callee_attr(c) for c in repo.calls_in(fj)]
        if "join" not in jc or "wait" not in jc:
            ob.violation(fj, fj.node, "join_wait() does not join the receiver and wait for the process")
        pk = repo.func("gateway_io.Popen2IOMaster.kill")
        pw = repo.func("gateway_io.Popen2IOMaster.wait")
        ob.site(pk, None, "Popen2IOMaster.kill -> popen.kill(); wait -> popen.wait()")
        if not any(unparse(c.func) == "self.popen.kill" for c in repo.calls_in(pk)):
            ob.violation(pk, pk.node, "Popen2IOMaster.kill does not kill the subprocess")
        if not any(unparse(c.func) == "self.popen.wait" for c in repo.calls_in(pw)):
            ob.violation(pw, pw.node, "Popen2IOMaster.wait does not reap the subprocess")
        # safe_terminate receives the timeout and the to-join list
        stc = [c for c in repo.calls_in(ft) if isinstance(c.func, ast.Name) and c.func.id == "safe_terminate"]
        ob.require(len(stc) == 1, "safe_terminate call not found")
        if len(stc[0].args) < 2 or unparse(stc[0].args[1]) != "timeout":
            ob.violation(ft, stc[0], "terminate does not pass its timeout to safe_terminate")
        if "self._gateways_to_join" not in unparse(stc[0]):
            ob.violation(ft, stc[0], "the exited gateways are not handed to safe_terminate")

    check_explicit_id(ctx, "C05.c")

    with ctx.obligation("C05.d", "exit-order") as ob:
        loops = [n for n in repo.own_nodes(ft) if isinstance(n, ast.While)]
        ob.require(len(loops) == 1 and unparse(loops[0].test) == "self", "terminate: `while self` loop not found")
        cfg = build_cfg(repo, ft, Oracle(repo, ft, precise=True))
        exits = cfg_nodes_with_call(cfg, lambda c: callee_attr(c) == "exit")
        ob.require(len(exits) == 1, "gw.exit() not found")
        f = Facts(repo, ft, {})
        for (t, lab) in cfg.guards(exits[0].id):
            if t.kind == "test":
                f.assume(t.ast, lab == "true")
        ok = f.get("gw.id in vias") is False
        ob.site(ft, exits[0].ast, "gateways that are someone's via are skipped until their dependants are gone", ok=ok)
        if not ok:
            ob.violation(ft, exits[0].ast, "a via-master can be told to exit before the gateways proxied through it")
        adds = [c for c in repo.calls_in(ft) if callee_attr(c) == "add" and unparse(c.func.value) == "vias"]
        if len(adds) != 1 or unparse(adds[0].args[0]) != "gw.spec.via":
            ob.violation(ft, ft.node, "the set of via-masters is not collected from the members' specs")
        ge = repo.func("gateway.Gateway.exit")
        un = [c for c in repo.calls_in(ge) if callee_attr(c) == "_unregister"]
        ob.site(ge, un[0] if un else ge.node, "exit() unregisters the gateway from its group")
        if len(un) != 1:
            ob.violation(ge, ge.node, "Gateway.exit does not unregister from the group: `while self` never ends")
        fu = repo.func("multi.Group._unregister")
        cs = {(callee_attr(c), unparse(c.func.value)) for c in repo.calls_in(fu)}
        if cs != {("remove", "self._gateways"), ("append", "self._gateways_to_join")}:
            ob.violation(fu, fu.node, "_unregister does not move the gateway from the member list to the to-join list")
        cl = [n for n in repo.own_nodes(ft) if isinstance(n, ast.Assign) and "self._gateways_to_join" in unparse(n.targets[0])]
        if not cl:
            ob.violation(ft, ft.node, "the to-join list is not cleared after the join/kill round")
        # exit(): termination message then close_write, errors swallowed
        names = [callee_attr(c) for c in repo.calls_in(ge)]
        consts = repo.cls("Message").consts
        snd = [c for c in repo.calls_in(ge) if callee_attr(c) == "_send"]
        if len(snd) != 1 or repo.fold_in(snd[0].args[0], ge) != consts["GATEWAY_TERMINATE"] or "close_write" not in names:
            ob.violation(ge, ge.node, "Gateway.exit does not send GATEWAY_TERMINATE followed by close_write")
