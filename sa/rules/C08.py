"""C08 Message frames survive any chunking and never interleave on the wire."""

from __future__ import annotations

import ast
import struct

from .. import ref_format_v2 as ref
from ..cfg import Oracle, build_cfg
from ..index import AnalysisError, FuncInfo, Repo, UNKNOWN, norm, unparse
from ..report import Ctx, Obligation
from ..util import callee_attr, calls_in_node, cfg_nodes_with_call, lexical_locks, lock_identity

GB = "gateway_base"


def check_exact_read(repo: Repo, ob: Obligation, fi: FuncInfo) -> None:
    """accumulate-until-n loop: returns only when len(buf) >= n, requests at most
    n - len(buf), appends in order, EOFError on an empty chunk."""
    params = [p for p in fi.params() if p != "self"]
    ob.require(len(params) == 1, f"{fi.short}: one size parameter expected")
    n = params[0]
    loops = [x for x in repo.own_nodes(fi) if isinstance(x, ast.While)]
    ob.site(fi, loops[0] if loops else fi.node, "exact-read loop", size_param=n)
    if len(loops) != 1:
        ob.violation(fi, fi.node, "IO.read is not a read-until-n loop: a short low-level read would truncate or split a frame", construct="no accumulate loop")
        return
    lp = loops[0]
    t = lp.test
    buf = None
    if isinstance(t, ast.Compare) and len(t.ops) == 1:
        l, r, op = unparse(t.left), unparse(t.comparators[0]), t.ops[0]
        if l.startswith("len(") and r == n and isinstance(op, ast.Lt):
            buf = l[4:-1]
        elif r.startswith("len(") and l == n and isinstance(op, ast.Gt):
            buf = r[4:-1]
    if buf is None:
        ob.violation(fi, lp, f"loop condition `{norm(t)}` is not `len(buf) < {n}`: the read may return early or over-read")
        return
    # buffer initialised empty
    inits = [x for x in fi.node.body if isinstance(x, ast.Assign) and unparse(x.targets[0]) == buf]
    if not inits or repo.fold_in(inits[0].value, fi) not in (b"", ""):
        ob.violation(fi, inits[0] if inits else fi.node, "accumulation buffer is not initialised empty")
    # one primitive read per iteration requesting n - len(buf)
    reads = [c for s in lp.body for c in ast.walk(s) if isinstance(c, ast.Call) and callee_attr(c) in ("_read", "recv", "read")]
    if len(reads) != 1:
        ob.violation(fi, lp, "not exactly one low-level read per iteration")
        return
    rd = reads[0]
    want = f"{n} - len({buf})"
    if len(rd.args) != 1 or unparse(rd.args[0]) != want:
        ob.violation(fi, rd, f"the low-level read requests `{norm(rd.args[0]) if rd.args else ''}` instead of `{want}`: bytes of the next frame could be consumed")
    asg = repo.parent(rd)
    if not (isinstance(asg, ast.Assign) and isinstance(asg.targets[0], ast.Name)):
        ob.violation(fi, rd, "chunk is not bound to a local")
        return
    chunk = asg.targets[0].id
    # empty chunk -> EOFError
    eof = [s for s in lp.body if isinstance(s, ast.If) and unparse(s.test) == f"not {chunk}" and s.body and isinstance(s.body[-1], ast.Raise)
           and unparse(s.body[-1].exc).split("(")[0] == "EOFError"]
    if not eof:
        ob.violation(fi, lp, "an empty chunk (peer closed) does not raise EOFError: the loop would spin or return short data")
    # append order
    app = [s for s in lp.body if (isinstance(s, ast.AugAssign) and isinstance(s.op, ast.Add) and unparse(s.target) == buf and unparse(s.value) == chunk)
           or (isinstance(s, ast.Assign) and unparse(s.targets[0]) == buf and unparse(s.value) == f"{buf} + {chunk}")]
    if len(app) != 1:
        ob.violation(fi, lp, f"chunks are not appended in arrival order (`{buf} += {chunk}`)")
    elif eof and lp.body.index(eof[0]) > lp.body.index(app[0]):
        pass
    # return the buffer after the loop only
    rets = [x for x in repo.own_nodes(fi) if isinstance(x, ast.Return)]
    if len(rets) != 1 or unparse(rets[0].value) != buf or any(r in list(ast.walk(lp)) for r in rets):
        ob.violation(fi, rets[0] if rets else fi.node, "the read does not return exactly the accumulated buffer after the loop")
    for s in lp.body:
        for x in ast.walk(s):
            if isinstance(x, (ast.Break, ast.Return)):
                ob.violation(fi, x, "the accumulate loop can be left before n bytes arrived")


def check(ctx: Ctx) -> None:
    repo = ctx.repo
    ctx.decides = ("header format and field roles agree between Message.to_io and from_io; one write per frame containing header "
                   "and payload; every IO.read is an exact accumulate-until-n loop; every IO.write is atomic w.r.t. concurrent "
                   "senders (single buffered write+flush, lock region, or delegation to Channel.send); the proxy re-emits frames unmodified.")
    ctx.not_decided = "actual chunkings and thread interleavings (follow from the shape plus the OS byte-stream axiom)."
    ctx.trust("io.BufferedWriter.write serialises concurrent callers", "OS pipes/sockets are ordered byte streams")
    ctx.assume("A2", "A5")
    f_to = repo.func(f"{GB}.Message.to_io")
    f_from = repo.func(f"{GB}.Message.from_io")
    f_init = repo.func(f"{GB}.Message.__init__")
    fields = [p for p in f_init.params() if p != "self"]

    with ctx.obligation("C08.a", "header-agreement") as ob:
        packs = [c for c in repo.calls_in(f_to) if unparse(c.func) == "struct.pack"]
        unpacks = [c for c in repo.calls_in(f_from) if unparse(c.func) == "struct.unpack"]
        ob.require(len(packs) == 1 and len(unpacks) == 1, "pack/unpack of the frame header not found")
        fp, fu = repo.fold_in(packs[0].args[0], f_to), repo.fold_in(unpacks[0].args[0], f_from)
        ob.site(f_to, packs[0], "header format", writer=fp, reader=fu, reference=ref.HEADER_FORMAT)
        if fp != fu:
            ob.violation(f_from, unpacks[0], f"header format differs: writer {fp!r}, reader {fu!r}")
        if fp != ref.HEADER_FORMAT:
            ob.violation(f_to, packs[0], f"header format {fp!r} is not the wire format {ref.HEADER_FORMAT!r} (type 1, channel 4, payload length 4, big-endian)")
        want = [f"self.{fields[0]}", f"self.{fields[1]}", f"len(self.{fields[2]})"] if len(fields) == 3 else []
        have = [unparse(a) for a in packs[0].args[1:]]
        if have != want:
            ob.violation(f_to, packs[0], f"header fields packed as {have}, expected {want}")
        reads = [c for c in repo.calls_in(f_from) if callee_attr(c) == "read"]
        ob.require(len(reads) == 2, "from_io: two reads (header, payload) expected")
        hsize = repo.fold_in(reads[0].args[0], f_from)
        ob.site(f_from, reads[0], "header read size == calcsize(format)", size=hsize)
        if isinstance(fu, str) and hsize != struct.calcsize(fu):
            ob.violation(f_from, reads[0], f"header read of {hsize} bytes != calcsize({fu!r}) = {struct.calcsize(fu)}")
        asg = repo.parent(unpacks[0])
        if isinstance(asg, ast.Assign) and isinstance(asg.targets[0], ast.Tuple) and len(asg.targets[0].elts) == 3:
            a, b, c = [unparse(x) for x in asg.targets[0].elts]
            ctor = [x for x in repo.calls_in(f_from) if isinstance(x.func, ast.Name) and x.func.id == "Message"]
            ob.require(len(ctor) == 1, "from_io: Message(...) construction not found")
            args = [unparse(x) for x in ctor[0].args]
            ob.site(f_from, ctor[0], "unpacked fields reach Message() in their roles", args=args)
            if len(args) != 3 or args[0] != a or args[1] != b or not (isinstance(ctor[0].args[2], ast.Call) and callee_attr(ctor[0].args[2]) == "read"
                                                                     and unparse(ctor[0].args[2].args[0]) == c):
                ob.violation(f_from, ctor[0], f"unpacked header fields ({a}, {b}, {c}) do not reach Message(msgcode, channelid, read(length)) in their roles")
        else:
            ob.violation(f_from, unpacks[0], "header is not unpacked into three fields")
        # empty header -> EOFError
        hvar = unparse(repo.parent(reads[0]).targets[0]) if isinstance(repo.parent(reads[0]), ast.Assign) else None
        eof = [s for s in repo.own_nodes(f_from) if isinstance(s, ast.If) and hvar and unparse(s.test) == f"not {hvar}"
               and isinstance(s.body[-1], ast.Raise) and unparse(s.body[-1].exc).startswith("EOFError")]
        ob.site(f_from, eof[0] if eof else f_from.node, "empty header read raises EOFError", ok=bool(eof))
        if not eof:
            ob.violation(f_from, f_from.node, "an empty header read does not raise EOFError", construct="no empty-header EOF")

    with ctx.obligation("C08.b", "single-write") as ob:
        cfg = build_cfg(repo, f_to, Oracle(repo, f_to, precise=True))
        n = 0
        for path in cfg.paths(cfg.entry.id):
            if path[-1][0] != cfg.exit.id:
                continue
            n += 1
            ws = [c for nid, _ in path for c in (calls_in_node(cfg.nodes[nid]) if cfg.nodes[nid].ast is not None else []) if callee_attr(c) == "write"]
            ob.site(f_to, ws[0] if ws else f_to.node, "one io.write per frame with header + payload", writes=len(ws))
            if len(ws) != 1:
                ob.violation(f_to, f_to.node, f"a frame is written with {len(ws)} write calls: concurrent senders could interleave header and payload", construct=f"{len(ws)} writes")
                continue
            a = unparse(ws[0].args[0]) if ws[0].args else ""
            names = {x.id for x in ast.walk(ws[0]) if isinstance(x, ast.Name)} | {unparse(x) for x in ast.walk(ws[0]) if isinstance(x, ast.Attribute)}
            hdr = [unparse(repo.parent(c).targets[0]) for c in repo.calls_in(f_to) if unparse(c.func) == "struct.pack" and isinstance(repo.parent(c), ast.Assign)]
            if not (hdr and hdr[0] in names and f"self.{fields[2]}" in names and a.replace(" ", "") == f"{hdr[0]}+self.{fields[2]}"):
                ob.violation(f_to, ws[0], f"the single write does not carry header followed by payload (`{a}`)")
        ob.require(n >= 1, "no path through to_io")

    with ctx.obligation("C08.c", "exact-read") as ob:
        impl = [c for c in repo.io_implementors("IO") if "read" in repo.cls(c).methods]
        for cname in impl:
            fi = repo.cls(cname).methods["read"]
            if cname == "ProxyIO":
                # delegation to ChannelFileRead.read (C19 a-c decide its stream integrity)
                cs = [c for c in repo.calls_in(fi) if callee_attr(c) == "read"]
                ob.site(fi, cs[0] if cs else fi.node, "delegates to the channel file (stream re-assembly decided by C19)")
                if len(cs) != 1 or unparse(cs[0].args[0]) not in fi.params():
                    ob.violation(fi, fi.node, "ProxyIO.read does not forward its size to the channel file")
                continue
            check_exact_read(repo, ob, fi)
        ob.require(len(ob.sites) >= 3, f"{len(ob.sites)} IO.read implementors analysed (floor 3)")

    with ctx.obligation("C08.d", "atomic-write") as ob:
        fsend = repo.func(f"{GB}.BaseGateway._send")
        send_locked = False
        for c in repo.calls_in(fsend):
            if callee_attr(c) == "to_io" and lexical_locks(repo, fsend, c):
                send_locked = True
        ob.note(f"_send holds a lock around to_io: {send_locked}")
        writers = [c for c in repo.io_implementors("IO")]
        for cname in writers:
            ci = repo.cls(cname)
            if "write" not in ci.methods:
                continue  # inherited
            fi = ci.methods["write"]
            prim = [c for c in repo.calls_in(fi) if callee_attr(c) in ("_write", "write", "sendall", "send", "sendmsg") and not unparse(c.func).startswith("sys.")]
            mode = None
            if send_locked:
                mode = "serialised by _send"
            elif len(prim) == 1 and callee_attr(prim[0]) == "send" and repo.type_of(prim[0].func.value, fi) == "Channel":
                mode = "delegates to Channel.send (atomicity of the via-gateway's transport)"
            elif len(prim) == 1 and callee_attr(prim[0]) in ("_write", "write"):
                others = [c for c in repo.calls_in(fi) if c is not prim[0] and callee_attr(c) not in ("flush", "isinstance")]
                if not others and unparse(prim[0].args[0]) in fi.params():
                    mode = "single buffered write of the whole frame, then flush"
            elif prim and all(callee_attr(c) in ("sendall", "send") for c in prim):
                held = [lexical_locks(repo, fi, c) for c in prim]
                if all(h for h in held) and len(set.intersection(*held)) >= 1:
                    lock = sorted(set.intersection(*held))[0]
                    # the lock must be per-connection state created in __init__
                    mode = f"all socket sends inside the lock region {lock}"
                    if callee_attr(prim[0]) == "send":
                        mode = None  # sock.send may write partially
            ob.site(fi, prim[0] if prim else fi.node, f"{cname}.write atomic w.r.t. concurrent senders", mode=mode)
            if mode is None:
                ob.violation(fi, prim[0] if prim else fi.node,
                             f"{cname}.write is not atomic and BaseGateway._send takes no lock: frames of concurrently sending threads can interleave on the wire "
                             "(sock.sendall of a large frame is many send() calls)")
        ob.require(len(ob.sites) >= 3, "3 IO.write implementors expected")

    with ctx.obligation("C08.e", "reframe-identity") as ob:
        fsp = repo.func("gateway_io.serve_proxy_io")
        ffs = repo.func("gateway_io.serve_proxy_io.forward_to_sub")
        ws = [c for c in repo.calls_in(ffs) if callee_attr(c) == "write"]
        p = [x for x in ffs.params()]
        ob.site(ffs, ws[0] if ws else ffs.node, "forward_to_sub writes its parameter unmodified to the sub")
        if len(ws) != 1 or len(ws[0].args) != 1 or unparse(ws[0].args[0]) != p[0] or unparse(ws[0].func.value) != "sub_io":
            ob.violation(ffs, ffs.node, "forward_to_sub does not write exactly the received bytes to the sub process")
        reg = [c for c in repo.calls_in(fsp) if callee_attr(c) == "setcallback" and c.args and unparse(c.args[0]) == "forward_to_sub"]
        if len(reg) != 1:
            ob.violation(fsp, fsp.node, "forward_to_sub is not registered as the callback of the proxy channel")
        frm = [c for c in repo.calls_in(fsp) if unparse(c.func) == "Message.from_io"]
        tio = [c for c in repo.calls_in(fsp) if callee_attr(c) == "to_io"]
        ob.require(len(frm) == 1 and len(tio) == 1, "forwarder loop anchors (from_io/to_io) not found")
        var = unparse(repo.parent(frm[0]).targets[0]) if isinstance(repo.parent(frm[0]), ast.Assign) else None
        ob.site(fsp, tio[0], "the very Message read from the sub is re-emitted", var=var)
        if var is None or unparse(tio[0].func.value) != var or unparse(frm[0].args[0]) != "sub_io":
            ob.violation(fsp, tio[0], "the forwarder does not re-emit the message object it read from the sub")
        sink = unparse(tio[0].args[0]) if tio[0].args else ""
        al = repo.local_alias(sink, fsp)
        if not (isinstance(al, ast.Call) and callee_attr(al) == "makefile" and (not al.args or repo.fold_in(al.args[0], fsp) == "w")):
            ob.violation(fsp, tio[0], "the forwarder does not write to a 'w' channel file of the proxy channel")
        # master side: ProxyIO.write = one iochan.send(data)
        pw = repo.func("gateway_io.ProxyIO.write")
        snd = [c for c in repo.calls_in(pw) if callee_attr(c) == "send"]
        ob.site(pw, snd[0] if snd else pw.node, "ProxyIO.write sends its argument unmodified as one item")
        if len(snd) != 1 or unparse(snd[0].args[0]) not in pw.params():
            ob.violation(pw, pw.node, "ProxyIO.write does not send exactly its argument")
