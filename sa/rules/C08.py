"""C08 Message frames survive any chunking and never interleave on the wire."""

from __future__ import annotations

import ast
import struct

from .. import ref_format_v2 as ref
from ..cfg import Oracle, build_cfg
from ..index import AnalysisError, FuncInfo, Repo, UNKNOWN, norm, unparse
from ..report import Ctx, Obligation
from ..util import callee_attr, calls_in_node, cfg_nodes_with_call, lexical_locks, lock_identity

GB = "gateway_base"


PRIM_READS = ("_read", "recv", "read", "recv_into", "readinto")


def check_exact_read(repo: Repo, ob: Obligation, fi: FuncInfo) -> None:
    """IO.read(n) must return exactly n bytes or raise EOFError.

    One recogniser for all accumulate-until-n loops, built around a *progress quantity* P (bytes received so far):
      K1  P = len(BUF)      BUF += chunk                      (BUF bytes, initially empty or a first read)
      K2  P = GOT           GOT += len(chunk) | += count      (GOT int, initially 0; chunks appended to a list / received into view[GOT:])
      K3  P = n - MISSING   MISSING -= len(chunk)             (MISSING int, initially n)
    Decided per low-level read call r (callee resolved through hoisted locals):
      size   the request is at most n - P  (`n - P`, MISSING, min(.., k), a loop-local alias of these; n itself only before anything was read)
      eof    an empty result / zero count raises EOFError before it is accumulated
      accum  the chunk is appended at the end and P advances by exactly its length
    and for the function: the loop ends only when P >= n (condition or guard-return), the accumulated bytes are returned.
    An accumulation idiom outside this family is an analysis error (exit 2), never a violation."""
    from ..util import expand, xtext
    fi = repo.flat(fi)  # normal form: a shared read-until-n helper is analysed inlined, with its chunk reader bound
    params = [p for p in fi.params() if p != "self"]
    ob.require(len(params) == 1, f"{fi.short}: one size parameter expected")
    n = params[0]
    loops = [x for x in repo.own_nodes(fi) if isinstance(x, ast.While)]
    reads = []
    for c in repo.calls_in(fi):
        f = expand(repo, fi, c.func)
        if isinstance(f, ast.Attribute) and f.attr in PRIM_READS and not unparse(f).startswith(("struct.", "os.")):
            reads.append(c)
    ob.site(fi, loops[0] if loops else fi.node, "exact-read loop", size_param=n, low_level_reads=len(reads))
    if not reads:
        raise AnalysisError(f"{fi.short}: no low-level read call recognised")
    if len(loops) != 1:
        ob.violation(fi, fi.node, "IO.read is not a read-until-n loop: a short low-level read would truncate or split a frame", construct="no accumulate loop")
        return
    lp = loops[0]
    body_nodes = [x for s_ in lp.body for x in ast.walk(s_)]
    top = [x for x in fi.node.body]

    def init_of(name):
        for x in top:
            if isinstance(x, (ast.Assign, ast.AnnAssign)) and unparse(x.targets[0] if isinstance(x, ast.Assign) else x.target) == name and getattr(x, "value", None) is not None:
                return x.value
        return None

    # ---- progress model
    kind = P = acc = None
    rem: set[str] = set()
    for x in body_nodes:
        if isinstance(x, ast.AugAssign) and isinstance(x.target, ast.Name):
            v = unparse(x.value)
            iv = init_of(x.target.id)
            if isinstance(x.op, ast.Sub) and iv is not None and unparse(iv) == n:
                kind, P = "K3", x.target.id
                rem = {P}
            elif isinstance(x.op, ast.Add) and iv is not None and repo.fold_in(iv, fi) == 0:
                kind, P = "K2", x.target.id
                rem = {f"{n} - {P}"}
            elif isinstance(x.op, ast.Add) and iv is not None and (repo.fold_in(iv, fi) in (b"", "") or iv in reads or (isinstance(iv, ast.Call) and iv in reads)):
                kind, P, acc = "K1", f"len({x.target.id})", x.target.id
                rem = {f"{n} - len({acc})"}
        if isinstance(x, ast.Assign) and isinstance(x.targets[0], ast.Name) and isinstance(x.value, ast.BinOp) and isinstance(x.value.op, ast.Add) \
                and unparse(x.value.left) == x.targets[0].id and init_of(x.targets[0].id) is not None:
            kind, P, acc = "K1", f"len({x.targets[0].id})", x.targets[0].id
            rem = {f"{n} - len({acc})"}
    if kind is None:
        raise AnalysisError(f"{fi.short}: progress quantity of the accumulate loop not recognised")
    # loop-local aliases of the remaining-bytes expression
    for x in body_nodes:
        if isinstance(x, ast.Assign) and isinstance(x.targets[0], ast.Name) and unparse(x.value) in rem:
            rem.add(x.targets[0].id)

    # ---- loop condition: runs while P < n
    t = lp.test
    cond_ok = False
    tt = unparse(t)
    if kind == "K3":
        cond_ok = tt in (f"{P} > 0", P, f"0 < {P}")
    else:
        cond_ok = tt in (f"{P} < {n}", f"{n} > {P}")
    exit_guard = None
    if isinstance(t, ast.Constant) and bool(t.value):
        # while True + guard:  if <nothing missing>: return/break
        for s_ in lp.body:
            if isinstance(s_, ast.If) and s_.body and isinstance(s_.body[-1], (ast.Return, ast.Break)):
                g = unparse(s_.test)
                done = {f"{P} >= {n}", f"{n} <= {P}", f"not {P} < {n}"} | {f"{r} <= 0" for r in rem} | {f"not {r}" for r in rem} | {f"{r} == 0" for r in rem}
                if g in done:
                    exit_guard = s_
                    cond_ok = True
    if not cond_ok:
        if isinstance(t, ast.Compare) and (unparse(t.left).startswith("len(") or unparse(t.comparators[0]).startswith("len(") or P in tt):
            ob.violation(fi, lp, f"loop condition `{norm(t)}` does not run until exactly {n} bytes are accumulated: the read may return early or over-read")
            return
        raise AnalysisError(f"{fi.short}: accumulate loop condition `{norm(t)}` not recognised")

    def size_ok(c: ast.Call, first: bool, into: bool) -> bool:
        args = c.args[1:] if into else c.args
        if into and not args:
            return True  # bounded by the destination slice (checked separately)
        if len(args) != 1:
            return False
        a = args[0]
        txt = unparse(a)
        if txt in rem or (first and txt == n):
            return True
        if isinstance(a, ast.Call) and isinstance(a.func, ast.Name) and a.func.id == "min" and any(unparse(x) in rem or (first and unparse(x) == n) for x in a.args):
            return True
        return False

    for rd in reads:
        in_loop = any(x is rd for x in body_nodes)
        first = not in_loop and rd.lineno < lp.lineno
        into = expand(repo, fi, rd.func).attr in ("recv_into", "readinto")
        if not in_loop and not first:
            ob.violation(fi, rd, "a low-level read after the accumulate loop")
            continue
        if not size_ok(rd, first, into):
            shown = rd.args[1] if into and len(rd.args) > 1 else (rd.args[0] if rd.args else None)
            ob.violation(fi, rd, f"the low-level read requests `{norm(shown) if shown is not None else ''}`, which can exceed the bytes still missing "
                                 f"({' / '.join(sorted(rem))}): bytes of the next frame are consumed and the stream is misaligned")
        if into:
            dest = rd.args[0] if rd.args else None
            ok_dest = isinstance(dest, ast.Subscript) and isinstance(dest.slice, ast.Slice) and dest.slice.lower is not None and kind == "K2" and unparse(dest.slice.lower) == P
            if not ok_dest:
                ob.violation(fi, rd, f"every chunk is received into `{norm(dest) if dest is not None else '?'}` instead of the part of the buffer after the {P} bytes already read: "
                                     "a frame that needs more than one recv() is overwritten from the start (corrupt payload, zero tail)")
        # result variable
        par = repo.parent(rd)
        var = None
        if isinstance(par, ast.Assign) and isinstance(par.targets[0], ast.Name) and par.value is rd:
            var = par.targets[0].id
        elif isinstance(par, ast.AnnAssign) and isinstance(par.target, ast.Name) and par.value is rd:
            var = par.target.id
        if var is None:
            ob.violation(fi, rd, "the result of a low-level read is accumulated without being tested for emptiness: when the peer closes mid-frame the loop spins "
                                 "forever on b'' instead of raising EOFError")
            continue
        scope = lp.body if in_loop else fi.node.body
        idx = next((k for k, s_ in enumerate(scope) if any(x is rd for x in ast.walk(s_))), None)
        eof = None
        for s_ in scope[idx + 1:]:
            if isinstance(s_, ast.If) and s_.body and isinstance(s_.body[-1], ast.Raise) and unparse(s_.body[-1].exc).split("(")[0] == "EOFError":
                g = unparse(s_.test)
                if g == f"not {var}" or g.startswith(f"not {var} and") or g in (f"len({var}) == 0", f"{var} == 0", f"{var} == b''"):
                    eof = s_
                    break
            if any((isinstance(x, ast.AugAssign) or (isinstance(x, ast.Call) and callee_attr(x) == "append")) and var in unparse(x) for x in ast.walk(s_)):
                break  # accumulated before any test
        if eof is None:
            ob.violation(fi, rd, f"an empty chunk (peer closed) read into `{var}` does not raise EOFError before it is accumulated")
        # accumulation and progress update
        scope_nodes = body_nodes if in_loop else [x for s_ in fi.node.body if s_ is not lp for x in ast.walk(s_)]
        if kind == "K1":
            if var != acc:
                app = [x for x in scope_nodes if (isinstance(x, ast.AugAssign) and isinstance(x.op, ast.Add) and unparse(x.target) == acc and unparse(x.value) == var)
                       or (isinstance(x, ast.Assign) and unparse(x.targets[0]) == acc and unparse(x.value) == f"{acc} + {var}")]
                if len(app) != 1:
                    ob.violation(fi, rd, f"chunks are not appended in arrival order (`{acc} += {var}`)")
        else:
            step = f"len({var})" if not into else var
            upd = [x for x in scope_nodes if isinstance(x, ast.AugAssign) and unparse(x.target) == P and unparse(x.value) == step
                   and isinstance(x.op, ast.Sub if kind == "K3" else ast.Add)]
            if len(upd) != 1:
                ob.violation(fi, rd, f"the progress counter `{P}` is not advanced by the length of the chunk just read")
            if not into:
                apps = [x for x in scope_nodes if isinstance(x, ast.Call) and callee_attr(x) == "append" and x.args and unparse(x.args[0]) == var]
                if len(apps) != 1:
                    ob.violation(fi, rd, "the chunk read is not appended (once, at the end) to the list of chunks")
                else:
                    acc = unparse(apps[0].func.value)
    if not any(any(x is rd for x in body_nodes) for rd in reads):
        ob.violation(fi, lp, "the accumulate loop contains no low-level read")
    # ---- what is returned
    rets = [x for x in repo.own_nodes(fi) if isinstance(x, ast.Return)]
    allowed_in_loop = exit_guard is not None
    if len(rets) != 1 or (any(r in body_nodes for r in rets) and not allowed_in_loop):
        ob.violation(fi, rets[0] if rets else fi.node, "the read does not return exactly once, when nothing is missing any more")
    elif acc is not None:
        rv = xtext(repo, fi, rets[0].value).replace('"', "'")
        good = {acc, f"b''.join({acc})", f"bytes().join({acc})", f"bytes({acc})"}
        if unparse(rets[0].value) not in good and rv not in good and not any(rv == f"bytes({xtext(repo, fi, ast.parse(acc, mode='eval').body)})" for _ in [0]):
            ob.violation(fi, rets[0], "the read does not return the accumulated bytes in arrival order")
    for x in body_nodes:
        if isinstance(x, (ast.Break, ast.Return)) and not (exit_guard is not None and any(x is y for y in ast.walk(exit_guard))):
            ob.violation(fi, x, "the accumulate loop can be left before n bytes arrived")


def proxy_callbacks(repo: Repo) -> dict:
    """the two callbacks serve_proxy_io registers, however they are packaged: nested functions closing over `sub_io` /
    `control_chan`, or bound methods of a small helper object built from them.  Returns
    {"forward": (callback FuncInfo, names of the sub io inside it, names of the control channel inside it), "control": (...)}"""
    fsp = repo.func("gateway_io.serve_proxy_io")
    proxy_param = fsp.params()[0]
    subs = [n.targets[0].id for n in repo.own_nodes(fsp) if isinstance(n, ast.Assign) and isinstance(n.targets[0], ast.Name) and isinstance(n.value, ast.Call)
            and unparse(n.value.func).split(".")[-1] == "create_io"]
    if len(subs) != 1:
        raise AnalysisError("serve_proxy_io: the sub io (create_io(...)) is not bound to one local")
    S = subs[0]
    out: dict = {}
    for c in repo.calls_in(fsp):
        if callee_attr(c) != "setcallback" or not c.args or not isinstance(c.func, ast.Attribute):
            continue
        role = "forward" if unparse(c.func.value) == proxy_param else "control"
        recv = unparse(c.func.value)
        cb = c.args[0]
        fi = None
        sub_names, ctl_names = {S}, ({recv} if role == "control" else set())
        if isinstance(cb, ast.Name) and repo.has_func(f"{fsp.qualname}.{cb.id}"):
            fi = repo.func(f"{fsp.qualname}.{cb.id}")
        elif isinstance(cb, ast.Attribute) and isinstance(cb.value, ast.Name):
            mk = repo.local_alias(cb.value.id, fsp)
            if isinstance(mk, ast.Call) and isinstance(mk.func, ast.Name) and mk.func.id in repo.classes:
                ci = repo.classes[mk.func.id]
                m = repo.lookup_method(ci, cb.attr)
                init = ci.methods.get("__init__")
                if m is not None and init is not None:
                    fi = repo.flat(m)
                    formals = [a.arg for a in init.node.args.args][1:]
                    actual = dict(zip(formals, mk.args))
                    actual.update({k.arg: k.value for k in mk.keywords if k.arg})
                    sub_names, ctl_names = set(), set()
                    for st_ in init.node.body:
                        if isinstance(st_, ast.Assign) and len(st_.targets) == 1 and isinstance(st_.targets[0], ast.Attribute) and unparse(st_.targets[0].value) == "self" \
                                and isinstance(st_.value, ast.Name) and st_.value.id in actual:
                            a = unparse(actual[st_.value.id])
                            # fields of the helper object must not be re-bound anywhere
                            if st_.targets[0].attr in repo._stored_attr_names() and sum(1 for f_ in repo.funcs.values() for x in ast.walk(f_.node)
                                                                                        if isinstance(x, ast.Attribute) and x.attr == st_.targets[0].attr and isinstance(x.ctx, ast.Store)) > 1:
                                continue
                            if a == S:
                                sub_names.add(f"self.{st_.targets[0].attr}")
                            if role == "control" and a == recv:
                                ctl_names.add(f"self.{st_.targets[0].attr}")
                            elif role == "forward" and a != S:
                                pass
                    # the control channel field is needed in the control callback only
                    if role == "forward":
                        ctl_names = set()
        if fi is not None:
            out[role] = (fi, sub_names, ctl_names, c)
    return out


def check_forward_to_sub(ob, repo: Repo) -> None:
    """master -> sub direction: the callback registered on the proxy channel writes exactly its argument to the sub io"""
    from ..util import xtext
    cbs = proxy_callbacks(repo)
    fsp = repo.func("gateway_io.serve_proxy_io")
    if "forward" not in cbs:
        ob.violation(fsp, fsp.node, "forward_to_sub is not registered as the callback of the proxy channel")
        return
    ffs, subs, _ctl, reg = cbs["forward"]
    ws = [c for c in repo.calls_in(ffs) if callee_attr(c) == "write"]
    p = [x for x in ffs.params() if x != "self"]
    ob.site(ffs, ws[0] if ws else ffs.node, "forward_to_sub writes its parameter unmodified to the sub")
    if len(ws) != 1 or len(ws[0].args) != 1 or not p or unparse(ws[0].args[0]) != p[0] or xtext(repo, ffs, ws[0].func.value) not in subs:
        ob.violation(ffs, ffs.node, "forward_to_sub does not write exactly the received bytes to the sub process")


def check_empty_header_eof(repo: Repo, ob) -> None:
    """Message.from_io: the header is unpacked only once it is established non-empty, and an empty read (how ProxyIO and a
    closed stream signal the end) raises EOFError -- so the receiver remembers the loss on every transport (shared: C08.a, C04.m, C16.j)"""
    from ..terms import const as _c, evaluator as _ev
    f_from = repo.func(f"{GB}.Message.from_io")
    reads = [c for c in repo.calls_in(f_from) if callee_attr(c) == "read"]
    unpacks = [c for c in repo.calls_in(f_from) if callee_attr(c) == "unpack"]
    if not reads or not unpacks:
        raise AnalysisError("from_io: header read / unpack not found")
    reads = sorted(reads, key=lambda c: (c.lineno, c.col_offset))
    evfrom = _ev(repo, f_from)
    # empty header -> EOFError: the unpack is reached only with a header established non-empty, and the empty case raises EOFError
    from ..terms import cmp_term as _cmp, tv as _tv
    n_unp = n_eof = 0
    eof_ok = True
    for (pth, st_) in evfrom.run(limit=4000):
        hd = [e for e in st_.events if e.kind == "call" and e.node is reads[0]]
        if not hd:
            continue
        H = hd[0].result
        LH = ("pcall", "len", (H,), ())

        def nonempty(known, H=H, LH=LH):
            return _tv(H, known) is True or _tv(_cmp("eq", LH, _c(0)), known) is False or _tv(_cmp("lt", _c(0), LH), known) is True \
                or _tv(_cmp("le", _c(1), LH), known) is True

        def empty(known, H=H, LH=LH):
            return _tv(H, known) is False or _tv(_cmp("eq", LH, _c(0)), known) is True or _tv(_cmp("lt", _c(0), LH), known) is False
        for e in st_.events:
            if e.kind == "call" and e.node is unpacks[0]:
                n_unp += 1
                if not nonempty(dict(st_.cond[:e.ncond])):
                    eof_ok = False
        rz = [e for e in st_.events if e.kind == "raise"]
        if rz and rz[-1].value is not None and rz[-1].value[0] == "fresh" and str(rz[-1].value[2]).split(".")[-1] == "EOFError" and empty(dict(st_.cond[:rz[-1].ncond])):
            n_eof += 1
    eof_ok = eof_ok and n_unp >= 1 and n_eof >= 1
    ob.site(f_from, f_from.node, "empty header read raises EOFError", ok=eof_ok)
    if not eof_ok:
        ob.violation(f_from, f_from.node, "an empty header read does not raise EOFError", construct="no empty-header EOF")


def check_forwarder_loop(ob, repo: Repo) -> None:
    """sub -> master direction of serve_proxy_io, over value terms along all feasible paths (helpers and simple
    generators inlined): every Message read from the sub io is re-emitted, as that very object, to the 'w' channel
    file of the proxy channel before the next one is read; EOF of the sub -- and only EOF -- ends the loop; the
    bootstrap byte is forwarded first."""
    from ..cfg import Oracle as _Oracle
    from ..terms import const, evaluator, show

    fsp = repo.func("gateway_io.serve_proxy_io")
    ev = evaluator(repo, fsp, _Oracle(repo, fsp, precise=True, call_raises=lambda c, f: [("EOFError", True)] if callee_attr(c) == "from_io" else None))
    cfg = ev.cfg
    heads = {n.id for n in cfg.nodes if n.kind in ("test", "for") and isinstance(n.owner, (ast.While, ast.For))}
    nread = nfwd = neof = 0
    boot = False
    for path, st in ev.run(back_stops=heads, limit=20000):
        subs = [e.result for e in st.events if e.kind == "call" and e.callee == "create_io"]
        sinks = [e.result for e in st.events if e.kind == "call" and e.attr == "makefile" and (e.arg(0, "mode") == const("w"))]
        reads = [e for e in st.events if e.kind == "call" and e.callee == "Message.from_io"]
        for e in st.events:
            if e.kind == "call" and e.attr == "write" and e.recv in sinks and e.args and e.args[0][0] == "fresh" and str(e.args[0][2]).endswith(".read"):
                rd = [x for x in st.events if x.kind == "call" and x.result == e.args[0]]
                if rd and rd[0].recv in subs and rd[0].args == (const(1),):
                    boot = True
        if not reads:
            continue
        r = reads[-1]
        if not r.args or r.args[0] not in subs:
            ob.violation(fsp, r.node, "the forwarder does not re-emit the message object it read from the sub", construct="from_io not on the sub io")
            continue
        end = path[-1][0]
        outs = [e for e in st.events if e.kind == "call" and e.attr == "to_io" and st.events.index(e) > st.events.index(r)]
        if r.raised:
            neof += 1
            if end in heads and path[-1][1] != "" and any(h == end for h in heads) and _same_loop(cfg, r.nid, end):
                # back at the loop head: the loop ends there only if its condition is now false (an at-EOF flag)
                from ..terms import tv as _tvl
                hd = cfg.nodes[end]
                again = True
                if isinstance(hd.owner, ast.While) and hd.ast is not None:
                    try:
                        again = _tvl(ev.term(hd.ast, st.clone(), False, None), dict(st.cond)) is not False
                    except Exception:
                        again = True
                if again:
                    ob.violation(fsp, r.node, "the forwarding loop does not end exactly on EOF of the sub", construct="loop continues after EOF")
            if outs:
                ob.violation(fsp, outs[0].node, "the forwarder emits a frame after EOF of the sub")
            continue
        nread += 1
        ok = len(outs) == 1 and outs[0].recv == r.result
        ob.site(fsp, r.node, "the very Message read from the sub is re-emitted", ok=ok)
        if not ok:
            if end in (cfg.exit.id, cfg.raise_exit.id) or end in heads:
                ob.violation(fsp, outs[0].node if outs else r.node, "the forwarder does not re-emit the message object it read from the sub")
            continue
        nfwd += 1
        if not outs[0].args or outs[0].args[0] not in sinks:
            ob.violation(fsp, outs[0].node, "the forwarder does not write to a 'w' channel file of the proxy channel")
        if not (end in heads and _same_loop(cfg, r.nid, end)):
            if end == cfg.exit.id:
                ob.violation(fsp, r.node, "the forwarding loop does not end exactly on EOF of the sub", construct="loop ends without EOF")
    ob.require(nread >= 1 and neof >= 1, f"forwarder loop anchors (from_io/to_io) not found (reads={nread}, eof paths={neof})")
    if not boot:
        ob.violation(fsp, fsp.node, "the sub's bootstrap byte is not forwarded unmodified to the master")


def _same_loop(cfg, nid: int, head: int) -> bool:
    """node nid lies inside the loop whose head is `head`"""
    h = cfg.nodes[head]
    owner = h.owner
    a = cfg.nodes[nid].ast
    return owner is not None and a is not None and any(x is a for b in owner.body for x in ast.walk(b))


def check_single_write(ctx: Ctx, oid: str) -> None:
    """C08.b (also C02.i): a frame is written with one io.write carrying header + payload"""
    repo = ctx.repo
    f_to = repo.func(f"{GB}.Message.to_io")
    f_init = repo.func(f"{GB}.Message.__init__")
    fields = [p for p in f_init.params() if p != "self"]
    with ctx.obligation(oid, "single-write") as ob:
        cfg = build_cfg(repo, f_to, Oracle(repo, f_to, precise=True))
        n = 0
        for path in cfg.paths(cfg.entry.id):
            if path[-1][0] != cfg.exit.id:
                continue
            n += 1
            ws = [c for nid, _ in path for c in (calls_in_node(cfg.nodes[nid]) if cfg.nodes[nid].ast is not None else []) if callee_attr(c) == "write"]
            ob.site(f_to, ws[0] if ws else f_to.node, "one io.write per frame with header + payload", writes=len(ws))
            if len(ws) != 1:
                ob.violation(f_to, f_to.node, f"a frame is written with {len(ws)} write calls: concurrent senders could interleave header and payload", construct=f"{len(ws)} writes")
                continue
            from ..util import expand
            a = expand(repo, f_to, ws[0].args[0]) if ws[0].args else None
            ok = isinstance(a, ast.BinOp) and isinstance(a.op, ast.Add) and isinstance(a.left, ast.Call) and (
                unparse(a.left.func) == "struct.pack" or (repo.struct_binding(a.left.func, f_to) or ("", ""))[1] == "pack") and unparse(a.right) == f"self.{fields[2]}"
            if not ok:
                ob.violation(f_to, ws[0], f"the single write does not carry header followed by payload (`{norm(a) if a is not None else ''}`)")
        ob.require(n >= 1, "no path through to_io")



def check_atomic_write(ctx: Ctx, oid: str) -> None:
    """C08.d (also C02.j): every IO.write is atomic w.r.t. concurrent senders"""
    repo = ctx.repo
    with ctx.obligation(oid, "atomic-write") as ob:
        fsend = repo.func(f"{GB}.BaseGateway._send")
        send_locked = False
        for c in repo.calls_in(fsend):
            if callee_attr(c) == "to_io" and lexical_locks(repo, fsend, c):
                send_locked = True
        ob.note(f"_send holds a lock around to_io: {send_locked}")
        writers = [c for c in repo.io_implementors("IO")]
        for cname in writers:
            ci = repo.cls(cname)
            if "write" not in ci.methods:
                continue  # inherited
            fi = repo.flat(ci.methods["write"])
            prim = [c for c in repo.calls_in(fi) if callee_attr(c) in ("_write", "write", "sendall", "send", "sendmsg") and not unparse(c.func).startswith("sys.")]
            mode = None
            if send_locked:
                mode = "serialised by _send"
            elif len(prim) == 1 and callee_attr(prim[0]) == "send" and repo.type_of(prim[0].func.value, fi) == "Channel":
                mode = "delegates to Channel.send (atomicity of the via-gateway's transport)"
            elif len(prim) == 1 and callee_attr(prim[0]) in ("_write", "write"):
                others = [c for c in repo.calls_in(fi) if c is not prim[0] and callee_attr(c) not in ("flush", "isinstance")]
                if not others and unparse(prim[0].args[0]) in fi.params():
                    mode = "single buffered write of the whole frame, then flush"
            elif prim and all(callee_attr(c) in ("sendall", "send") for c in prim):
                held = [lexical_locks(repo, fi, c) for c in prim]
                if all(h for h in held) and len(set.intersection(*held)) >= 1:
                    lock = sorted(set.intersection(*held))[0]
                    # the lock must be per-connection state created in __init__
                    mode = f"all socket sends inside the lock region {lock}"
                    if callee_attr(prim[0]) == "send":
                        mode = None  # sock.send may write partially
                    # one frame = one lock region: a lock taken per slice inside a loop lets another thread's frame in between two slices
                    for c_ in prim:
                        seen_with = False
                        for anc in repo.ancestors(c_):
                            if anc is fi.node:
                                break
                            if isinstance(anc, ast.With) and any(lock.split(".")[-1] in unparse(it.context_expr) for it in anc.items):
                                seen_with = True
                            elif isinstance(anc, (ast.For, ast.While)) and seen_with:
                                mode = None
            ob.site(fi, prim[0] if prim else fi.node, f"{cname}.write atomic w.r.t. concurrent senders", mode=mode)
            if mode is None:
                ob.violation(fi, prim[0] if prim else fi.node,
                             f"{cname}.write is not atomic and BaseGateway._send takes no lock: frames of concurrently sending threads can interleave on the wire "
                             "(sock.sendall of a large frame is many send() calls)")
        ob.require(len(ob.sites) >= 3, "3 IO.write implementors expected")
        # "single buffered write" holds only if the pipe file objects are buffered (io.BufferedWriter holds a lock across the
        # whole write and loops over partial writes; a raw FileIO does neither): no construction site may ask for bufsize 0
        nctor = 0
        for fi in repo.scan_funcs():
            for c in repo.calls_in(fi):
                nm = callee_attr(c) or (c.func.id if isinstance(c.func, ast.Name) else "")
                if nm not in ("Popen", "fdopen"):
                    continue
                bs = None
                for k in c.keywords:
                    if k.arg in ("bufsize", "buffering"):
                        bs = repo.fold_in(k.value, fi)
                pos = 1 if nm == "Popen" else 2
                if bs is None and len(c.args) > pos:
                    bs = repo.fold_in(c.args[pos], fi)
                if nm == "Popen" and not any(k.arg in ("stdin", "stdout") for k in c.keywords):
                    continue  # not a protocol pipe
                nctor += 1
                ob.site(fi, c, f"{nm}(...) gives buffered file objects", bufsize=repr(bs))
                if bs == 0 and not isinstance(bs, bool):
                    ob.violation(fi, c, f"{nm}(..., bufsize=0) makes the protocol pipe a raw file: a frame larger than the free pipe space is written in pieces, "
                                        "without a lock, and frames of concurrently sending threads interleave", construct=f"{nm} bufsize=0")
        ob.require(nctor >= 3, f"{nctor} pipe construction sites (floor 3)")



def check(ctx: Ctx) -> None:
    repo = ctx.repo
    ctx.decides = ("header format and field roles agree between Message.to_io and from_io; one write per frame containing header "
                   "and payload; every IO.read is an exact accumulate-until-n loop; every IO.write is atomic w.r.t. concurrent "
                   "senders (single buffered write+flush, lock region, or delegation to Channel.send); the proxy re-emits frames unmodified.")
    ctx.not_decided = "actual chunkings and thread interleavings (follow from the shape plus the OS byte-stream axiom)."
    ctx.trust("io.BufferedWriter.write serialises concurrent callers", "OS pipes/sockets are ordered byte streams")
    ctx.assume("A2", "A5")
    f_to = repo.func(f"{GB}.Message.to_io")
    f_from = repo.func(f"{GB}.Message.from_io")
    f_init = repo.func(f"{GB}.Message.__init__")
    fields = [p for p in f_init.params() if p != "self"]

    with ctx.obligation("C08.a", "header-agreement") as ob:
        def struct_calls(fi_, which):
            out = []
            for c in repo.calls_in(fi_):
                if unparse(c.func) == f"struct.{which}" and c.args:
                    out.append((c, repo.fold_in(c.args[0], fi_), list(c.args[1:])))
                else:
                    sb = repo.struct_binding(c.func, fi_)
                    if sb is not None and sb[1] == which:
                        out.append((c, sb[0], list(c.args)))
            return out
        pk, upk = struct_calls(f_to, "pack"), struct_calls(f_from, "unpack")
        ob.require(len(pk) == 1 and len(upk) == 1, "pack/unpack of the frame header not found")
        packs, unpacks = [pk[0][0]], [upk[0][0]]
        fp, fu = pk[0][1], upk[0][1]
        pack_args = pk[0][2]
        ob.site(f_to, packs[0], "header format", writer=fp, reader=fu, reference=ref.HEADER_FORMAT)
        if fp != fu:
            ob.violation(f_from, unpacks[0], f"header format differs: writer {fp!r}, reader {fu!r}")
        if fp != ref.HEADER_FORMAT:
            ob.violation(f_to, packs[0], f"header format {fp!r} is not the wire format {ref.HEADER_FORMAT!r} (type 1, channel 4, payload length 4, big-endian)")
        # roles on value terms: what reaches the pack call / what the unpacked fields are used for
        from ..terms import const as _c, evaluator as _ev, show as _show
        from ..util import xtext as _xt, expand as _ex
        want_t = (("sym", f"self.{fields[0]}"), ("sym", f"self.{fields[1]}"), ("pcall", "len", (("sym", f"self.{fields[2]}"),), ())) if len(fields) == 3 else ()
        evto = _ev(repo, f_to)
        npk = 0
        for (_p, st_) in evto.run(limit=4000):
            for e in st_.events:
                if e.kind == "call" and (e.callee == "struct.pack" or (e.attr == "pack" and e.node is packs[0])):
                    npk += 1
                    have_t = e.args[1:] if e.callee == "struct.pack" else e.args
                    if have_t != want_t:
                        ob.violation(f_to, packs[0], f"header fields packed as {[_show(x) for x in have_t]}, expected {[_show(x) for x in want_t]}")
        ob.require(npk >= 1, "pack of the frame header not evaluated on any path")
        reads = [c for c in repo.calls_in(f_from) if callee_attr(c) == "read"]
        ob.require(len(reads) == 2, "from_io: two reads (header, payload) expected")
        from ..util import expand as _exp
        hsize = repo.fold_in(_exp(repo, f_from, reads[0].args[0]), f_from)
        ob.site(f_from, reads[0], "header read size == calcsize(format)", size=hsize)
        if isinstance(fu, str) and hsize != struct.calcsize(fu):
            ob.violation(f_from, reads[0], f"header read of {hsize} bytes != calcsize({fu!r}) = {struct.calcsize(fu)}")
        evfrom = _ev(repo, f_from)
        nctor = 0
        for (pth, st_) in evfrom.run(limit=4000):
            ups = [e for e in st_.events if e.kind == "call" and e.node is unpacks[0]]
            ctors = [e for e in st_.events if e.kind == "call" and e.callee == "Message"]
            for ct in ctors:
                nctor += 1
                bases = [ups[0].result, ("pcall", "tuple", (ups[0].result,), ())] if ups else []
                a3 = ct.args
                rd = [e for e in st_.events if e.kind == "call" and len(a3) == 3 and e.result == a3[2] and e.attr == "read"]
                ok = len(a3) == 3 and any(a3[0] == ("idx", B, _c(0)) and a3[1] == ("idx", B, _c(1)) and rd and rd[0].args == (("idx", B, _c(2)),) for B in bases)
                ob.site(f_from, ct.node, "unpacked fields reach Message() in their roles", args=[_show(x) for x in a3], ok=ok)
                if not ok:
                    ob.violation(f_from, ct.node, "unpacked header fields do not reach Message(msgcode, channelid, read(length)) in their roles")
        if nctor == 0:
            ob.violation(f_from, unpacks[0], "header is not unpacked into three fields")
        check_empty_header_eof(repo, ob)

    check_single_write(ctx, "C08.b")

    with ctx.obligation("C08.c", "exact-read") as ob:
        impl = [c for c in repo.io_implementors("IO") if "read" in repo.cls(c).methods]
        for cname in impl:
            fi = repo.flat(repo.cls(cname).methods["read"])
            if cname == "ProxyIO":
                # delegation to ChannelFileRead.read (C19 a-c decide its stream integrity)
                cs = [c for c in repo.calls_in(fi) if callee_attr(c) == "read"]
                ob.site(fi, cs[0] if cs else fi.node, "delegates to the channel file (stream re-assembly decided by C19)")
                if len(cs) != 1 or unparse(cs[0].args[0]) not in fi.params():
                    ob.violation(fi, fi.node, "ProxyIO.read does not forward its size to the channel file")
                continue
            check_exact_read(repo, ob, fi)
        ob.require(len(ob.sites) >= 3, f"{len(ob.sites)} IO.read implementors analysed (floor 3)")

    check_atomic_write(ctx, "C08.d")

    with ctx.obligation("C08.e", "reframe-identity") as ob:
        fsp = repo.func("gateway_io.serve_proxy_io")
        check_forward_to_sub(ob, repo)
        check_forwarder_loop(ob, repo)
        # master side: ProxyIO.write = one iochan.send(data)
        pw = repo.func("gateway_io.ProxyIO.write")
        snd = [c for c in repo.calls_in(pw) if callee_attr(c) == "send"]
        ob.site(pw, snd[0] if snd else pw.node, "ProxyIO.write sends its argument unmodified as one item")
        if len(snd) != 1 or unparse(snd[0].args[0]) not in pw.params():
            ob.violation(pw, pw.node, "ProxyIO.write does not send exactly its argument")

    # the proxied path: frames that arrive split or coalesced into channel items are re-assembled by ChannelFileRead (ProxyIO.read)
    from .C19 import check_stream_reassembly
    check_stream_reassembly(ctx, "C08.f")
    # a sendall() that times out has written a prefix of the frame: the next frame lands behind the fragment
    from .C16 import check_socket_blocking
    check_socket_blocking(ctx, "C08.g")
