"""C11 Workers never outlive their initiator (thin -> partial)."""

from __future__ import annotations

import ast

from ..cfg import Oracle, build_cfg
from ..index import AnalysisError, UNKNOWN, norm, unparse
from ..report import Ctx
from ..util import Facts, arg, callee_attr, calls_in_node, cfg_nodes_with_call, xtext
from ._chan import GB, callback_invocations, in_exception_handler_scope, receiver_context

BUDGET = 15.0
NONRAISING = {"_geterrortext", "geterrortext"}


def check(ctx: Ctx) -> None:
    repo = ctx.repo
    ctx.decides = ("EOF on the connection reaches _terminate_execution; the escalation ladder pool-shutdown -> bounded wait -> SIGINT/interrupt_main -> "
                   "bounded wait -> os._exit is on every path where the waits fail, with a folded time budget <= 15 s; serve() swallows KeyboardInterrupt "
                   "and joins; the primary loop leaves on shutdown (flag sampled under the pool lock, C11.g = C09.d); worker threads are started daemonic (_thread.start_new_thread); user callbacks cannot abort the epilogue.")
    ctx.not_decided = "what the OS does to the pipe when the initiator dies; real timing; what arbitrary worker code does with signals."
    f_recv = repo.func(f"{GB}.BaseGateway._thread_receiver")
    f_term = repo.func(f"{GB}.WorkerGateway._terminate_execution")

    with ctx.obligation("C11.a", "eof-reaches-termination") as ob:
        cfg = build_cfg(repo, f_recv, Oracle(repo, f_recv, nonraising=NONRAISING))
        handlers = [n for n in cfg.nodes if n.kind == "except" and n.id in cfg.live()]
        term = cfg_nodes_with_call(cfg, lambda c: callee_attr(c) == "_terminate_execution")
        fin = cfg_nodes_with_call(cfg, lambda c: callee_attr(c) == "_finished_receiving")
        ob.require(len(handlers) >= 3 and len(term) >= 1 and len(fin) >= 1, "receiver epilogue anchors not found")
        # exceptions raised *by* _finished_receiving are the business of C11.e (callbacks contained)
        exc_edges = set()
        for f in fin:
            exc_edges |= {(f.id, m, l) for (m, l) in cfg.succ[f.id] if l.startswith("exc:")}
        for h in handlers:
            t = h.ast.type
            names = unparse(t) if t is not None else "BaseException"
            p = cfg.shortest_path(h.id, {cfg.exit.id, cfg.raise_exit.id}, removed={x.id for x in term}, removed_edges=exc_edges)
            ob.site(f_recv, h.ast, f"receiver loop left through `except {names}` reaches _terminate_execution()")
            if p is not None:
                ob.violation(f_recv, h.ast, f"after `except {names}` the receiver thread can end without _terminate_execution(): the worker's executing code is never told to stop "
                                            "and the process outlives its initiator", path=cfg.describe_path(p))
        # the worker class really overrides the hook
        ov = repo.cls("WorkerGateway").methods.get("_terminate_execution")
        if ov is None:
            ob.violation(f_recv, f_recv.node, "WorkerGateway no longer overrides _terminate_execution", construct="no override")

    with ctx.obligation("C11.f", "eof-detected") as ob:
        # the ladder starts only if the lost connection surfaces as EOFError in the receiver, wherever the cut falls
        from .C08 import check_exact_read
        for cname in ("Popen2IO", "SocketIO"):
            check_exact_read(repo, ob, repo.cls(cname).methods["read"])

    with ctx.obligation("C11.b", "escalation-ladder") as ob:
        cfg = build_cfg(repo, f_term, Oracle(repo, f_term, precise=True))
        # WorkerPool.terminate(t) is trigger_shutdown() followed by waitall(t) (checked below on its own body)
        WAITS = ("waitall", "terminate")
        ft_ = repo.func(f"{GB}.WorkerPool.terminate")
        tn = [callee_attr(c) for c in repo.calls_in(ft_)]
        term_ok = tn == ["trigger_shutdown", "waitall"] and any(isinstance(x, ast.Return) and isinstance(x.value, ast.Call) and callee_attr(x.value) == "waitall" for x in repo.own_nodes(ft_))
        waits = [n for n in cfg.nodes if n.kind == "test" and any(callee_attr(c) in WAITS for c in calls_in_node(n)) and n.id in cfg.live()]
        ob.require(len(waits) == 2, f"{len(waits)} bounded waitall tests in _terminate_execution (expected 2)")
        waits.sort(key=lambda n: n.line)
        budget = 0.0
        for w in waits:
            c = [c for c in calls_in_node(w) if callee_attr(c) in WAITS][0]
            to = arg(c, 0, "timeout")
            v = repo.fold_in(to, f_term) if to is not None else None
            if callee_attr(c) == "terminate" and not term_ok:
                ob.violation(f_term, c, "the ladder relies on WorkerPool.terminate(), which is no longer trigger_shutdown() followed by a bounded waitall()")
            ob.site(f_term, c, "bounded wait for the execution pool", timeout=v)
            if not isinstance(v, (int, float)) or isinstance(v, bool) or v <= 0:
                ob.violation(f_term, c, "a wait of the termination ladder has no positive constant timeout: a worker that ignores the shutdown never reaches the next escalation step")
            else:
                budget += v
        ob.site(f_term, f_term.node, f"time budget of the ladder {budget} s <= {BUDGET} s")
        if budget > BUDGET:
            ob.violation(f_term, f_term.node, f"the termination ladder may take {budget} s, more than the documented bound of about {BUDGET:.0f} s", construct=f"budget {budget}")
        shut = cfg_nodes_with_call(cfg, lambda c: callee_attr(c) in ("trigger_shutdown", "terminate"))
        ob.require(len(shut) == 1, "trigger_shutdown not found in the ladder")
        if not cfg.dominated_by(waits[0].id, shut[0].id):
            ob.violation(f_term, shut[0].ast, "the pool is not told to shut down before the first wait")
        def fail_succ(w):
            neg = isinstance(w.ast, ast.UnaryOp) and isinstance(w.ast.op, ast.Not)
            return [m for (m, l) in cfg.succ[w.id] if l == ("true" if neg else "false")]
        # first wait fails -> interrupt (SIGINT to self / interrupt_main) -> second wait
        ints = cfg_nodes_with_call(cfg, lambda c: (unparse(c.func) == "os.kill" and len(c.args) == 2 and unparse(c.args[0]) == "os.getpid()" and repo.fold_in(c.args[1], f_term) in (2,))
                                   or unparse(c.func) == "interrupt_main")
        ob.require(len(ints) >= 1, "no SIGINT / interrupt_main step in the ladder")
        from ..terms import const as _c, evaluator as _ev
        evt = _ev(repo, f_term)
        WIN = ("cmp", "eq", ("sym", "sys.platform"), _c("win32"))
        p = None
        for (pth, st) in evt.run(limit=4000):
            ws = [e for e in st.events if e.kind == "call" and e.attr in WAITS]
            if len(ws) < 2:
                continue
            between = st.events[st.events.index(ws[0]) + 1:st.events.index(ws[1])]
            if st.known.get(WIN) is True:
                continue  # win32: interrupt_main() where available
            if not any(e.kind == "call" and e.callee == "os.kill" and len(e.args) == 2 and e.args[1] == _c(2) and "getpid" in str(e.args[0]) for e in between):
                p = pth
        ob.site(f_term, ints[0].ast, "first wait failed -> SIGINT to the own process (interrupt_main on win32) -> second wait")
        if p is not None:
            ob.violation(f_term, waits[0].ast, "after the first failed wait the worker is not interrupted (SIGINT) before the second wait", path=evt.cfg.describe_path(p))
        if waits[1].id not in cfg.reach(fail_succ(waits[0])):
            ob.violation(f_term, waits[0].ast, "a failed first wait does not lead to the second escalation step")
        else:
            # ... on every path, whatever ended the connection (an orderly GATEWAY_TERMINATE included: Gateway.exit() unregisters the gateway
            # from its group first, so nobody else is going to join or kill this worker)
            p_skip = cfg.must_pass(fail_succ(waits[0]), [cfg.exit.id, cfg.raise_exit.id], {waits[1].id})
            if p_skip is not None:
                ob.violation(f_term, waits[0].ast, "after a failed first wait the ladder can be left without the second (bounded wait, then os._exit) step: a worker whose task "
                                                   "ignores the shutdown and the interrupt lives on", construct="ladder left after first wait", path=cfg.describe_path(p_skip))
        exits = cfg_nodes_with_call(cfg, lambda c: unparse(c.func) == "os._exit")
        p = cfg.must_pass(fail_succ(waits[1]), [cfg.exit.id, cfg.raise_exit.id], {e.id for e in exits})
        ob.site(f_term, exits[0].ast if exits else waits[1].ast, "second wait failed -> os._exit", found=bool(exits))
        if p is not None:
            ob.violation(f_term, waits[1].ast, "after the second failed wait the process is not force-exited: a worker swallowing KeyboardInterrupt lives forever", path=cfg.describe_path(p))
        # the waits are on the execution pool
        for w in waits:
            c = [c for c in calls_in_node(w) if callee_attr(c) in WAITS][0]
            if xtext(repo, f_term, c.func.value) != "self._execpool":
                ob.violation(f_term, c, "the ladder waits on something else than the execution pool")

    with ctx.obligation("C11.c", "serve-returns") as ob:
        fs = repo.func(f"{GB}.WorkerGateway.serve")
        trs = [x for x in repo.own_nodes(fs) if isinstance(x, ast.Try)]
        ob.require(len(trs) == 1, "serve(): try block not found")
        hs = [h for h in trs[0].handlers if h.type is not None and unparse(h.type) == "KeyboardInterrupt"]
        ok = len(hs) == 1 and not any(isinstance(y, ast.Raise) for y in ast.walk(hs[0]))
        ob.site(fs, hs[0] if hs else trs[0], "serve() swallows KeyboardInterrupt (the ladder's SIGINT must not traceback the worker)", ok=ok)
        if not ok:
            ob.violation(fs, trs[0], "serve() does not swallow KeyboardInterrupt")
        body_calls = [callee_attr(c) for s_ in trs[0].body for c in ast.walk(s_) if isinstance(c, ast.Call)]
        if "integrate_as_primary_thread" not in body_calls or "join" not in body_calls:
            ob.violation(fs, trs[0], "serve() does not integrate the main thread and then join the receiver inside the guarded block")
        ir = [c for c in repo.calls_in(fs) if callee_attr(c) == "_initreceive"]
        if len(ir) != 1 or ir[0].lineno > trs[0].lineno:
            ob.violation(fs, fs.node, "serve() does not start the receiver before serving")
        # serve() is the last thing the bootstrap does: module-level serve(io, id) -> WorkerGateway(...).serve()
        fsv = repo.func(f"{GB}.serve")
        if not any(callee_attr(c) == "serve" for c in repo.calls_in(fsv)):
            ob.violation(fsv, fsv.node, "serve(io, id) does not run WorkerGateway.serve()")
        ob.note("the primary loop leaves on the shutdown mailbox value / _shuttingdown: decided by C09.d and C09.j")

    with ctx.obligation("C11.g", "primary-loop-leaves") as ob:
        # serve() returns only if the primary loop leaves after trigger_shutdown(): the same obligation as C09.d
        from .C09 import check_primary_loop
        check_primary_loop(repo, ob)

    with ctx.obligation("C11.h", "receiver-starts-after-setup") as ob:
        # EOF may already be pending when the receiver thread starts: everything its termination path reads (the exec pool,
        # the completion event) must exist before _initreceive() -- a receiver that dies on a missing attribute never runs the ladder
        from ..terms import evaluator as _evs
        fsv = repo.func(f"{GB}.WorkerGateway.serve")
        rc_ = receiver_context(repo)
        read_in_receiver = set()
        for q in rc_:
            if not repo.has_func(q):
                continue
            f_ = repo.func(q)
            if f_.cls is None:
                continue
            for n_ in repo.own_nodes(f_):
                if isinstance(n_, ast.Attribute) and isinstance(n_.value, ast.Name) and n_.value.id == "self" and isinstance(n_.ctx, ast.Load):
                    read_in_receiver.add(n_.attr)
        evs_ = _evs(repo, fsv)
        n_init = 0
        late = set()
        for (_p, st_) in evs_.run(limit=20000):
            ini = [i for i, e in enumerate(st_.events) if e.kind == "call" and e.attr == "_initreceive"]
            if not ini:
                continue
            n_init += 1
            for e in st_.events[ini[0] + 1:]:
                if e.kind == "assign" and str(e.target).startswith("self.") and str(e.target).count(".") == 1 and str(e.target)[5:] in read_in_receiver \
                        and id(e.node) not in late:
                    late.add(id(e.node))
                    ob.violation(fsv, e.node, f"`{e.target}` is set up only after the receiver thread was started, but the receiver's code reads it: with the connection "
                                              "already lost at start-up the receiver dies on the missing attribute and the worker is never terminated",
                                 construct=f"{e.target} after _initreceive")
        ob.site(fsv, fsv.node, "serve(): state read by the receiver thread exists before _initreceive()", paths=n_init, attrs=len(read_in_receiver), ok=not late)
        ob.require(n_init >= 1, "serve(): _initreceive() not found")

    with ctx.obligation("C11.j", "trace-cannot-raise") as ob:
        # the receiver's epilogue is interleaved with trace calls; the analysis (and the code) relies on tracing never raising --
        # e.g. when the inherited stderr became a broken pipe because the initiator died.  Every definition of the module-level
        # trace function is one try statement whose handler catches Exception and cannot raise itself.
        gbm = repo.module(GB)

        def quiet(stmts) -> bool:
            for st_ in stmts:
                if isinstance(st_, ast.Pass) or (isinstance(st_, ast.Expr) and isinstance(st_.value, ast.Constant)):
                    continue
                if isinstance(st_, ast.Try) and not st_.finalbody and catches_all(st_) and all(quiet(h.body) for h in st_.handlers):
                    continue
                return False
            return True

        def catches_all(tr: ast.Try) -> bool:
            return any(h.type is None or unparse(h.type) in ("Exception", "BaseException") for h in tr.handlers)
        ntr = 0
        def module_level(body):
            for st_ in body:
                if isinstance(st_, ast.FunctionDef):
                    yield st_
                elif isinstance(st_, (ast.If, ast.Try)):
                    for fld in ("body", "orelse", "finalbody"):
                        yield from module_level(getattr(st_, fld, []) or [])
                    for h in getattr(st_, "handlers", []) or []:
                        yield from module_level(h.body)
        for fn in module_level(gbm.tree.body):
            if fn.name == "trace":
                ntr += 1
                body = [b for b in fn.body if not (isinstance(b, ast.Expr) and isinstance(b.value, ast.Constant))]
                ok = len(body) == 1 and isinstance(body[0], ast.Try) and catches_all(body[0]) and not body[0].finalbody and all(quiet(h.body) for h in body[0].handlers) \
                    and not body[0].orelse
                ob.site(gbm, fn, "trace() contains every exception of writing the trace line", ok=ok)
                if not ok:
                    ob.violation(gbm, fn, "a trace function can raise (its handler does not catch Exception): with the debug output gone (broken pipe after the initiator "
                                          "died) the first trace call in the receiver's epilogue aborts it before _terminate_execution()", construct="trace can raise")
        ob.require(ntr >= 1, "no trace function definition found in gateway_base")

    # the receiver's epilogue cannot be derailed by a channel created while it sweeps: `finished` is published first (under the write lock)
    from .C04 import check_close_all
    check_close_all(ctx, "C11.k")

    # an idle primary thread must be woken by trigger_shutdown, whatever else is still running in the pool
    from .C09 import check_shutdown_wakeup
    check_shutdown_wakeup(ctx, "C11.i")

    with ctx.obligation("C11.d", "threads-daemonic") as ob:
        st = repo.func(f"{GB}.ThreadExecModel.start")
        cs = [unparse(c.func) for c in repo.calls_in(st)]
        ob.site(st, None, "threads are started with _thread.start_new_thread (never joined at interpreter exit)", calls=cs)
        if cs != ["_thread.start_new_thread"]:
            ob.violation(st, st.node, f"ThreadExecModel.start uses {cs}: non-daemon threads keep a worker alive after serve() returned")
        if "MainThreadOnlyExecModel" in repo.classes and "start" in repo.cls("MainThreadOnlyExecModel").methods:
            m = repo.flat(repo.cls("MainThreadOnlyExecModel").methods["start"])
            if [unparse(c.func) for c in repo.calls_in(m)] != ["_thread.start_new_thread"]:
                ob.violation(m, m.node, "MainThreadOnlyExecModel.start does not use daemonic low-level threads")
        for fi in repo.scan_funcs():
            if fi.module.name == GB:
                for c in repo.calls_in(fi):
                    if unparse(c.func) in ("threading.Thread", "Thread"):
                        ob.violation(fi, c, "a threading.Thread is created in the worker code (non-daemonic by default)")

    with ctx.obligation("C11.e", "callbacks-contained") as ob:
        rc = receiver_context(repo)
        for fi, c, origin in callback_invocations(repo):
            if fi.qualname not in rc:
                continue
            ok = in_exception_handler_scope(repo, fi, c)
            ob.site(fi, c, f"user callback ({origin}) cannot abort the receiver epilogue", ok=ok)
            if not ok:
                ob.violation(fi, c, "a raising user callback aborts the receiver epilogue before _terminate_execution(): the worker is never told to stop")
        ob.require(len(ob.sites) >= 2, "callback invocation sites (floor 2)")

    # serve() is what keeps the worker process alive: once the receiver thread has ended (self.join() returned) nothing may wait without
    # a bound -- for green execution models the escalation ladder can be cut short by its own SIGINT, and returning from serve() is then
    # the only thing that ends the process
    with ctx.obligation("C11.l", "serve-returns-after-receiver-ended") as ob:
        fsv = repo.func(f"{GB}.WorkerGateway.serve")
        cfgs = build_cfg(repo, fsv, Oracle(repo, fsv))
        joins = cfg_nodes_with_call(cfgs, lambda c: callee_attr(c) == "join" and unparse(c.func) == "self.join")
        ob.require(len(joins) >= 1, "serve(): self.join() not found")
        BLOCKING = {"wait", "join", "waitclose", "receive", "get", "acquire", "sleep", "waitall", "waitfinish", "integrate_as_primary_thread", "terminate"}
        seen_, work, n_after = set(), [m for j in joins for (m, _l) in cfgs.succ[j.id]], 0
        while work:
            nid = work.pop()
            if nid in seen_:
                continue
            seen_.add(nid)
            node = cfgs.nodes[nid]
            n_after += 1
            for c in calls_in_node(node):
                bounded = any(k.arg == "timeout" and not (isinstance(k.value, ast.Constant) and k.value.value is None) for k in c.keywords) or \
                    (c.args and callee_attr(c) in ("wait", "join", "waitall", "get", "waitfinish", "acquire", "terminate") and not (isinstance(c.args[0], ast.Constant) and c.args[0].value is None))
                if callee_attr(c) in BLOCKING and not bounded:
                    ob.violation(fsv, c, f"serve() waits without a bound in `{norm(c)[:50]}` after the receiver thread has ended: a worker whose escalation ladder was cut short "
                                         "(green execution models) outlives its initiator", construct="unbounded wait after join")
            work.extend(m for (m, _l) in cfgs.succ[nid])
        ob.site(fsv, joins[0].ast, "nothing waits without a bound after self.join() in serve()", nodes_after_join=n_after)

    # the receiver thread is the only one that notices EOF and runs the ladder: it must never block delivering data (unbounded queue)
    from ..report import borrow
    borrow(ctx, "C10", {"C10.j": "C11.m"})
