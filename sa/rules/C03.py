"""C03 Close is ordered after data and observed consistently by both sides."""

from __future__ import annotations

import ast

from ..cfg import Oracle, build_cfg, guard_atoms
from ..index import AnalysisError, UNKNOWN, norm, unparse
from ..report import Ctx
from ..util import Facts, callee_attr, calls_in_node, cfg_nodes_with_call, feasible_paths, xtext
from ._chan import GB, send_sites

NONRAISING = {"_geterrortext", "geterrortext"}


def _path_has(cfg, path, pred) -> bool:
    for nid, _ in path:
        nd = cfg.nodes[nid]
        if nd.ast is not None and pred(nd):
            return True
    return False


def check_autoclose(ctx: Ctx, oid: str) -> None:
    """C03.e (also C06.e, C10.i): executetask closes its channel on every exit"""
    repo = ctx.repo
    with ctx.obligation(oid, "autoclose") as ob:
        fe = repo.func(f"{GB}.WorkerGateway.executetask")
        cfg = build_cfg(repo, fe, Oracle(repo, fe, nonraising=NONRAISING))
        closes = cfg_nodes_with_call(cfg, lambda c: callee_attr(c) == "close" and unparse(c.func.value) == "channel")
        ob.require(len(closes) >= 2, "channel.close(...) calls not found in executetask")
        for ex, kind in ((cfg.exit.id, "return"), (cfg.raise_exit.id, "raise")):
            p = cfg.must_pass([cfg.entry.id], [ex], {c.id for c in closes})
            ob.site(fe, fe.node, f"every path ENTRY->{kind.upper()} passes channel.close(...)", close_sites=[c.line for c in closes])
            if p is not None:
                ob.violation(fe, fe.node, f"executetask can finish ({kind}) without closing its channel: the initiator's waitclose/receive would block forever",
                             construct=f"exit:{kind}", path=cfg.describe_path(p))


def check_del_notifies(ctx: Ctx, oid: str) -> None:
    """C03.f (also C18.g): dropping an open channel tells the peer (CLOSE / LAST_MESSAGE)"""
    repo = ctx.repo
    with ctx.obligation(oid, "del-notifies") as ob:
        fd = repo.func(f"{GB}.Channel.__del__")
        cfg = build_cfg(repo, fd, Oracle(repo, fd, precise=True))
        consts = repo.cls("Message").consts
        for has_cb in (True, False):
            base = Facts(repo, fd, {}, expand_locals=True)
            for k, v in (("self.gateway is None", False), ("self._closed", False), ("self._receiveclosed.is_set()", False), ("Message is None", False),
                         ("self._items is None", has_cb)):
                base.assume_src(k, v)
            k = 0
            for path, facts in feasible_paths(repo, fd, cfg, base, kill_on_store=False):
                if path[-1][0] != cfg.exit.id:
                    continue
                k += 1
                code = None
                sent = False
                codes: dict[str, object] = {}
                for nid, _ in path:
                    nd = cfg.nodes[nid]
                    if isinstance(nd.ast, ast.Assign) and isinstance(nd.ast.targets[0], ast.Name):
                        v = nd.ast.value
                        if isinstance(v, ast.IfExp):
                            tv = facts.eval(v.test)
                            v = v.body if tv is True else (v.orelse if tv is False else v)
                        codes[nd.ast.targets[0].id] = repo.fold_in(v, fd)
                    for c in (calls_in_node(nd) if nd.ast is not None else []):
                        if callee_attr(c) == "_send" and len(c.args) >= 2 and unparse(c.args[1]) == "self.id":
                            a0 = c.args[0]
                            if isinstance(a0, ast.IfExp):
                                tv = facts.eval(a0.test)
                                a0 = a0.body if tv is True else (a0.orelse if tv is False else a0)
                            code = codes.get(a0.id) if isinstance(a0, ast.Name) and a0.id in codes else repo.fold_in(a0, fd)
                            sent = True
                want = consts["CHANNEL_LAST_MESSAGE"] if has_cb else consts["CHANNEL_CLOSE"]
                ob.site(fd, fd.node, f"opened channel dropped (callback installed: {has_cb})", sent=sent, code=code)
                if not sent or code != want:
                    ob.violation(fd, fd.node, f"dropping an open channel ({'with' if has_cb else 'without'} callback) does not send "
                                              f"{'CHANNEL_LAST_MESSAGE' if has_cb else 'CHANNEL_CLOSE'}: the peer never learns that no more data comes",
                                 construct=f"__del__ cb={has_cb} sent={sent} code={code}")
            ob.require(k >= 1, "__del__: no path for the opened state")


def check_transition_complete(ctx: Ctx, oid: str) -> None:
    """C03.b (also C07.h): both implementations of the closed transition queue ENDMARKER, retire the registry entry
    (_no_longer_opened on every path, also when the channel object is already gone), set _receiveclosed and _closed"""
    repo = ctx.repo
    f_close = repo.func(f"{GB}.Channel.close")
    f_lclose = repo.func(f"{GB}.ChannelFactory._local_close")
    with ctx.obligation(oid, "transition-complete") as ob:
        # -- Channel.close
        from ..util import xtext
        cfg = build_cfg(repo, f_close, Oracle(repo, f_close, precise=True))
        base = Facts(repo, f_close, {}, expand_locals=True)
        base.assume_src("self._closed", False)
        base.assume_src("self._executing", False)
        X = lambda e: xtext(repo, f_close, e)  # noqa: E731
        npaths = 0
        for path, facts in feasible_paths(repo, f_close, cfg, base, kill_on_store=False):
            if path[-1][0] != cfg.exit.id:
                continue
            npaths += 1
            has = lambda pred: _path_has(cfg, path, pred)  # noqa: E731
            closed = has(lambda nd: isinstance(nd.ast, ast.Assign) and unparse(nd.ast.targets[0]) == "self._closed" and repo.fold_in(nd.ast.value, f_close) is True)
            rc = has(lambda nd: any(callee_attr(c) == "set" and X(c.func.value) == "self._receiveclosed" for c in calls_in_node(nd)))
            nlo = has(lambda nd: any(callee_attr(c) == "_no_longer_opened" and c.args and X(c.args[0]) == "self.id" for c in calls_in_node(nd)))
            hasq = facts.value_src("self._items is None")
            put = has(lambda nd: any(callee_attr(c) == "put" and unparse(c.args[0]) == "ENDMARKER" and X(c.func.value) == "self._items" for c in calls_in_node(nd)))
            ob.site(f_close, f_close.node, "Channel.close transition path", closed=closed, receiveclosed=rc, unregistered=nlo, queue_is_None=hasq, endmarker=put)
            miss = [k for k, v in (("_closed = True", closed), ("_receiveclosed.set()", rc), ("_no_longer_opened(self.id)", nlo)) if not v]
            if hasq is not True and not put:
                miss.append("queue.put(ENDMARKER)")
            if miss:
                ob.violation(f_close, f_close.node, f"a path through Channel.close makes the closed transition without {', '.join(miss)}",
                             construct="close missing " + ",".join(miss), path=cfg.describe_path(path))
        ob.require(npaths >= 2, "Channel.close: transition paths not found")
        # -- ChannelFactory._local_close
        cfg2 = build_cfg(repo, f_lclose, Oracle(repo, f_lclose, precise=True))
        idp = f_lclose.params()[1]
        chan = [n for n in repo.own_nodes(f_lclose) if isinstance(n, ast.Assign) and isinstance(n.value, ast.Call) and callee_attr(n.value) == "get" and "_channels" in unparse(n.value)]
        ob.require(len(chan) == 1, "_local_close: channel lookup `self._channels.get(id)` not found")
        CH = xtext(repo, f_lclose, chan[0].value)
        X2 = lambda e: xtext(repo, f_lclose, e)  # noqa: E731
        has_flag = "sendonly" in f_lclose.params()
        if not has_flag:
            # the sendonly case lives in a sibling entry point (boolean parameter replaced by two wrappers): every method of the
            # factory that releases waiters is checked by its effects -- complete, and in the mode its callers need (C02.b, close-all)
            from ._chan import close_effects
            nsib = 0
            for mname, m in sorted(repo.cls("ChannelFactory").methods.items()):
                mf = repo.func(m.qualname)
                if mf.qualname == f_lclose.qualname:
                    continue
                ce = close_effects(repo, mf, force=())
                for c in ce:
                    nsib += 1
                    miss = [k for k, bad in (("_no_longer_opened(id)", not c["unregistered"]), ("queue.put(ENDMARKER)", c["endmarker"] is False)) if bad]
                    if miss:
                        ob.violation(mf, c["node"], f"{mf.short} ends the receiving side of a channel without {', '.join(miss)}", construct=f"{mf.short} missing " + ",".join(miss),
                                     path=c["cfg"].describe_path(c["path"]))
            ob.site(f_lclose, f_lclose.node, "sibling entry points of the close transition are complete", paths=nsib)
        for sendonly in ((False, True) if has_flag else (False,)):
            for found in (False, True):
                base = Facts(repo, f_lclose, {}, expand_locals=True)
                base.assume_src("sendonly", sendonly)
                base.assume_src(f"{CH} is None", not found)
                k = 0
                for path, facts in feasible_paths(repo, f_lclose, cfg2, base, kill_on_store=False):
                    if path[-1][0] != cfg2.exit.id:
                        continue
                    k += 1
                    has = lambda pred: _path_has(cfg2, path, pred)  # noqa: E731
                    nlo = has(lambda nd: any(callee_attr(c) == "_no_longer_opened" and c.args and X2(c.args[0]) == idp for c in calls_in_node(nd)))
                    closed = has(lambda nd: isinstance(nd.ast, ast.Assign) and X2(nd.ast.targets[0]) == f"{CH}._closed" and repo.fold_in(nd.ast.value, f_lclose) is True)
                    rc = has(lambda nd: any(callee_attr(c) == "set" and X2(c.func.value) == f"{CH}._receiveclosed" for c in calls_in_node(nd)))
                    put = has(lambda nd: any(callee_attr(c) == "put" and unparse(c.args[0]) == "ENDMARKER" and X2(c.func.value) == f"{CH}._items" for c in calls_in_node(nd)))
                    hasq = facts.value_src(f"{CH}._items is None")
                    ob.site(f_lclose, f_lclose.node, f"_local_close path (channel {'found' if found else 'gone'}, sendonly={sendonly})",
                            closed=closed, receiveclosed=rc, unregistered=nlo, endmarker=put)
                    miss = []
                    if not nlo:
                        miss.append("_no_longer_opened(id)")
                    if found:
                        if not rc:
                            miss.append("_receiveclosed.set()")
                        if closed == sendonly:
                            miss.append("_closed = True iff not sendonly")
                        if hasq is not True and not put:
                            miss.append("queue.put(ENDMARKER)")
                    if miss:
                        ob.violation(f_lclose, f_lclose.node, f"_local_close (channel {'found' if found else 'gone'}, sendonly={sendonly}) lacks {', '.join(miss)}",
                                     construct=f"_local_close[{found},{sendonly}] missing " + ",".join(miss), path=cfg2.describe_path(path))
                ob.require(k >= 1, "_local_close: no path for a case")
        # ENDMARKER queued before waiters are released
        for fi, cf, ev in ((f_close, cfg, "self._receiveclosed"), (f_lclose, cfg2, "channel._receiveclosed")):
            puts = cfg_nodes_with_call(cf, lambda c: callee_attr(c) == "put" and unparse(c.args[0]) == "ENDMARKER")
            for p in puts:
                if not isinstance(p.ast, ast.Expr):
                    continue


def check_close_published_last(ctx: Ctx, oid: str) -> None:
    """ChannelFactory._local_close: the event that releases waitclose()/receive() callers (`_receiveclosed.set()`) is the last
    state change of the transition -- whoever observes the close finds `_closed`, the endmarker and the unregistration already
    in place (shared: C03.h, C19.f)"""
    repo = ctx.repo
    from ..terms import evaluator as _ev
    flc = repo.func(f"{GB}.ChannelFactory._local_close")
    with ctx.obligation(oid, "close-published-last") as ob:
        ev = _ev(repo, flc)
        nset = 0
        bad = set()
        for (pth, st) in ev.run(limit=20000):
            sets = [e for e in st.events if e.kind == "call" and e.attr == "set" and e.recv is not None and e.recv[0] == "attr" and e.recv[2] == "_receiveclosed"]
            if not sets:
                continue
            nset += 1
            after = st.events[st.events.index(sets[0]) + 1:]
            for e in after:
                late = (e.kind in ("assign", "store", "del") and "." in str(e.target or "")) or \
                       (e.kind == "call" and (e.attr in ("put", "append", "pop", "_no_longer_opened", "warn") or str(e.callee or "").endswith("_no_longer_opened")))
                if late and id(e.node) not in bad:
                    bad.add(id(e.node))
                    ob.violation(flc, e.node, f"`{str(e)[:70]}` happens after _receiveclosed.set(): a thread released from waitclose()/receive() can still see the channel "
                                              "open (isclosed() False, send accepted) or miss the endmarker/unregistration",
                                 construct=f"after set: {norm(e.node)[:60]}")
        ob.site(flc, flc.node, "_receiveclosed.set() is the last state change of _local_close", paths=nset, ok=not bad)
        ob.require(nset >= 2, f"{nset} paths of _local_close set the event (floor 2)")


def check_endmarker_requeue(ctx: Ctx, oid: str) -> None:
    """an ENDMARKER taken from a channel queue is put back on that queue before leaving (shared: C03.a, C04.k)"""
    repo = ctx.repo
    f_recv = repo.func(f"{GB}.Channel.receive")
    f_setcb = repo.func(f"{GB}.Channel.setcallback")
    with ctx.obligation(oid, "endmarker-requeue") as ob:
        n = 0
        for fi in (f_recv, f_setcb):
            cfg = build_cfg(repo, fi, Oracle(repo, fi, precise=True))
            for t in cfg.nodes:
                if t.kind == "test" and isinstance(t.ast, ast.Compare) and len(t.ast.ops) == 1 and unparse(t.ast.comparators[0]) == "ENDMARKER" \
                        and isinstance(t.ast.ops[0], (ast.Is, ast.IsNot)) and t.id in cfg.live():
                    n += 1
                    var = unparse(t.ast.left)
                    em_label = "true" if isinstance(t.ast.ops[0], ast.Is) else "false"
                    puts = cfg_nodes_with_call(cfg, lambda c: callee_attr(c) == "put" and c.args and unparse(c.args[0]) in (var, "ENDMARKER"))
                    starts = [m for (m, l) in cfg.succ[t.id] if l == em_label]
                    p = cfg.must_pass(starts, [cfg.exit.id, cfg.raise_exit.id], {x.id for x in puts})
                    ob.site(fi, t.ast, "ENDMARKER taken from the queue is put back before leaving", puts=[x.line for x in puts])
                    if p is not None:
                        ob.violation(fi, t.ast, "ENDMARKER is consumed without being re-queued: a second receiver (or a later receive) would block forever instead of raising EOFError",
                                     path=cfg.describe_path(p))
                    # put back on the queue it came from
                    for x in puts:
                        for c in calls_in_node(x):
                            if callee_attr(c) == "put":
                                q = unparse(c.func.value)
                                gets = [g for g in repo.calls_in(fi) if callee_attr(g) == "get"]
                                if not gets or unparse(gets[0].func.value) != q:
                                    ob.violation(fi, c, "ENDMARKER is re-queued on a different queue than it was taken from")
        ob.require(n >= 2, f"{n} ENDMARKER test sites (floor 2)")


def check(ctx: Ctx) -> None:
    repo = ctx.repo
    ctx.decides = ("ENDMARKER is put back wherever it is taken; both implementations of the closed transition (Channel.close, "
                   "ChannelFactory._local_close) queue ENDMARKER, unregister, set _receiveclosed and _closed (not under sendonly); send "
                   "refuses a closed channel before _send; close is idempotent; executetask closes the channel on every exit; __del__ "
                   "notifies the peer with the right frame; close frames take the same synchronous send path as data.")
    ctx.not_decided = "outcomes of close-vs-data races; asynchronous KeyboardInterrupt between two statements is not modelled."
    ctx.trust("queue.Queue FIFO", "Event semantics")
    f_recv = repo.func(f"{GB}.Channel.receive")
    f_setcb = repo.func(f"{GB}.Channel.setcallback")
    f_close = repo.func(f"{GB}.Channel.close")
    f_lclose = repo.func(f"{GB}.ChannelFactory._local_close")

    check_endmarker_requeue(ctx, "C03.a")

    check_transition_complete(ctx, "C03.b")
    check_close_published_last(ctx, "C03.h")

    with ctx.obligation("C03.c", "send-refuses-closed") as ob:
        fs = repo.func(f"{GB}.Channel.send")
        cfg = build_cfg(repo, fs, Oracle(repo, fs, precise=True))
        sends = cfg_nodes_with_call(cfg, lambda c: callee_attr(c) == "_send")
        ob.require(len(sends) == 1, "Channel.send: _send not found")
        ok = False
        for (t, lab) in cfg.guards(sends[0].id):
            if t.kind == "test" and unparse(t.ast) in ("self.isclosed()", "self._closed") and lab == "false":
                tru = [cfg.nodes[m] for (m, l) in cfg.succ[t.id] if l == "true"]
                if tru and all(isinstance(x.ast, ast.Raise) and unparse(x.ast.exc).startswith("OSError") for x in tru):
                    ok = True
        ob.site(fs, sends[0].ast, "closed test raising OSError dominates _send", ok=ok)
        if not ok:
            ob.violation(fs, sends[0].ast, "Channel.send does not refuse a closed channel with OSError before sending")
        fic = repo.func(f"{GB}.Channel.isclosed")
        rets = [n for n in repo.own_nodes(fic) if isinstance(n, ast.Return)]
        if len(rets) != 1 or unparse(rets[0].value) != "self._closed":
            ob.violation(fic, fic.node, "isclosed() does not report the _closed flag")

    with ctx.obligation("C03.d", "close-idempotent") as ob:
        cfg = build_cfg(repo, f_close, Oracle(repo, f_close, precise=True))
        n = 0
        for nd in cfg.nodes:
            if nd.ast is None or nd.id not in cfg.live() or nd.kind != "stmt":
                continue
            effect = isinstance(nd.ast, (ast.Assign, ast.AugAssign)) and any(isinstance(t, ast.Attribute) for t in (nd.ast.targets if isinstance(nd.ast, ast.Assign) else [nd.ast.target]))
            effect = effect or any(callee_attr(c) in ("put", "append", "set", "_no_longer_opened") or (isinstance(c.func, ast.Name) and c.func.id == "put") or callee_attr(c) == "_send"
                                   for c in calls_in_node(nd))
            if not effect:
                continue
            n += 1
            f = Facts(repo, f_close, {})
            for (t, lab) in cfg.guards(nd.id):
                if t.kind == "test":
                    f.assume(t.ast, lab == "true")
            ok = f.get("self._closed") is False
            ob.site(f_close, nd.ast, "effect of close() only under `not self._closed`", ok=ok)
            if not ok:
                ob.violation(f_close, nd.ast, "an effect of Channel.close is executed even when the channel is already closed (a second close is not a no-op)")
        ob.require(n >= 5, f"{n} effects in Channel.close (floor 5)")

    check_autoclose(ctx, "C03.e")

    check_del_notifies(ctx, "C03.f")

    with ctx.obligation("C03.g", "same-stream") as ob:
        callers = sorted({f.short for f, _c in repo.callsites_flat(f"{GB}.Message.to_io")})
        ob.site(repo.func(f"{GB}.Message.to_io"), None, "to_io callers", callers=callers)
        if "BaseGateway._send" not in callers or set(callers) - {"BaseGateway._send", "serve_proxy_io"}:
            ob.violation(repo.func(f"{GB}.Message.to_io"), None, f"Message.to_io is called from {callers}: frames could bypass the single ordered send path", construct=f"callers {callers}")
        fsend = repo.func(f"{GB}.BaseGateway._send")
        for c in repo.calls_in(fsend):
            if callee_attr(c) in ("spawn", "start", "put", "put_nowait", "append"):
                ob.violation(fsend, c, "_send defers the write (queue/thread): close frames could overtake data frames")
        tio = [c for c in repo.calls_in(fsend) if callee_attr(c) == "to_io"]
        ob.site(fsend, tio[0] if tio else fsend.node, "_send writes synchronously to the gateway's io")
        if len(tio) != 1 or xtext(repo, fsend, tio[0].args[0]) != "self._io":
            ob.violation(fsend, fsend.node, "_send does not write the frame synchronously to self._io")
        consts = repo.cls("Message").consts
        n = 0
        for fi, c, code, payload in send_sites(repo):
            codes = code if isinstance(code, tuple) else (code,)
            if any(cd in (consts["CHANNEL_CLOSE"], consts["CHANNEL_CLOSE_ERROR"], consts["CHANNEL_LAST_MESSAGE"]) for cd in codes):
                n += 1
                ob.site(fi, c, "close frame goes through _send")
        ob.require(n >= 4, f"{n} close-frame send sites (floor 4)")

    # "everything sent before the close is still receivable": a frame (data or close) that arrives while setcallback hands the queue
    # over must find either the queue or the callback -- the hand-over happens under the receive lock
    from ..util import LockSets as _LS
    from .C10 import check_handover_lock
    check_handover_lock(ctx, _LS(repo), "C03.i")

    # connection loss is observed consistently: every live channel -- with or without a receiver callback -- has its receiving
    # side ended by the sweep (shared with C04.e / C10.h / C11.k)
    from .C04 import check_close_all
    check_close_all(ctx, "C03.j")
    # ... and a callback receiver observes the close (its end marker) whether or not the Channel object still exists
    from .C18 import check_unregister_total
    check_unregister_total(ctx, "C03.k")
