"""C10 Callback receivers see every item once, in order, then one endmarker."""

from __future__ import annotations

import ast

from ..cfg import Oracle, build_cfg
from ..index import AnalysisError, FuncInfo, Repo, UNKNOWN, norm, unparse
from ..report import Ctx, Obligation
from ..util import xtext, Facts, LockSets, callee_attr, calls_in_node, cfg_nodes_with_call, lexical_locks
from ._chan import GB, RECVLOCK, message_registry
from .C02 import check_handover_lock

CLOSERS = ("ChannelFactory._local_close", "ChannelFactory._no_longer_opened", "ChannelFactory._finished_receiving")
#: (caller, callee) pairs that run in a user thread by design -- single named symbols with a reason
EXEMPT = {
    ("Channel.close", "ChannelFactory._no_longer_opened"): "user-thread close of one's own channel; dict.pop makes the endmarker consumption atomic",
    ("Gateway.remote_status", "ChannelFactory._local_close"): "private ad-hoc channel that is never handed out",
}


def receiver_calls_with_locks(repo: Repo) -> list[tuple[FuncInfo, ast.Call, FuncInfo, frozenset]]:
    """DFS from the receiver thread through the call graph tracking the held
    lock set along each chain: (caller, call, callee, held-at-call)."""
    reg = message_registry(repo)
    start = repo.func(f"{GB}.BaseGateway._thread_receiver")
    out = []
    seen = set()
    work = [(start, frozenset())]
    while work:
        fi, held = work.pop()
        if (fi.qualname, held) in seen:
            continue
        seen.add((fi.qualname, held))
        for c in repo.calls_in(fi):
            here = held | frozenset(lexical_locks(repo, fi, c))
            targets = list(repo.resolve_call(c, fi))
            if fi.short == "Message.received" and not targets and ("_types" in xtext(repo, fi, c.func) or (
                    isinstance(c.func, ast.Name) and any("_types" in xtext(repo, fi, a_.value) for a_ in repo.own_nodes(fi)
                                                        if isinstance(a_, ast.Assign) and any(isinstance(x, ast.Name) and x.id == c.func.id for t_ in a_.targets for x in ast.walk(t_))))):
                # the handler taken from the registry (directly, or unpacked into a local first)
                targets = [h for (_n, h) in reg.values()]
            for t in targets:
                if t.short in ("WorkerGateway.executetask",) or t.name == "_perform_spawn":
                    continue
                via_proto = isinstance(c.func, ast.Attribute) and repo.type_of(c.func.value, fi) in ("IO", "ReadIO", "WriteIO")
                if t.cls is not None and (t.cls.name == "ProxyIO" or (via_proto and t.cls.name.startswith("ChannelFile"))):
                    # ProxyIO is a *user* of the via-gateway's channels: the lock in
                    # question there is another gateway's _receivelock object
                    continue
                out.append((fi, c, t, here))
                work.append((repo.flat(t), here))
    return out


def check_closers_serialised(ctx: Ctx, oid: str) -> None:
    repo = ctx.repo
    with ctx.obligation(oid, "closers-serialised") as ob:
        n = 0
        rcalls = receiver_calls_with_locks(repo)
        for caller, call, callee, held in rcalls:
            if callee.short not in CLOSERS:
                continue
            n += 1
            ok = RECVLOCK in held
            if not ok:
                # the callee may take the lock itself around everything it does (lock moved from the only caller into the callee)
                cal = repo.flat(callee)
                work_ = [c for c in repo.calls_in(cal) if callee_attr(c) not in ("trace", "_trace", "log", "acquire", "release")]
                ok = bool(work_) and all(RECVLOCK in lexical_locks(repo, cal, c) for c in work_) and \
                    all(RECVLOCK in lexical_locks(repo, cal, x) for x in repo.own_nodes(cal) if isinstance(x, ast.Attribute) and isinstance(x.ctx, ast.Store))
            ob.site(caller, call, f"receiver-thread path into {callee.short}", held=sorted(held))
            if not ok:
                ob.violation(caller, call, f"the receiver thread enters {callee.short} without holding _receivelock: the close can interleave with setcallback's queue->callback "
                                           "hand-over and the endmarker (or the last items) is lost", construct=f"{caller.short} -> {callee.short} unlocked")
        ob.require(n >= 5, f"{n} receiver-thread paths into channel closers (floor 5)")
        # user-thread callers must be the frozen exemptions
        for name in CLOSERS:
            for caller, call in repo.callsites_flat(f"{GB}.{name}"):
                if caller.short in CLOSERS or caller.short.startswith("Message.") or caller.short == "BaseGateway._thread_receiver":
                    continue
                if caller.qualname in {f.qualname for (f, _c, _t, _h) in rcalls}:
                    continue  # reached from the receiver thread: covered by the lock check above
                key = (caller.short, name)
                ob.site(caller, call, f"user-thread caller of {name}", exemption=EXEMPT.get(key))
                if key not in EXEMPT:
                    ob.violation(caller, call, f"{caller.short} calls {name} outside the receiver thread and is not one of the reasoned exemptions")


def _registration_only_open(repo: Repo, ob: Obligation, f_set: FuncInfo, cfg) -> None:
    """over value terms along all feasible paths of setcallback: the registry store happens only after the queue
    was found empty and with the channel neither closed nor receive-closed, as (callback, endmarker, strconfig)
    under the channel's own id"""
    from ..terms import Evaluator

    ev = Evaluator(repo, f_set, cfg)
    heads = {n.id for n in cfg.nodes if n.kind in ("test", "for") and isinstance(n.owner, (ast.While, ast.For))}
    nreg = 0
    seen = set()
    for (_p, st) in ev.run(back_stops=heads, limit=20000):
        for e in st.events:
            if not (e.kind == "store" and e.recv is not None and e.recv[0] == "sym" and e.recv[1].endswith("._callbacks")):
                continue
            nreg += 1
            before = st.events[:st.events.index(e)]
            gets = [x for x in before if x.kind == "call" and x.attr in ("get", "get_nowait")]
            in_empty = bool(gets) and gets[-1].raised
            cond = st.cond[:e.ncond]
            isset = [x.result for x in before if x.kind == "call" and x.callee == "self._receiveclosed.is_set"]
            open_ = (("sym", "self._closed"), False) in cond and any((r, False) in cond for r in isset)
            if id(e.node) not in seen:
                seen.add(id(e.node))
                ob.site(f_set, e.node, "registration only when the queue is empty and the channel is not closed", in_empty_handler=in_empty, open=open_)
            if not in_empty:
                ob.violation(f_set, e.node, "the callback is registered while items may still be queued: later items would overtake them")
            if not open_:
                ob.violation(f_set, e.node, "the callback is registered on a channel that is already closed: its endmarker would never fire")
            ps = f_set.params()
            if e.value != ("tuple", ("sym", ps[1]), ("sym", ps[2]), ("sym", "self._strconfig")) or e.key != ("sym", "self.id"):
                ob.violation(f_set, e.node, "the registry entry is not (callback, endmarker, strconfig) under the channel's own id")
    if nreg == 0:
        ob.violation(f_set, f_set.node, "setcallback never registers the callback for items arriving later", construct="no registration")


def check_registration_only_open(ctx: Ctx, oid: str) -> None:
    """a registry entry may only be created for a channel that is still open and whose queue is drained:
    entries of closed channels are never removed again (leak) and never get an endmarker"""
    repo = ctx.repo
    f_set = repo.func(f"{GB}.Channel.setcallback")
    cfg = build_cfg(repo, f_set, Oracle(repo, f_set, precise=True, call_raises=lambda c, f: [("Empty", True)] if callee_attr(c) == "get" else None))
    with ctx.obligation(oid, "registration-only-open") as ob:
        _registration_only_open(repo, ob, f_set, cfg)


def check_terminal_frame(ctx: Ctx, oid: str) -> None:
    repo = ctx.repo
    with ctx.obligation(oid, "state-machine-terminal-frame") as ob:
        # the flag that suppresses the terminal frame in close()/__del__ must not be set by the
        # sendonly transition (peer only dropped its object but keeps a callback)
        f_close = repo.func(f"{GB}.Channel.close")
        f_del = repo.func(f"{GB}.Channel.__del__")
        f_lc = repo.func(f"{GB}.ChannelFactory._local_close")
        suppress = []
        for fi in (f_close, f_del):
            cf = build_cfg(repo, fi, Oracle(repo, fi, precise=True))
            for nd in cf.nodes:
                if nd.ast is None or nd.id not in cf.live():
                    continue
                for c in calls_in_node(nd):
                    if callee_attr(c) == "_send" or (isinstance(c.func, ast.Name) and c.func.id == "put"):
                        f = Facts(repo, fi, {})
                        for (t, lab) in cf.guards(nd.id):
                            if t.kind == "test":
                                f.assume(t.ast, lab == "true")
                        if f.get("self._receiveclosed.is_set()") is False:
                            suppress.append((fi, c))
        cl = build_cfg(repo, f_lc, Oracle(repo, f_lc, precise=True))
        sets = cfg_nodes_with_call(cl, lambda c: callee_attr(c) == "set" and "_receiveclosed" in unparse(c.func))
        sendonly_sets = False
        for s in sets:
            f = Facts(repo, f_lc, {})
            for (t, lab) in cl.guards(s.id):
                if t.kind == "test":
                    f.assume(t.ast, lab == "true")
            if f.get("sendonly") is not False:
                sendonly_sets = True
        ob.site(f_lc, sets[0].ast if sets else f_lc.node, "sendonly transition sets the same flag that suppresses the terminal frame", conflated=bool(suppress) and sendonly_sets,
                suppress_sites=[f"{fi.short}:{c.lineno}" for fi, c in suppress])
        ob.require(bool(sets), "_receiveclosed.set() not found in _local_close")
        if suppress and sendonly_sets:
            ob.violation(f_close, suppress[0][1],
                         "close()/__del__ suppress the terminal frame whenever _receiveclosed is set, and the sendonly transition (peer sent CHANNEL_LAST_MESSAGE: it dropped the "
                         "object but keeps a callback) sets it too: the peer's callback never gets its endmarker and its _callbacks entry is never removed",
                         construct="terminal frame suppressed in sendonly state")


def check(ctx: Ctx) -> None:
    repo = ctx.repo
    ctx.decides = ("queue->callback hand-over under the receive lock; receive() refused once a callback is set and a second setcallback refused; "
                   "drain loop calls the callback for every queued item in get order and registers only when the queue is empty and the channel "
                   "open; every endmarker call is dominated by the pop of the registry entry (at most once); every receiver-thread path into a "
                   "channel closer holds the receive lock; MultiChannel closure binding; the channel state machine's terminal frame.")
    ctx.not_decided = "the schedules themselves."
    locks = LockSets(repo)
    check_handover_lock(ctx, locks, "C10.a")
    f_set = repo.func(f"{GB}.Channel.setcallback")
    cfg = build_cfg(repo, f_set, Oracle(repo, f_set, precise=True,
                                        call_raises=lambda c, f: [("Empty", True)] if callee_attr(c) == "get" else None))

    with ctx.obligation("C10.b", "receive-refused") as ob:
        none_store = [n for n in cfg.nodes if isinstance(n.ast, ast.Assign) and unparse(n.ast.targets[0]) == "self._items" and n.id in cfg.live()]
        if not none_store:
            ob.violation(f_set, f_set.node, "setcallback never switches _items to None: receive() stays enabled next to the callback and items go to whoever comes first",
                         construct="no _items = None")
            raise AnalysisError("C10.b: remaining sub-checks need the `_items = None` store")
        ns = none_store[0]
        ob.site(f_set, ns.ast, "_items := None before draining / registering")
        if not (isinstance(ns.ast.value, ast.Constant) and ns.ast.value.value is None):
            ob.violation(f_set, ns.ast, "setcallback does not switch _items to None")
        later = cfg_nodes_with_call(cfg, lambda c: callee_attr(c) == "get" or (isinstance(c.func, ast.Name) and c.func.id == "callback"))
        later += [n for n in cfg.nodes if isinstance(n.ast, ast.Assign) and isinstance(n.ast.targets[0], ast.Subscript) and n.id in cfg.live()]
        for n in later:
            if not cfg.dominated_by(n.id, ns.id):
                ob.violation(f_set, n.ast, "items are drained / the callback registered before receive() is disabled (`_items = None`): a concurrent receive() could steal an item")
        # second setcallback refused
        from ..util import Facts as _F, xtext

        def refused_when_none(cf, fi_, nid):
            """some dominating test establishes `self._items is not None` and its other arm raises OSError"""
            for (t, lab) in cf.guards(nid):
                if t.kind != "test":
                    continue
                f = _F(repo, fi_, {}, expand_locals=True)
                f.assume(t.ast, lab == "true")
                if f.value_src("self._items is None") is False:
                    other = [cf.nodes[m] for (m, l) in cf.succ[t.id] if l in ("true", "false") and l != lab]
                    if other and all(isinstance(x.ast, ast.Raise) and xtext(repo, fi_, x.ast.exc).startswith("OSError") for x in other):
                        return True
            return False
        ok = refused_when_none(cfg, f_set, ns.id)
        ob.site(f_set, ns.ast, "a second setcallback raises OSError", ok=ok)
        if not ok:
            ob.violation(f_set, ns.ast, "a second setcallback is not refused with OSError")
        # the drained queue is the old _items
        it = [n for n in cfg.nodes if isinstance(n.ast, ast.Assign) and unparse(n.ast.value) == "self._items" and n.id in cfg.live()]
        if len(it) != 1 or not cfg.dominated_by(ns.id, it[0].id):
            ob.violation(f_set, ns.ast, "the old queue is not saved before _items is switched to None")
        f_recv = repo.func(f"{GB}.Channel.receive")
        cr = build_cfg(repo, f_recv, Oracle(repo, f_recv, precise=True))
        gets = cfg_nodes_with_call(cr, lambda c: callee_attr(c) == "get")
        ob.require(len(gets) == 1, "receive(): queue get not found")
        ok = refused_when_none(cr, f_recv, gets[0].id)
        ob.site(f_recv, gets[0].ast, "receive() raises OSError when a callback is installed", ok=ok)
        if not ok:
            ob.violation(f_recv, gets[0].ast, "receive() is not refused with OSError after setcallback")

    with ctx.obligation("C10.c", "drain-order") as ob:
        loops = [n for n in repo.own_nodes(f_set) if isinstance(n, ast.While)]
        ob.require(len(loops) == 1, "drain loop not found in setcallback")
        gets = [c for c in repo.calls_in(f_set) if callee_attr(c) == "get"]
        ob.require(len(gets) == 1, "queue get not found in the drain loop")
        g = gets[0]
        nb = any(k.arg == "block" and repo.fold_in(k.value, f_set) is False for k in g.keywords) or callee_attr(g) == "get_nowait" or (g.args and repo.fold_in(g.args[0], f_set) is False)
        ob.site(f_set, g, "non-blocking get in FIFO order", nonblocking=bool(nb))
        if not nb:
            ob.violation(f_set, g, "the drain loop blocks on an empty queue while holding the receive lock")
        var = unparse(repo.parent(g).targets[0]) if isinstance(repo.parent(g), ast.Assign) else None
        cbs = [c for c in repo.calls_in(f_set) if isinstance(c.func, ast.Name) and c.func.id == "callback"]
        item_cbs = [c for c in cbs if c.args and unparse(c.args[0]) == var]
        ob.site(f_set, item_cbs[0] if item_cbs else f_set.node, "every drained non-ENDMARKER item is passed to the callback")
        if len(item_cbs) != 1:
            ob.violation(f_set, f_set.node, "drained items are not passed to the callback exactly once")
        else:
            for nd in cfg.node_containing(item_cbs[0]):
                f = Facts(repo, f_set, {})
                for (t, lab) in cfg.guards(nd.id):
                    if t.kind == "test":
                        f.assume(t.ast, lab == "true")
                if f.get(f"{var} is ENDMARKER") is not False:
                    ob.violation(f_set, item_cbs[0], "the callback can be called with the internal ENDMARKER object")
            # every non-ENDMARKER get leads to the callback before the next get
            gn = cfg.node_containing(g)
            cn = cfg.node_containing(item_cbs[0])
            em_edges = set()
            for t in cfg.nodes:
                if t.kind == "test" and unparse(t.ast) == f"{var} is ENDMARKER":
                    em_edges |= cfg.out_edges(t.id, "true")
                elif t.kind == "test" and unparse(t.ast) in (f"{var} is not ENDMARKER", f"not {var} is ENDMARKER"):
                    em_edges |= cfg.out_edges(t.id, "false")
            starts = [m for (m, l) in cfg.succ[gn[0].id] if not l.startswith("exc:")]
            p = cfg.must_pass(starts, [gn[0].id, cfg.exit.id], {x.id for x in cn}, em_edges)
            if p is not None:
                ob.violation(f_set, g, "a drained item can be skipped without reaching the callback", path=cfg.describe_path(p))
        _registration_only_open(repo, ob, f_set, cfg)

    f_nlo = repo.func(f"{GB}.ChannelFactory._no_longer_opened")
    with ctx.obligation("C10.d", "endmarker-once") as ob:
        from ..terms import evaluator as _ev
        from ._chan import entry_calls
        n = 0
        for fi in (m for m in repo.scan_funcs() if m.cls is not None and m.cls.name == "ChannelFactory"):
            ems = [c for (c, origin, what) in entry_calls(repo, fi) if what == "endmarker" and origin == "_callbacks entry"]
            if not ems:
                continue
            ev = _ev(repo, fi)
            heads = {x.id for x in ev.cfg.nodes if x.kind in ("test", "for") and isinstance(x.owner, (ast.While, ast.For))}
            verdict: dict[int, bool] = {}
            for (_p, st) in ev.run(back_stops=heads, limit=20000):
                for e in st.events:
                    if e.kind == "call" and any(e.node is c for c in ems) and e.recv is not None and e.recv[0] == "idx":
                        E = e.recv[1]
                        popped = [x for x in st.events if x.kind == "call" and x.result == E and x.callee == "self._callbacks.pop" and x.args[:1] == (("sym", fi.params()[1]),)]
                        same = e.args[:1] == (("idx", E, ("const", 1)),)
                        verdict[id(e.node)] = verdict.get(id(e.node), True) and bool(popped) and same
            for c in ems:
                n += 1
                ok = verdict.get(id(c), False)
                ob.site(fi, c, "callback(endmarker) dominated by the pop of this id's registry entry (consumption => at most once)", ok=ok)
                if not ok:
                    ob.violation(fi, c, "the endmarker is delivered from a registry entry that was not consumed (popped) first: it can be delivered twice")
        ob.require(n >= 1, "no endmarker delivery in ChannelFactory")
        # setcallback fires the endmarker itself only on the path that does not register
        em = [c for (c, origin, what) in entry_calls(repo, f_set) if what == "endmarker"]
        ob.require(len(em) == 1, "setcallback: direct endmarker delivery not found")
        regs = [nd for nd in cfg.nodes if isinstance(nd.ast, ast.Assign) and isinstance(nd.ast.targets[0], ast.Subscript) and "_callbacks" in unparse(nd.ast.targets[0]) and nd.id in cfg.live()]
        for nd in cfg.node_containing(em[0]):
            reach = cfg.reach([nd.id])
            back = cfg.reach_back([nd.id])
            both = [r for r in regs if r.id in reach or r.id in back]
            f = Facts(repo, f_set, {})
            for (t, lab) in cfg.guards(nd.id):
                if t.kind == "test":
                    f.assume(t.ast, lab == "true")
            ok = not both and f.get("endmarker is NO_ENDMARKER_WANTED") is False
            ob.site(f_set, em[0], "setcallback delivers the endmarker itself only when ENDMARKER was drained and nothing gets registered", ok=ok)
            if not ok:
                ob.violation(f_set, em[0], "setcallback can deliver the endmarker and also register the callback (second endmarker later), or delivers an unwanted endmarker")
        # no endmarker delivery elsewhere
        for fi in repo.scan_funcs():
            if fi.module.name == GB and fi.short not in ("Channel.setcallback", "ChannelFactory._no_longer_opened"):
                for (c, _origin, what) in entry_calls(repo, fi):
                    if what == "endmarker":
                        ob.violation(fi, c, "endmarker delivered outside _no_longer_opened / setcallback")

    with ctx.obligation("C10.j", "item-queue-unbounded") as ob:
        # the receiver thread puts items (and the end marker) into the channel queue while holding _receivelock, which setcallback
        # needs for draining it: a bounded queue lets the receiver block there for good
        fin = repo.func(f"{GB}.Channel.__init__")
        qs = [n_ for n_ in repo.own_nodes(fin) if isinstance(n_, ast.Assign) and any(unparse(t) == "self._items" for t in n_.targets)]
        ob.require(len(qs) >= 1, "Channel.__init__: the item queue is not created")
        for q in qs:
            v = q.value
            bounded = isinstance(v, ast.Call) and (any(not (isinstance(a, ast.Constant) and a.value in (0, None)) for a in v.args) or
                                                   any(k.arg == "maxsize" and not (isinstance(k.value, ast.Constant) and k.value.value in (0, None)) for k in v.keywords))
            ob.site(fin, q, "channel item queue created without a size bound", ok=not bounded)
            if bounded:
                ob.violation(fin, q, "the channel's item queue is bounded: once it is full the receiver thread blocks in put() while holding _receivelock, setcallback can "
                                     "never drain it, and neither the queued items nor the endmarker reach the callback", construct="bounded item queue")

    check_closers_serialised(ctx, "C10.e")
    from .C04 import check_close_all
    check_close_all(ctx, "C10.h")

    with ctx.obligation("C10.f", "multichannel") as ob:
        from ..terms import cmp_term, const, evaluator, show, subterms as _subterms
        fm = repo.func("multi.MultiChannel.make_receive_queue")
        evm = evaluator(repo, fm, Oracle(repo, fm, precise=True))
        heads = {n.id for n in evm.cfg.nodes if n.kind in ("test", "for") and isinstance(n.owner, (ast.While, ast.For))}
        ENDP = ("sym", fm.params()[1])
        NOEM = cmp_term("is", ENDP, ("sym", "NO_ENDMARKER_WANTED"))
        CHS = ("sym", "self._channels")
        nset = 0
        seen = set()

        def puts_pair(fn_node, bound: dict, free_ok: set, item_param: str, where) -> bool:
            """the callback body puts (its channel, item) on the one shared queue"""
            calls = [c for c in ast.walk(fn_node) if isinstance(c, ast.Call) and callee_attr(c) == "put"]
            if len(calls) != 1 or unparse(calls[0].func.value) != "self._queue" or not calls[0].args or not isinstance(calls[0].args[0], ast.Tuple):
                return False
            elts = [unparse(x) for x in calls[0].args[0].elts]
            return len(elts) == 2 and elts[0] in bound and elts[1] == item_param

        for (pth, st) in evm.run(back_stops=heads, limit=20000):
            for e in st.events:
                if e.kind == "call" and (e.callee or "").endswith(".Queue"):
                    in_loop = any(isinstance(a, (ast.For, ast.While)) for a in repo.ancestors(e.node))
                    cur = [x.old for x in st.events if x.kind == "assign" and x.target == "self._queue" and x.value == e.result]
                    guarded = any((t, v) == (cmp_term("is", c_, ("const", None)), True) for (t, v) in st.cond[:e.ncond] for c_ in cur if c_ is not None) or \
                        any(c_ == ("const", None) for c_ in cur)
                    if not cur:
                        ob.violation(fm, e.node, "the created queue is not stored as the one shared receive queue")
                    elif in_loop and not guarded:
                        ob.violation(fm, e.node, "more than one receive queue can be created")
                if not (e.kind == "call" and e.attr == "setcallback"):
                    continue
                nset += 1
                E = e.recv
                # every member gets its callback: no condition on the member itself (closed / empty / ...) may stand between the loop and
                # setcallback -- a member that already ended still holds its items and end marker, which only setcallback's drain delivers
                def about_member(t):
                    if E in set(_subterms(t)):
                        return True
                    for x in _subterms(t):
                        if isinstance(x, tuple) and x and x[0] == "fresh":
                            mk = [c_ for c_ in st.events if c_.kind == "call" and c_.result == x]
                            if mk and (mk[0].recv == E or E in mk[0].args):
                                return True
                    return False
                if E is not None and any(about_member(t) for (t, _v) in st.cond[:e.ncond]):
                    ob.violation(fm, e.node, "a member channel is given its callback only under a condition on that member: for a member the condition excludes "
                                             "(e.g. one that is already closed) the queued items and the requested endmarker never reach the receive queue",
                                 construct="member-conditional setcallback")
                if not (E is not None and E[0] == "elem" and E[1] == CHS):
                    ob.violation(fm, e.node, "setcallback is not applied to the loop's channel with the per-channel closure")
                    continue
                cb = e.arg(0, "callback")
                ok = False
                if cb is not None and cb[0] == "func" and cb[1] in st.defs:
                    fn = st.defs[cb[1]]
                    dn = [a.arg for a in fn.args.args][-len(fn.args.defaults):] if fn.args.defaults else []
                    dv = st.env.get(f"{cb[1]}.__defaults__", ("tuple",))[1:]
                    bound = {k: v for k, v in zip(dn, dv) if v == E}
                    lv = unparse(e.node.func.value) if isinstance(e.node.func, ast.Attribute) else "?"
                    used_free = [n_ for n_ in ast.walk(fn) if isinstance(n_, ast.Name) and n_.id == lv and isinstance(n_.ctx, ast.Load)
                                 and not any(n_ is d or n_ in ast.walk(d) for d in fn.args.defaults)]
                    pos = [a.arg for a in fn.args.args if a.arg not in dn]
                    if not bound or used_free:
                        ob.violation(fm, fn, "the per-channel callback refers to the loop variable by late binding: every item would be attributed to the last channel")
                    ok = bool(bound) and not used_free and len(pos) == 1 and puts_pair(fn, bound, set(), pos[0], fm)
                elif cb is not None and cb[0] == "pcall" and cb[1] == "partial" and len(cb[2]) >= 2 and cb[2][0][0] == "sym" and cb[2][0][1].startswith("self."):
                    tgt = repo.lookup_method(repo.cls("MultiChannel"), cb[2][0][1].split(".", 1)[1])
                    if tgt is not None:
                        ps = [p_ for p_ in tgt.params() if p_ != "self"]
                        nb = len(cb[2]) - 1
                        bound = {p_: v for p_, v in zip(ps, cb[2][1:]) if v == E}
                        ok = bool(bound) and len(ps) == nb + 1 and puts_pair(tgt.node, bound, set(), ps[nb], tgt)
                elif cb is not None and cb[0] == "lambda" and cb[1] in st.defs:
                    fn = st.defs[cb[1]]
                    dn = [a.arg for a in fn.args.args][-len(fn.args.defaults):] if fn.args.defaults else []
                    lv = unparse(e.node.func.value) if isinstance(e.node.func, ast.Attribute) else "?"
                    bound = {k: E for k, d in zip(dn, fn.args.defaults) if unparse(d) == lv}
                    pos = [a.arg for a in fn.args.args if a.arg not in dn]
                    ok = bool(bound) and len(pos) == 1 and puts_pair(fn.body, bound, set(), pos[0], fm)
                    if not bound:
                        ob.violation(fm, fn, "the per-channel callback refers to the loop variable by late binding: every item would be attributed to the last channel")
                if id(e.node) not in seen:
                    ob.site(fm, e.node, "per-channel callback binds its channel early and puts (channel, item) on the one shared queue", ok=ok, callback=show(cb) if cb else None)
                if not ok:
                    ob.violation(fm, e.node, "the per-channel callback does not put (its channel, item) on the shared queue")
                # endmarker forwarding
                em = e.arg(1, "endmarker")
                fw = em == ENDP
                star = e.kwargs.get("**")
                if star is not None:
                    fw = fw or any(x.kind == "store" and x.recv == star and x.key == const("endmarker") and x.value == ENDP for x in st.events[:st.events.index(e)])
                wanted = st.known.get(NOEM)
                if id(e.node) not in seen:
                    ob.site(fm, e.node, "the caller's endmarker is forwarded to every member channel", forwards=fw, no_endmarker_branch=wanted)
                seen.add(id(e.node))
                if wanted is not True and not fw:
                    ob.violation(fm, e.node, "a requested endmarker is not forwarded to a member channel")
                if wanted is True and fw:
                    ob.violation(fm, e.node, "the private NO_ENDMARKER_WANTED default is forwarded as if it were a requested endmarker")
        ob.require(nset >= 1, "setcallback calls not found")

    check_terminal_frame(ctx, "C10.g")
    # the endmarker of a remote_exec channel is triggered by the worker closing it when the code ends
    from .C03 import check_autoclose
    check_autoclose(ctx, "C10.i")

    # the endmarker is also delivered for a channel whose object was dropped while the callback stays registered ...
    from .C18 import check_unregister_total
    check_unregister_total(ctx, "C10.k")
    # ... when the connection is lost, whatever the transport (the receiver epilogue reaches the sweep before anything that can raise) ...
    from .C04 import check_receiver_epilogue
    check_receiver_epilogue(ctx, "C10.l")
    # ... and when the peer's last message arrives (send-only transition: the registration is removed and the end marker fired as well)
    from .C03 import check_transition_complete
    check_transition_complete(ctx, "C10.m")
