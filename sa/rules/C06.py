"""C06 remote_exec runs exactly the given code with a live channel and clean stdio."""

from __future__ import annotations

import ast

from ..cfg import Oracle, build_cfg
from ..index import AnalysisError, UNKNOWN, norm, unparse
from ..report import Ctx
from ..util import Facts, arg, callee_attr, calls_in_node, cfg_nodes_with_call

GB = "gateway_base"
NONRAISING = {"_geterrortext", "geterrortext"}


def check_stdio_typestate(ctx: Ctx, oid: str) -> None:
    """init_popen_io: the protocol IO is built from dup'ed descriptors, fds 0/1 are re-pointed at devnull before the IO is returned and
    sys.stdin/sys.stdout are rebound to them -- remote code (and its children) can neither read from nor write into the frame stream
    (shared: C06.f, C02.o)"""
    repo = ctx.repo
    with ctx.obligation(oid, "stdio-typestate") as ob:
        from ..util import expand, xtext
        fp = repo.func(f"{GB}.init_popen_io")
        cfp = build_cfg(repo, fp, Oracle(repo, fp, precise=True))

        def nodes_calling(pred):
            return cfg_nodes_with_call(cfp, pred)

        pio = nodes_calling(lambda c: isinstance(c.func, ast.Name) and c.func.id == "Popen2IO" and len(c.args) == 3 and "os.dup(" in xtext(repo, fp, c))
        ob.require(len(pio) == 1, "init_popen_io: construction of the protocol IO from dup'ed descriptors not found")
        pcall = [c for c in calls_in_node(pio[0]) if isinstance(c.func, ast.Name) and c.func.id == "Popen2IO"][0]
        out_x, in_x = xtext(repo, fp, pcall.args[0]), xtext(repo, fp, pcall.args[1])
        ok = out_x.replace('"', "'").startswith("execmodel.fdopen(os.dup(1), 'w'") and in_x.replace('"', "'").startswith("execmodel.fdopen(os.dup(0), 'r'")
        ob.site(fp, pcall, "protocol IO = Popen2IO(outfile = fdopen(dup(1),'w'), infile = fdopen(dup(0),'r'))", outfile=out_x[:50], infile=in_x[:50])
        if not ok:
            ob.violation(fp, pcall, "the protocol IO is not built from (dup'ed stdout opened for writing, dup'ed stdin opened for reading)")
        sig = [a.arg for a in repo.func(f"{GB}.Popen2IO.__init__").node.args.args]
        if sig[:3] != ["self", "outfile", "infile"]:
            ob.violation(repo.func(f"{GB}.Popen2IO.__init__"), None, "Popen2IO.__init__ parameter order changed (outfile, infile)")
        for fd, flag in ((0, "os.O_RDONLY"), (1, "os.O_WRONLY")):
            dups = nodes_calling(lambda c: unparse(c.func) == "os.dup" and len(c.args) == 1 and repo.fold_in(c.args[0], fp) == fd)
            dup2s = nodes_calling(lambda c: unparse(c.func) == "os.dup2" and len(c.args) == 2 and repo.fold_in(c.args[1], fp) == fd)
            # only the POSIX/dup branch matters: nodes dominated by a dup of this fd
            ok = bool(dups) and bool(dup2s) and all(any(cfp.dominated_by(b.id, a.id) for a in dups) for b in dup2s)
            ob.site(fp, dup2s[0].ast if dup2s else fp.node, f"fd {fd}: os.dup({fd}) precedes os.dup2(devnull, {fd}) on every path", ok=ok)
            if not ok:
                ob.violation(fp, dup2s[0].ast if dup2s else fp.node, f"fd {fd} is redirected before it was duplicated (or not at all): the protocol stream would be lost or remote prints would enter it",
                             construct=f"fd{fd} order")
                continue
            for b in dup2s:
                c = [c for c in calls_in_node(b) if unparse(c.func) == "os.dup2"][0]
                from ..util import value_at
                src = norm(value_at(repo, fp, cfp, b.id, c.args[0]))
                if not (src.startswith("os.open(") and src.rstrip(")").endswith(flag)):
                    ob.violation(fp, c, f"fd {fd} is redirected to `{src[:60]}`, not to devnull opened {flag}")
            # the redirection dominates the return of the protocol IO
            rets = [n for n in cfp.nodes if isinstance(n.ast, ast.Return) and n.id in cfp.live() and any(cfp.dominated_by(n.id, a.id) for a in dups)]
            for r in rets:
                if not any(cfp.dominated_by(r.id, b.id) for b in dup2s):
                    ob.violation(fp, r.ast, f"init_popen_io can return without fd {fd} being redirected to devnull")
        # descriptor allocation order: the kernel hands out the lowest free number, so when the worker was started with a low
        # descriptor closed (fd 2: `2>&-`, a daemonising parent) the FIRST descriptor this function allocates becomes that
        # number.  If it were the duplicate of the protocol's output pipe, everything written to stderr would enter the frame
        # stream; a duplicate of the (read-only) input side or devnull is harmless.
        d1 = nodes_calling(lambda c: unparse(c.func) == "os.dup" and len(c.args) == 1 and repo.fold_in(c.args[0], fp) == 1)
        alloc = nodes_calling(lambda c: (unparse(c.func) == "os.dup" and len(c.args) == 1 and repo.fold_in(c.args[0], fp) != 1) or unparse(c.func) == "os.open")
        for n in d1:
            ok = any(a.id != n.id and cfp.dominated_by(n.id, a.id) for a in alloc)
            ob.site(fp, n.ast, "the duplicate of the output pipe is not the first descriptor allocated (a closed fd 2 cannot become the protocol stream)", ok=ok)
            if not ok:
                ob.violation(fp, n.ast, "os.dup(1) is the first descriptor init_popen_io allocates: in a worker started with fd 2 closed the protocol's output pipe lands on "
                                        "fd 2 and everything the remote code writes to stderr enters the frame stream", construct="dup(1) allocated first")
        rb = {}
        for n in cfp.nodes:
            if isinstance(n.ast, ast.Assign) and unparse(n.ast.targets[0]) in ("sys.stdin", "sys.stdout") and n.id in cfp.live() and any(cfp.dominated_by(n.id, p.id) for p in pio):
                rb[unparse(n.ast.targets[0])] = n
        for name, fd, mode in (("sys.stdin", 0, "r"), ("sys.stdout", 1, "w")):
            n = rb.get(name)
            v = expand(repo, fp, n.ast.value) if n is not None else None
            ok = isinstance(v, ast.Call) and unparse(v.func) == "execmodel.fdopen" and repo.fold_in(v.args[0], fp) == fd and repo.fold_in(v.args[1], fp) == mode
            ob.site(fp, n.ast if n is not None else fp.node, f"{name} rebound to the redirected fd {fd} after the protocol IO was built", ok=ok)
            if not ok:
                ob.violation(fp, n.ast if n is not None else fp.node, f"{name} is not rebound (after the protocol IO was built) to the redirected descriptor {fd}: remote code using it would write into the protocol stream",
                             construct=f"{name} rebinding")


def check(ctx: Ctx) -> None:
    repo = ctx.repo
    ctx.decides = ("every local validation (kwargs without function, lambda, first parameter, closure, non-builtin globals, missing source) raises before "
                   "a channel is allocated or anything is sent; the exec namespace binds `channel` and __name__='__channelexec__'; the 4-tuple payload "
                   "(source, file_name, call_name, kwargs) keeps its roles from remote_exec to compile/lookup/**kwargs; _executing is reset in a finally and "
                   "close() refuses while executing; the channel is closed on every exit of executetask; fds 0/1 are dup'ed before being redirected to "
                   "devnull and the protocol IO is built from the dups; source is prefixed by co_firstlineno-1 newlines and compiled under the sent file name.")
    ctx.not_decided = ("soundness of the purity check (_find_non_builtin_globals) over all programs; what arbitrary remote bodies do. Observed while reading, not "
                       "claimed: a nested def/lambda parameter is rejected as a 'global'; a module global shadowing a builtin name passes the check.")
    f_re = repo.func("gateway.Gateway.remote_exec")
    f_sf = repo.func("gateway._source_of_function")
    f_ex = repo.func(f"{GB}.WorkerGateway.executetask")

    with ctx.obligation("C06.a", "validate-before-send") as ob:
        cfg = build_cfg(repo, f_re, Oracle(repo, f_re, precise=True))
        nc = cfg_nodes_with_call(cfg, lambda c: callee_attr(c) == "newchannel")
        sd = cfg_nodes_with_call(cfg, lambda c: callee_attr(c) == "_send")
        ob.require(len(nc) == 1 and len(sd) == 1, "remote_exec: newchannel/_send not found")
        after = cfg.reach([nc[0].id])
        n = 0
        for nd in cfg.nodes:
            if nd.ast is None or nd.id not in cfg.live():
                continue
            validating = isinstance(nd.ast, ast.Raise) or any(callee_attr(c) in ("_source_of_function", "getsource", "getsourcefile", "dedent") for c in calls_in_node(nd))
            if not validating:
                continue
            n += 1
            ok = nd.id not in after or nd.id == nc[0].id
            ob.site(f_re, nd.ast, "validation / source extraction precedes channel allocation", ok=ok)
            if not ok:
                ob.violation(f_re, nd.ast, "a local validation can fail after the channel was allocated / the request was sent: the rejected call leaves a dangling channel or a started remote task")
        ob.require(n >= 4, f"{n} validation sites in remote_exec (floor 4)")
        if not cfg.dominated_by(sd[0].id, nc[0].id):
            ob.violation(f_re, sd[0].ast, "CHANNEL_EXEC can be sent without a freshly allocated channel")
        # kwargs without a function -> TypeError (on value terms: the payload's call_name and the kwargs dict)
        from ..terms import NONE as _NONE, evaluator as _ev, show as _show, tv as _tv
        kwn = f_re.node.args.kwarg.arg if f_re.node.args.kwarg else "kwargs"
        KW = ("sym", kwn)
        ev_re = _ev(repo, f_re)
        re_paths = list(ev_re.run(limit=20000))
        ok = True
        nte = 0
        for (pth, st) in re_paths:
            end_ = ev_re.cfg.nodes[pth[-1][0]]
            rs = [e for e in st.events if e.kind == "raise"]
            if end_.kind == "raise" and rs and rs[-1].value[0] == "fresh" and rs[-1].value[2] == "TypeError" and st.known.get(KW) is True:
                nte += 1
            sends = [e for e in st.events if e.kind == "call" and e.callee == "self._send"]
            for sd_ in sends:
                pay = [x for x in st.events if x.kind == "call" and x.result == (sd_.args[2] if len(sd_.args) > 2 else None)]
                tup = pay[0].args[0] if pay and pay[0].args else None
                if tup is None or tup[0] != "tuple" or len(tup) != 5:
                    continue
                call_name = tup[3]
                # a request goes out with kwargs only if there is a function to call
                if _tv(call_name, st.known) is False and st.known.get(KW) is not False:
                    ok = False
        ob.site(f_re, f_re.node, "kwargs with a non-function source raise TypeError", ok=ok and nte >= 1, typeerror_paths=nte)
        if not (ok and nte >= 1):
            ob.violation(f_re, f_re.node, "keyword arguments for a non-function source are not rejected with TypeError", construct="no kwargs TypeError")
        # the checks of _source_of_function, as what every *accepting* path has established (value terms: the spelling of a
        # test -- truthiness / len() / a local holding args[0] / inverted branches -- is irrelevant)
        from ..terms import NONE as _NONE, cmp_term as _cmp, const as _cst, subterms as _sub
        fparam = f_sf.params()[0]
        FN = ("sym", fparam)
        ev_sf = _ev(repo, f_sf)
        sf_paths = list(ev_sf.run(limit=20000))

        def argspec_args(st):
            """the positional parameter names as obtained from inspect: getfullargspec(f).args or getargspec(f)[0]"""
            out = []
            for e in st.events:
                if e.kind == "call" and e.result is not None and e.args[:1] == (FN,) and not e.raised:
                    nm = str(e.callee or "").split(".")[-1]
                    if nm == "getfullargspec":
                        out.append(("attr", e.result, "args"))
                    elif nm == "getargspec":
                        out.append(("idx", e.result, _cst(0)))
            return out

        def requirements(st):
            known = dict(st.cond)
            A = argspec_args(st)
            ug = [e.result for e in st.events if e.kind == "call" and str(e.callee or "").endswith("_find_non_builtin_globals") and e.result is not None]
            res = {}
            res["lambda"] = _tv(_cmp("eq", ("sym", fparam + ".__name__"), _cst("<lambda>")), known) is False
            res["first parameter is `channel`"] = bool(A) and _tv(_cmp("eq", ("idx", A[-1], _cst(0)), _cst("channel")), known) is True
            res["closure"] = _tv(_cmp("is", ("sym", fparam + ".__closure__"), _NONE), known) is True
            if ug:
                L = ("pcall", "len", (ug[-1],), ())
                res["non-builtin globals"] = _tv(ug[-1], known) is False or _tv(_cmp("eq", L, _cst(0)), known) is True or _tv(_cmp("lt", _cst(0), L), known) is False
            else:
                res["non-builtin globals"] = False
            return res
        found = {k: True for k in ("lambda", "first parameter is `channel`", "closure", "non-builtin globals")}
        n_acc = 0
        rejecting = 0
        for (pth, st) in sf_paths:
            end_ = ev_sf.cfg.nodes[pth[-1][0]]
            if pth[-1][0] == ev_sf.cfg.exit.id:
                n_acc += 1
                for k, v in requirements(st).items():
                    if not v:
                        found[k] = False
            else:
                rs = [e for e in st.events if e.kind == "raise"]
                if rs and rs[-1].value is not None and rs[-1].value[0] == "fresh" and str(rs[-1].value[2]) == "ValueError":
                    rejecting += 1
        ob.require(n_acc >= 1, "_source_of_function: no accepting path found")
        for k, v in found.items():
            ob.site(f_sf, f_sf.node, f"_source_of_function accepts only after: {k}", ok=v, rejecting_paths=rejecting)
            if not v:
                ob.violation(f_sf, f_sf.node, f"_source_of_function no longer rejects functions by the check `{k}` with ValueError", construct=f"missing check: {k}")
        if rejecting < 4:
            ob.violation(f_sf, f_sf.node, "_source_of_function no longer rejects with ValueError", construct="ValueError paths")
        # a function without retrievable source: inspect.getsource raising OSError ends in ValueError
        orc_src = Oracle(repo, f_sf, precise=True, call_raises=lambda c, f: [("OSError", True)] if unparse(c.func).endswith("getsource") else None)
        ev_src = _ev(repo, f_sf, orc_src)
        n_src = 0
        for (pth, st) in ev_src.run(limit=20000):
            if any(e.kind == "call" and e.raised and str(e.callee or "").endswith("getsource") for e in st.events):
                n_src += 1
                rs = [e for e in st.events if e.kind == "raise"]
                if not (pth[-1][0] == ev_src.cfg.raise_exit.id and rs and rs[-1].value is not None and rs[-1].value[0] == "fresh" and str(rs[-1].value[2]) == "ValueError"):
                    ob.violation(f_sf, f_sf.node, "a function without retrievable source is not rejected with ValueError", construct="missing check: source")
                    break
        if n_src == 0:
            ob.violation(f_sf, f_sf.node, "a function without retrievable source is not rejected with ValueError", construct="missing check: source")
        # the purity scan sees (dedented source of the function, its code object)
        for (pth, st) in sf_paths:
            if pth[-1][0] != ev_sf.cfg.exit.id:
                continue
            pc = [e for e in st.events if e.kind == "call" and str(e.callee or "").endswith("_find_non_builtin_globals")]
            okp = bool(pc) and len(pc[-1].args) == 2 and pc[-1].args[1] == ("sym", fparam + ".__code__") and pc[-1].args[0][0] == "fresh" and str(pc[-1].args[0][2]).endswith("dedent")
            if okp:
                gsrc = [e for e in st.events if e.kind == "call" and e.result is not None and str(e.callee or "").endswith("getsource") and e.args[:1] == (FN,)]
                dd = [e for e in st.events if e.kind == "call" and e.result == pc[-1].args[0]]
                okp = bool(gsrc) and bool(dd) and dd[0].args[:1] == (gsrc[-1].result,)
            if not okp:
                ob.violation(f_sf, f_sf.node, "the purity check is not applied to (source, code object) of the function")
                break

    with ctx.obligation("C06.h", "purity-scan-complete") as ob:
        # necessary condition of "non-builtin globals are rejected locally": the scan must see the names used in *nested*
        # scopes too (lambda, nested def, comprehension, defaults).  Soundness over all programs is not claimed.
        fg = repo.func("gateway._find_non_builtin_globals")
        src_p, code_p = fg.params()[0], fg.params()[1]
        walks = [c for c in repo.calls_in(fg) if unparse(c.func) == "ast.walk"]
        whole_source = any(isinstance(c.args[0], ast.Call) and unparse(c.args[0].func) == "ast.parse" and unparse(c.args[0].args[0]) == src_p for c in walks)
        code_only = [x for x in repo.own_nodes(fg) if isinstance(x, ast.Attribute) and unparse(x.value) == code_p and x.attr in ("co_names", "co_code")] + \
                    [c for c in repo.calls_in(fg) if unparse(c.func) in ("dis.get_instructions", "dis.Bytecode") and c.args and unparse(c.args[0]) == code_p]
        recurses = any(isinstance(x, ast.Attribute) and x.attr == "co_consts" for x in repo.own_nodes(fg))
        ob.site(fg, walks[0] if walks else fg.node, "the purity scan covers the whole function source (all nested scopes)", whole_source=whole_source, code_object_only=bool(code_only))
        if code_only and not recurses and not whole_source:
            ob.violation(fg, code_only[0], "the purity check inspects only the outer code object: globals referenced from a lambda, nested def, comprehension or default "
                                           "value are not seen, the function passes and fails remotely with NameError after CHANNEL_EXEC was sent")
        elif not whole_source and not code_only:
            raise AnalysisError("C06.h: _find_non_builtin_globals uses a scanning idiom the checker does not know")
        if whole_source:
            from ..util import xtext
            # which names are exempted: every membership test on the scanned node's id, each container split into the maps
            # it is made of (ChainMap(A, B), A | B, {**A, **B}, set(A)/dict.fromkeys(A)/vars(A)/dir(A) wrappers; locals expanded)
            def parts(e: ast.AST, depth: int = 0) -> list[str]:
                if depth > 6:
                    return [unparse(e)]
                if isinstance(e, ast.Name):
                    al = repo.local_alias(e.id, fg)
                    if al is not None and not isinstance(al, ast.Name):
                        return parts(al, depth + 1)
                if isinstance(e, ast.Call) and not e.keywords and unparse(e.func).split(".")[-1] == "ChainMap":
                    return [p_ for a in e.args for p_ in parts(a, depth + 1)]
                if isinstance(e, ast.BinOp) and isinstance(e.op, ast.BitOr):
                    return parts(e.left, depth + 1) + parts(e.right, depth + 1)
                if isinstance(e, ast.Dict) and all(k is None for k in e.keys):
                    return [p_ for a in e.values for p_ in parts(a, depth + 1)]
                if isinstance(e, ast.Call) and not e.keywords and len(e.args) == 1 and unparse(e.func) in ("set", "frozenset", "dict", "list", "tuple", "dict.fromkeys", "vars", "dir", "sorted"):
                    return parts(e.args[0], depth + 1)
                if isinstance(e, (ast.Set, ast.List, ast.Tuple)) and all(isinstance(x, ast.Starred) for x in e.elts) and e.elts:
                    return [p_ for a in e.elts for p_ in parts(a.value, depth + 1)]
                return [xtext(repo, fg, e)]
            exempt = []
            for x in repo.own_nodes(fg):
                if isinstance(x, ast.Compare) and len(x.ops) == 1 and isinstance(x.ops[0], (ast.In, ast.NotIn)) and xtext(repo, fg, x.left) == "node.id":
                    exempt += parts(x.comparators[0])
            name_test = any(isinstance(x, ast.Call) and unparse(x.func) == "isinstance" and len(x.args) == 2 and unparse(x.args[1]) == "ast.Name" for x in repo.own_nodes(fg))
            LOCALS, BUILTINS = (f"{code_p}.co_varnames",), ("builtins.__dict__", "builtins", "__builtins__")
            bad = [e for e in exempt if e not in LOCALS + BUILTINS]
            ob.site(fg, fg.node, "exempted names = local variable names of the code object and builtins only", exemptions=exempt)
            if bad or not name_test or not any(e in BUILTINS for e in exempt):
                ob.violation(fg, fg.node, f"the purity scan exempts more than local variable names and builtins ({bad or exempt})", construct=f"exemptions {bad or exempt}")

    with ctx.obligation("C06.b", "namespace") as ob:
        # on value terms: the task is item = (channel, (source, file_name, call_name, kwargs)); whatever locals carry the parts
        from ..terms import const as _k, dict_entries as _entries, evaluator as _evb, tv as _tvb
        ITEM = ("sym", f_ex.params()[1])
        CH, T_ = ("idx", ITEM, _k(0)), ("idx", ITEM, _k(1))
        SRC_, FILE_, CALL_, KW_ = (("idx", T_, _k(i_)) for i_ in range(4))
        ev_b = _evb(repo, f_ex, Oracle(repo, f_ex, nonraising=NONRAISING))
        ex_paths = list(ev_b.run(limit=40000))
        n_exec = n_call = 0
        bad_ns = bad_name = bad_exec = bad_call = bad_guard = False
        for (_p, st_) in ex_paths:
            for e in st_.events:
                if e.kind == "call" and e.callee == "exec" and e.args:
                    n_exec += 1
                    if len(e.args) != 2:
                        bad_exec = True
                        continue
                    ents = _entries(st_, e.args[1], e)
                    if ents.get("channel") != CH:
                        bad_ns = True
                    if ents.get("__name__") != _k("__channelexec__"):
                        bad_name = True
                    mk = [x for x in st_.events if x.kind == "call" and x.result == e.args[0]]
                    if not (mk and mk[0].callee == "compile"):
                        bad_exec = True
                    NS = e.args[1]
                    known = dict(st_.cond)
                    calls_f = [x for x in st_.events[st_.events.index(e):] if x.kind == "call" and x.recv is not None and x.recv[0] in ("idx", "dictget")
                               and x.recv[1] == NS and x.attr is None]
                    if _tvb(CALL_, known) is True:
                        n_call += 1
                        if not (len(calls_f) == 1 and calls_f[0].recv[2] == CALL_ and calls_f[0].args == (CH,) and calls_f[0].kwargs == {"**": KW_}):
                            bad_call = True
                    elif calls_f:
                        bad_guard = True
        ob.require(n_exec >= 1, "exec(...) not found")
        ob.site(f_ex, f_ex.node, "exec namespace binds channel and __name__; the named function is called as f(channel, **kwargs)", exec_paths=n_exec, call_paths=n_call,
                ok=not (bad_ns or bad_name or bad_exec or bad_call or bad_guard))
        if bad_ns:
            ob.violation(f_ex, f_ex.node, "the exec namespace does not bind `channel` to the task's channel")
        if bad_name:
            ob.violation(f_ex, f_ex.node, "the exec namespace does not bind __name__ to '__channelexec__'")
        if bad_exec:
            ob.violation(f_ex, f_ex.node, "the compiled code is not executed in the fresh namespace (one dict as globals)")
        if bad_call or n_call == 0:
            ob.violation(f_ex, f_ex.node, "the remote function is not looked up by call_name in the namespace and called as f(channel, **kwargs)")
        if bad_guard:
            ob.violation(f_ex, f_ex.node, "the function call is not conditioned on a call_name being given")

    with ctx.obligation("C06.c", "payload-roles") as ob:
        from ..terms import NONE as _NONE2, const as _c
        src_p = f_re.params()[1]
        SRC = ("sym", src_p)
        roles = {"module": 0, "function": 0, "text": 0}
        nsend = 0
        for (pth, st) in re_paths:
            if pth[-1][0] != ev_re.cfg.exit.id:
                continue
            sends = [e for e in st.events if e.kind == "call" and e.callee == "self._send"]
            if len(sends) != 1:
                ob.violation(f_re, f_re.node, "remote_exec does not send exactly one CHANNEL_EXEC request")
                continue
            nsend += 1
            sd_ = sends[0]
            chans = [e.result for e in st.events if e.kind == "call" and e.callee == "self.newchannel"]
            if sd_.args[:1] != (_c(repo.cls("Message").consts["CHANNEL_EXEC"]),) or len(sd_.args) < 3 or not chans or sd_.args[1] != ("attr", chans[0], "id"):
                ob.violation(f_re, sd_.node, "remote_exec does not send CHANNEL_EXEC on the new channel's id")
            if not chans or st.ret != chans[0]:
                ob.violation(f_re, f_re.node, "remote_exec does not return the channel it connected")
            pay = [x for x in st.events if x.kind == "call" and x.result == (sd_.args[2] if len(sd_.args) > 2 else None)]
            tup = pay[0].args[0] if pay and pay[0].callee and pay[0].callee.endswith("dumps_internal") and pay[0].args else None
            ok = tup is not None and tup[0] == "tuple" and len(tup) == 5 and tup[4] == ("sym", kwn)
            if nsend == 1:
                ob.site(f_re, sd_.node, "payload = (source, file_name, call_name, kwargs)", ok=ok)
            if not ok:
                ob.violation(f_re, sd_.node, "remote_exec does not send the 4-tuple (source, file_name, call_name, kwargs)")
                continue
            s_, f_, c_ = tup[1], tup[2], tup[3]

            def made_by(t, name):
                mk = [x for x in st.events if x.kind == "call" and x.result == t]
                return bool(mk) and (mk[0].callee or "").split(".")[-1] == name and mk[0].args[:1] == (SRC,)
            is_mod = st.known.get(("pcall", "isinstance", (SRC, ("sym", "types.ModuleType")), ()))
            is_fun = st.known.get(("pcall", "isinstance", (SRC, ("sym", "types.FunctionType")), ()))
            if is_mod is True:
                roles["module"] += 1
                if not (made_by(s_, "getsource") and made_by(f_, "getsourcefile") and c_ == _NONE2):
                    ob.violation(f_re, sd_.node, "the transmitted source is not the function's/module's own source", construct="module roles")
            elif is_fun is True:
                roles["function"] += 1
                if not made_by(s_, "_source_of_function"):
                    ob.violation(f_re, sd_.node, "the transmitted source is not the function's/module's own source", construct="function source")
                if not made_by(f_, "getsourcefile"):
                    ob.violation(f_re, sd_.node, "file_name is not the source file of the module/function")
                if c_ != ("sym", f"{src_p}.__name__"):
                    ob.violation(f_re, sd_.node, "call_name is not the function's own name")
            else:
                roles["text"] += 1
                if not (f_ == _NONE2 and c_ == _NONE2):
                    ob.violation(f_re, sd_.node, "a plain-text source is sent with a file name / call name")
        ob.site(f_re, f_re.node, "sender roles", paths=roles)
        if not all(roles.values()):
            ob.violation(f_re, f_re.node, "remote_exec does not send the 4-tuple (source, file_name, call_name, kwargs)", construct=f"roles {roles}")
        ncomp = 0
        okc = True
        for (_p, st_) in ex_paths:
            known = dict(st_.cond)
            for e in st_.events:
                if e.kind == "call" and e.callee == "compile":
                    ncomp += 1
                    a = e.args
                    name_ok = len(a) >= 2 and (a[1] == ("or", FILE_, _k("<remote exec>")) or (a[1] == FILE_ and _tvb(FILE_, known) is True)
                                               or (a[1] == _k("<remote exec>") and _tvb(FILE_, known) is False))
                    if not (len(a) == 3 and a[0] == ("bin", "Add", SRC_, _k("\n")) and name_ok and a[2] == _k("exec")):
                        okc = False
        ob.site(f_ex, f_ex.node, "executetask reads the task as (channel, (source, file_name, call_name, kwargs)): compile(source + '\\n', file_name or ..., 'exec')", ok=okc and ncomp >= 1)
        if not (okc and ncomp >= 1):
            ob.violation(f_ex, f_ex.node, "the source is not compiled under the transmitted file name (tracebacks would not name the original file)")
        # the code object that is executed is the one compiled from *this* request (a cache keyed by less than
        # (source, file name) would run code compiled under another request's file name)
        ev_ex = _ev(repo, f_ex, Oracle(repo, f_ex, nonraising=NONRAISING))
        nexec = 0
        for (_p, st_) in ev_ex.run(limit=40000):
            for e in st_.events:
                if e.kind == "call" and e.callee == "exec" and e.args:
                    nexec += 1
                    mk = [x for x in st_.events if x.kind == "call" and x.result == e.args[0]]
                    if not (mk and mk[0].callee == "compile" and st_.events.index(mk[0]) < st_.events.index(e)):
                        ob.violation(f_ex, e.node, "the executed code object is not compiled from this request's (source, file name): a reused code object carries "
                                                   "another request's file name into the remote traceback", construct="exec of a code object not compiled here")
        ob.require(nexec >= 1, "executetask: exec(...) not found")
        fls = repo.func(f"{GB}.WorkerGateway._local_schedulexec")
        chp, stp = [p_ for p_ in fls.params() if p_ != "self"][:2]
        ev_s = _evb(repo, fls)
        nsp = 0
        ok = True
        sp = []
        for (_p, st_) in ev_s.run(limit=20000):
            for e in st_.events:
                if e.kind == "call" and e.attr == "spawn":
                    nsp += 1
                    sp.append(e.node)
                    a = e.args
                    dec = [x for x in st_.events if x.kind == "call" and len(a) == 2 and a[1][0] == "tuple" and len(a[1]) == 3 and x.result == a[1][2]]
                    if not (len(a) == 2 and a[0] == ("sym", "self.executetask") and a[1][0] == "tuple" and len(a[1]) == 3 and a[1][1] == ("sym", chp)
                            and dec and str(dec[0].callee or "").endswith("loads_internal") and dec[0].args == (("sym", stp),) and not dec[0].kwargs):
                        ok = False
        ok = ok and nsp >= 1
        ob.site(fls, sp[0] if sp else fls.node, "scheduler hands (channel, decoded payload) to executetask", ok=ok)
        if not ok:
            ob.violation(fls, fls.node, "_local_schedulexec does not spawn executetask((channel, loads_internal(sourcetask))): the request must be decoded with the "
                                        "internal string settings it was encoded with (dumps_internal), not with a channel's/gateway's reconfigurable ones")

    with ctx.obligation("C06.d", "executing-pairing") as ob:
        cfg = build_cfg(repo, f_ex, Oracle(repo, f_ex, nonraising=NONRAISING))
        on = [nd for nd in cfg.nodes if isinstance(nd.ast, ast.Assign) and unparse(nd.ast.targets[0]) == "channel._executing" and repo.fold_in(nd.ast.value, f_ex) is True and nd.id in cfg.live()]
        off = [nd for nd in cfg.nodes if isinstance(nd.ast, ast.Assign) and unparse(nd.ast.targets[0]) == "channel._executing" and repo.fold_in(nd.ast.value, f_ex) is False and nd.id in cfg.live()]
        ob.require(len(on) == 1 and len(off) >= 1, "_executing set/reset not found")
        starts = [m for (m, l) in cfg.succ[on[0].id]]
        p = cfg.must_pass(starts, [cfg.exit.id, cfg.raise_exit.id], {x.id for x in off})
        ob.site(f_ex, on[0].ast, "_executing = True is followed by = False on every exit")
        if p is not None:
            ob.violation(f_ex, on[0].ast, "the channel can stay marked as executing after the body ended: the automatic close is then refused", path=cfg.describe_path(p))
        ex = cfg_nodes_with_call(cfg, lambda c: isinstance(c.func, ast.Name) and c.func.id == "exec")
        if ex and not cfg.dominated_by(ex[0].id, on[0].id):
            ob.violation(f_ex, ex[0].ast, "the body can run without the channel being marked as executing (an explicit close from inside would not be refused)")
        # the reset precedes every close
        closes = cfg_nodes_with_call(cfg, lambda c: callee_attr(c) == "close" and unparse(c.func.value) == "channel")
        for c in closes:
            if cfg.must_pass([on[0].id], [c.id], {x.id for x in off}) is not None:
                ob.violation(f_ex, c.ast, "channel.close() can be reached while _executing is still set (the auto-close would raise)")
        fcl = repo.func(f"{GB}.Channel.close")
        first = [s_ for s_ in fcl.node.body if not (isinstance(s_, ast.Expr) and isinstance(s_.value, ast.Constant))][0]
        ok = isinstance(first, ast.If) and unparse(first.test) == "self._executing" and isinstance(first.body[-1], ast.Raise) and unparse(first.body[-1].exc).startswith("OSError")
        ob.site(fcl, first, "close() refuses first thing while the remote_exec body runs", ok=ok)
        if not ok:
            ob.violation(fcl, first, "Channel.close does not refuse (OSError) an explicit close from inside a running remote_exec before doing anything else")
        dflt = [x for x in repo.cls("Channel").node.body if isinstance(x, ast.Assign) and unparse(x.targets[0]) == "_executing"]
        if not dflt or repo.fold_in(dflt[0].value, fcl) is not False:
            ob.violation(fcl, fcl.node, "Channel._executing does not default to False")

    with ctx.obligation("C06.e", "autoclose") as ob:
        cfg = build_cfg(repo, f_ex, Oracle(repo, f_ex, nonraising=NONRAISING))
        closes = cfg_nodes_with_call(cfg, lambda c: callee_attr(c) == "close" and unparse(c.func.value) == "channel")
        ob.require(len(closes) >= 2, "channel.close(...) not found in executetask")
        for exn, kind in ((cfg.exit.id, "return"), (cfg.raise_exit.id, "raise")):
            p = cfg.must_pass([cfg.entry.id], [exn], {c.id for c in closes})
            ob.site(f_ex, f_ex.node, f"ENTRY->{kind.upper()} passes channel.close(...)")
            if p is not None:
                ob.violation(f_ex, f_ex.node, f"executetask can finish ({kind}) without closing the channel", construct=f"exit:{kind}", path=cfg.describe_path(p))

    check_stdio_typestate(ctx, "C06.f")

    with ctx.obligation("C06.g", "lineno") as ob:
        from ..terms import const as _cst2, evaluator as _evg
        fpar = ("sym", f_sf.params()[0])
        PAD = ("bin", "Mult", _cst2("\n"), ("bin", "Sub", ("sym", fpar[1] + ".__code__.co_firstlineno"), _cst2(1)))
        ok = True
        nret = 0
        evg = _evg(repo, f_sf)
        for (pth, st) in evg.run(limit=20000):
            if pth[-1][0] != evg.cfg.exit.id or st.ret is None:
                continue
            nret += 1
            R = st.ret
            # "\n" * (co_firstlineno - 1) + <dedented source>
            if not (R[0] == "bin" and R[1] == "Add" and R[2] == PAD and R[3][0] == "fresh" and str(R[3][2]).endswith("dedent")):
                ok = False
        ok = ok and nret >= 1
        ob.site(f_sf, f_sf.node, "source prefixed by co_firstlineno - 1 newlines", ok=ok, returning_paths=nret)
        if not ok:
            ob.violation(f_sf, f_sf.node, "the function source is not prefixed by co_firstlineno - 1 newlines: remote tracebacks would name wrong lines")
        # (that the line number is the function's own code object's is part of PAD above: <param>.__code__.co_firstlineno)
        dd = [c for c in repo.calls_in(f_sf) if unparse(c.func) == "textwrap.dedent"]
        if len(dd) != 1:
            ob.violation(f_sf, f_sf.node, "nested function source is not dedented before compilation")

    # "remote tracebacks name the original file and line": the RemoteError that carries them is stored before any waiter is woken
    from ..report import borrow
    borrow(ctx, "C07", {"C07.f": "C06.i"})
