"""C09 WorkerPool runs every accepted task exactly once (DESIGN.md section 3, C09)."""

from __future__ import annotations

import ast

from ..cfg import Oracle, build_cfg, guard_atoms
from ..index import AnalysisError, FuncInfo, Repo, norm, unparse
from ..report import Ctx
from ..util import (Facts, enclosing_lock_with, path_facts, xtext, LockSets, callee_attr, calls_in_node, calls_under, cfg_nodes_with_call, feasible_paths,
                    lexical_locks, local_aliases, lock_regions, nexpr)

POOL = "gateway_base.WorkerPool"
LOCK = "WorkerPool._running_lock"
PROTECTED = ("_running", "_shuttingdown", "_waitall_events", "_primary_thread_task")
MUTATORS = {"add", "remove", "append", "pop", "clear", "discard", "extend", "insert", "update"}
BLOCKING = {"wait", "get", "waitfinish", "join", "receive", "waitall", "waitclose", "acquire"}
MAILBOX = "self._primary_thread_task"
READY = "self._primary_thread_task_ready"


def pool_methods(repo: Repo) -> list[FuncInfo]:
    # normal form: new helpers inlined, hoisted / parameter aliases propagated
    return [m for m in repo.scan_funcs() if m.cls is not None and m.cls.name == "WorkerPool"]


def mutations(repo: Repo, fi: FuncInfo):
    """(attr, node) for writes / mutating calls on self.<PROTECTED> in fi."""
    out = []
    for n in repo.own_nodes(fi):
        if isinstance(n, (ast.Assign, ast.AugAssign, ast.AnnAssign)):
            tgts = n.targets if isinstance(n, ast.Assign) else [n.target]
            for t in tgts:
                for x in ast.walk(t):
                    if isinstance(x, ast.Attribute) and isinstance(x.ctx, ast.Store) and x.attr in PROTECTED \
                            and unparse(x.value) == "self":
                        out.append((x.attr, n))
        elif isinstance(n, ast.Call) and isinstance(n.func, ast.Attribute) and n.func.attr in MUTATORS:
            v = n.func.value
            if isinstance(v, ast.Attribute) and v.attr in PROTECTED and unparse(v.value) == "self":
                out.append((v.attr, n))
        elif isinstance(n, ast.Delete):
            for t in n.targets:
                for x in ast.walk(t):
                    if isinstance(x, ast.Attribute) and x.attr in PROTECTED:
                        out.append((x.attr, n))
    return out


def lock_order_edges(repo: Repo, locks: LockSets):
    edges = {}
    for fi in repo.scan_funcs():
        for (lid, w) in lock_regions(repo, fi):
            held = locks.held(fi, w)
            for h in held:
                if h != lid:
                    edges.setdefault((h, lid), (fi, w))
    return edges


def check_lock_order(ctx: Ctx, locks: LockSets, oid: str) -> None:
    repo = ctx.repo
    with ctx.obligation(oid, "lock-order-acyclic") as ob:
        edges = lock_order_edges(repo, locks)
        # also acquisitions through callees: caller holds L1 and calls f whose body acquires L2
        acquires: dict[str, set[str]] = {q: set() for q in repo.funcs}
        for fi in repo.scan_funcs():
            acquires[fi.qualname] = {lid for (lid, _w) in lock_regions(repo, fi)}
        g = repo.callgraph()
        trans: dict[str, set[str]] = {q: set(v) for q, v in acquires.items()}
        changed = True
        while changed:
            changed = False
            for q in g:
                for c in g[q]:
                    add = trans.get(c, set()) - trans[q]
                    if add:
                        trans[q] |= add
                        changed = True
        for fi in repo.scan_funcs():
            for call in repo.calls_in(fi):
                held = locks.held(fi, call)
                if not held:
                    continue
                for t in repo.resolve_call(call, fi):
                    for l2 in trans.get(t.qualname, ()):
                        for h in held:
                            if h != l2:
                                edges.setdefault((h, l2), (fi, call))
        for (a, b), (fi, n) in sorted(edges.items()):
            ob.site(fi, n, f"lock order {a} -> {b}")
        if not edges:
            ob.site(None, None, "no nested lock acquisition")
        # cycle detection
        adj: dict[str, set[str]] = {}
        for (a, b) in edges:
            adj.setdefault(a, set()).add(b)
        def reach(a, b, seen=None):
            seen = seen or set()
            for x in adj.get(a, ()):
                if x == b or (x not in seen and reach(x, b, seen | {x})):
                    return True
            return False
        for (a, b), (fi, n) in edges.items():
            if reach(b, a):
                ob.violation(fi, n, f"lock-order cycle: {a} -> {b} and {b} ->* {a}", construct=f"{a}->{b}")


def check_primary_loop(repo: Repo, ob) -> None:
    """the primary loop of the pool: leaves only with an empty/consumed mailbox, clears its wake-up only under the lock,
    samples the shutdown flag under the lock, and does leave once shutdown was triggered (shared: C09.d, C11.g)"""
    fi = repo.func(f"{POOL}.integrate_as_primary_thread")
    al = local_aliases(repo, fi)
    cfg = build_cfg(repo, fi, Oracle(repo, fi, precise=True))
    # on value terms; the mailbox and the shutdown flag are *volatile* (another thread writes them): every read is a
    # value of its own, so `reply is self._primary_thread_task` really compares the fetched task with a second read
    from ..terms import NONE as _NONE, Evaluator as _Evaluator, const as _c
    evp = _Evaluator(repo, fi, cfg)
    evp.volatile = {MAILBOX, "self._shuttingdown"}
    LOCKT = ("sym", "self._running_lock")
    heads = {n.id for n in cfg.nodes if n.kind in ("test", "for") and isinstance(n.owner, (ast.While, ast.For))}
    n_exits = n_iter = 0
    sd_exit = False
    seen_clear = set()
    for (pth, st_) in evp.run(back_stops=heads, limit=40000):
        waits_ = [e for e in st_.events if e.kind == "call" and e.callee == f"{READY}.wait"]
        if not waits_:
            if pth[-1][0] == cfg.exit.id:
                # spawn() posts the first task whether or not the primary thread has integrated yet, and trigger_shutdown leaves a
                # posted task alone: both rely on the primary thread looking at the mailbox before it honours anything else
                f0 = [e for e in st_.events if e.kind == "assign" and e.value[0] == "read" and e.value[2] == MAILBOX]
                empty0 = bool(f0) and any(t == ("cmp", "is", f0[0].value, _NONE) and v is True for (t, v) in st_.cond)
                if not empty0:
                    ob.violation(fi, fi.node, "integrate_as_primary_thread can return without ever waiting for (or looking at) the mailbox: a task accepted before the primary "
                                              "thread arrived is never executed", construct="exit before first wait", path=cfg.describe_path(pth))
            continue
        after = st_.events[st_.events.index(waits_[-1]):]
        fetches = [e for e in after if e.kind == "assign" and e.value[0] == "read" and e.value[2] == MAILBOX]
        if not fetches:
            if pth[-1][0] == cfg.exit.id:
                ob.violation(fi, fi.node, "the primary loop is left after a wake-up without looking at the mailbox", construct="exit without fetch")
            continue
        F = fetches[0].value
        later = st_.events[st_.events.index(fetches[0]):]
        # conditions established after the fetch, with the locks held when they were tested
        c0 = fetches[0].ncond
        conds = list(zip(st_.cond[c0:], st_.cond_held[c0:]))
        none_ev = any(t == ("cmp", "is", F, _NONE) and v is True for ((t, v), _h) in conds)
        same_ev = any(t[0] == "cmp" and t[1] == "is" and F in (t[2], t[3]) and any(x[0] == "read" and x[2] == MAILBOX and x != F for x in (t[2], t[3])) and v is True and LOCKT in h
                      for ((t, v), h) in conds)
        not_none = any(t == ("cmp", "is", F, _NONE) and v is False for ((t, v), _h) in conds)
        runs = [e for e in later if e.kind == "call" and e.callee == "self._perform_spawn" and e.args[:1] == (F,)]
        # ready.clear() only if no new task was posted (same task still in the mailbox, tested under the lock)
        for e in later:
            if e.kind == "call" and e.callee == f"{READY}.clear":
                cc = list(zip(st_.cond[c0:e.ncond], st_.cond_held[c0:e.ncond]))
                ok = LOCKT in e.held and any(t[0] == "cmp" and t[1] == "is" and F in (t[2], t[3]) and v is True and LOCKT in h and
                                             any(x[0] == "read" and x[2] == MAILBOX and x != F for x in (t[2], t[3])) for ((t, v), h) in cc)
                if id(e.node) not in seen_clear or not ok:
                    seen_clear.add(id(e.node))
                    ob.site(fi, e.node, "ready.clear() only if no new task was posted", ok=ok)
                if not ok:
                    ob.violation(fi, e.node, "ready.clear() is not guarded by `reply is self._primary_thread_task` under the lock: a freshly posted task loses its wake-up")
        # the shutdown flag that steers leaving / clearing must be sampled while the pool lock is held
        for ((t, v), _h) in conds:
            if t[0] == "read" and t[2] == "self._shuttingdown" and LOCKT not in st_.read_held.get(t[1], ()):
                ob.violation(fi, fetches[0].node, "the shutdown flag that decides between leaving and clearing the wake-up is read outside _running_lock: a trigger_shutdown() "
                                                 "arriving in between is missed -- the primary thread clears its event and waits forever, the worker never leaves serve()",
                             construct="_shuttingdown read unlocked")
        end = pth[-1][0]
        if end == cfg.exit.id:
            n_exits += 1
            if any(t[0] == "read" and t[2] == "self._shuttingdown" and v is True for ((t, v), _h) in conds):
                sd_exit = True
            ob.site(fi, fi.node, "loop exit path", reply_is_None=none_ev, reply_is_mailbox_under_lock=same_ev)
            if not (none_ev or same_ev):
                ob.violation(fi, fi.node, "the primary loop is left without evidence that the mailbox holds nothing unconsumed (neither `reply is None` nor `reply is self._primary_thread_task` under the lock)",
                             construct="loop exit without mailbox evidence", path=cfg.describe_path(pth))
        if end == cfg.exit.id or (end in heads and pth[-1][1] != ""):
            n_iter += 1
            if not none_ev and not runs:
                ob.violation(fi, fetches[0].node, "a reply taken from the mailbox can be skipped without being executed", path=cfg.describe_path(pth))
            if none_ev and runs:
                ob.violation(fi, fetches[0].node, "the primary loop runs a task although the mailbox was empty")
    ob.require(n_exits >= 2, f"{n_exits} exit paths of the primary loop (floor 2)")
    ob.require(n_iter >= 3, f"{n_iter} iteration paths of the primary loop (floor 3)")
    ob.site(fi, fi.node, "an exit guarded by _shuttingdown exists (busy primary leaves after shutdown)", ok=sd_exit)
    if not sd_exit:
        ob.violation(fi, fi.node, "no loop exit is taken when _shuttingdown is set after a task: the primary thread would never leave", construct="no-shutdown-exit")


def check_shutdown_wakeup(ctx: Ctx, oid: str) -> None:
    """trigger_shutdown sets the flag unconditionally and wakes an idle primary thread with an empty mailbox (shared: C09.j, C11.i)"""
    repo = ctx.repo
    ft = repo.func(f"{POOL}.trigger_shutdown")
    cfgt = build_cfg(repo, ft, Oracle(repo, ft, precise=True))
    alt = local_aliases(repo, ft)
    with ctx.obligation(oid, "shutdown-flag-and-wakeup") as ob:
        flag = [n for n in cfgt.nodes if n.kind == "stmt" and isinstance(n.ast, ast.Assign)
                and unparse(n.ast.targets[0]) == "self._shuttingdown" and n.id in cfgt.live()]
        ob.require(bool(flag), "_shuttingdown store missing")
        for fl in flag:
            v = repo.fold_in(fl.ast.value, ft)
            ob.site(ft, fl.ast, "_shuttingdown = True unconditionally")
            if v is not True or cfgt.guards(fl.id):
                ob.violation(ft, fl.ast, "_shuttingdown is not set to True unconditionally")
        p = cfgt.must_pass([cfgt.entry.id], [cfgt.exit.id], {f.id for f in flag})
        if p is not None:
            ob.violation(ft, ft.node, "a path through trigger_shutdown does not set _shuttingdown", path=cfgt.describe_path(p))
        # idle primary (has primary, event clear) must be woken with mailbox None
        base = Facts(repo, ft, alt)
        base.set_atom(f"{READY} is None", False)
        base.set_atom(f"{READY}.is_set()", False)
        for path, facts in feasible_paths(repo, ft, cfgt, base, kill_on_store=False):
            if path[-1][0] != cfgt.exit.id:
                continue
            stored_none = woke = False
            for nid, _l in path:
                n = cfgt.nodes[nid]
                if n.kind == "stmt" and isinstance(n.ast, ast.Assign) and nexpr(repo, ft, n.ast.targets[0], alt) == MAILBOX \
                        and isinstance(n.ast.value, ast.Constant) and n.ast.value.value is None:
                    stored_none = True
                if n.ast is not None and any(callee_attr(c) == "set" and nexpr(repo, ft, c.func.value, alt) == READY
                                             for c in calls_in_node(n) if isinstance(c.func, ast.Attribute)):
                    woke = stored_none and True
            if not woke:
                # the idleness test may be carried by a local or live in an extracted helper: decide on value terms -- every path that
                # does not exclude "has a primary thread whose wake-up event is clear" posts None and then sets the event
                from ..terms import NONE as _Nw, evaluator as _evw, implies as _impw
                Rw = ("sym", READY)
                evw = _evw(repo, ft)
                woke, nidle = True, 0
                for (pw, stw) in evw.run(limit=4000):
                    if pw[-1][0] != evw.cfg.exit.id:
                        continue
                    firsts = [e for e in stw.events if e.kind == "call" and e.attr == "is_set" and e.recv == Rw]
                    if not firsts:
                        continue
                    idle = ("and", ("not", ("cmp", "is", Rw, _Nw)), ("not", firsts[0].result))
                    try:
                        excluded = _impw(stw.cond, ("not", idle)) is True
                    except Exception:
                        excluded = False
                    if excluded:
                        continue
                    nidle += 1
                    k_none = [i for i, e in enumerate(stw.events) if e.kind == "assign" and e.target == MAILBOX and e.value == _Nw]
                    k_set = [i for i, e in enumerate(stw.events) if e.kind == "call" and e.attr == "set" and e.recv == Rw]
                    if not (k_none and k_set and k_none[0] < k_set[-1]):
                        woke = False
                woke = woke and nidle >= 1
            ob.site(ft, ft.node, "idle primary: mailbox=None then ready.set()", ok=woke)
            if not woke:
                ob.violation(ft, ft.node, "with an idle primary thread trigger_shutdown does not post None and wake it: integrate_as_primary_thread never returns",
                             construct="idle-primary-not-woken", path=cfgt.describe_path(path))


def check_reply_completion(ctx: Ctx, oid: str) -> None:
    """Reply.run publishes the result event itself, in a finally, on every exit; get() waits for it and returns/raises the stored
    outcome -- completion does not depend on any lock of the pool (shared: C09.e, C14.f)"""
    repo = ctx.repo
    fr = repo.func("gateway_base.Reply.run")
    cfgr = build_cfg(repo, fr, Oracle(repo, fr))
    with ctx.obligation(oid, "reply-finally") as ob:
        sets = cfg_nodes_with_call(cfgr, lambda c: callee_attr(c) == "set" and "_result_ready" in unparse(c.func))
        if not sets:
            ob.violation(fr, fr.node, "Reply.run does not publish its completion itself (_result_ready.set() in a finally): whoever sets the event elsewhere does so under "
                                      "locks or after bookkeeping that a waiter may be holding / waiting for", construct="no _result_ready.set() in Reply.run")
            return
        for ex, kind in ((cfgr.exit.id, "return"), (cfgr.raise_exit.id, "raise")):
            p = cfgr.must_pass([cfgr.entry.id], [ex], {s.id for s in sets})
            ob.site(fr, fr.node, f"ENTRY->{kind.upper()} passes _result_ready.set()")
            if p is not None:
                ob.violation(fr, fr.node, f"Reply.run can finish ({kind}) without setting _result_ready: waiters block forever",
                             construct=f"exit:{kind}", path=cfgr.describe_path(p))
        # task call protected by a BaseException handler storing _exc
        tasks = [c for c in repo.calls_in(fr) if isinstance(c.func, ast.Name) and c.func.id == "func"]
        ob.require(len(tasks) == 1, "task invocation func(*args, **kwargs) not found exactly once")
        tcall = tasks[0]
        stored = False
        for anc in repo.ancestors(tcall):
            if isinstance(anc, ast.Try):
                for h in anc.handlers:
                    hc = unparse(h.type) if h.type is not None else "BaseException"
                    if hc == "BaseException" and any(
                            isinstance(s, ast.Assign) and unparse(s.targets[0]) == "self._exc" and h.name
                            and unparse(s.value) == h.name for s in h.body) \
                            and not any(isinstance(x, ast.Raise) for s in h.body for x in ast.walk(s)):
                        stored = True
        asg = repo.parent(tcall)
        res_ok = isinstance(asg, ast.Assign) and unparse(asg.targets[0]) == "self._result" and asg.value is tcall
        ob.site(fr, tcall, "result stored / exception stored", result_store=res_ok, exc_store=stored)
        if not res_ok:
            ob.violation(fr, tcall, "the task's return value is not stored unmodified in _result")
        if not stored:
            ob.violation(fr, tcall, "exceptions of the task are not captured (BaseException handler storing the exception in _exc)")
        # run-once: exactly one invocation, not in a loop
        if any(isinstance(a, (ast.For, ast.While)) for a in repo.ancestors(tcall) if a is not fr.node):
            ob.violation(fr, tcall, "the task is invoked inside a loop")
        fg = repo.func("gateway_base.Reply.get")
        cfgg = build_cfg(repo, fg, Oracle(repo, fg, precise=True))
        wf = cfg_nodes_with_call(cfgg, lambda c: callee_attr(c) == "waitfinish")
        ob.require(bool(wf), "waitfinish missing in Reply.get")
        p = cfgg.must_pass([cfgg.entry.id], [cfgg.exit.id, cfgg.raise_exit.id], {w.id for w in wf})
        if p is not None:
            ob.violation(fg, fg.node, "Reply.get can return without waiting for completion", path=cfgg.describe_path(p))
        rets = [n for n in repo.own_nodes(fg) if isinstance(n, ast.Return)]
        raises = [n for n in repo.own_nodes(fg) if isinstance(n, ast.Raise)]
        ob.site(fg, fg.node, "get returns _result / raises _exc", returns=[norm(r) for r in rets], raises=[norm(r) for r in raises])
        from ..terms import evaluator as _evg
        evg = _evg(repo, fg)
        nret = 0
        ret_ok = True
        for (pth, st_) in evg.run(limit=4000):
            if pth[-1][0] == evg.cfg.exit.id:
                nret += 1
                if st_.ret != ("sym", "self._result"):
                    ret_ok = False
        if not ret_ok or nret == 0:
            ob.violation(fg, rets[0] if rets else fg.node, "Reply.get does not return exactly the stored _result")
        if [unparse(r.exc) for r in raises] != ["self._exc"]:
            ob.violation(fg, raises[0] if raises else fg.node, "Reply.get does not re-raise exactly the stored exception")
        # the timeout of get reaches waitfinish
        for w in wf:
            c = [c for c in calls_in_node(w) if callee_attr(c) == "waitfinish"][0]
            if not (c.args and unparse(c.args[0]) == "timeout") and not any(k.arg == "timeout" and unparse(k.value) == "timeout" for k in c.keywords):
                ob.violation(fg, c, "Reply.get does not forward its timeout to waitfinish")


def check(ctx: Ctx) -> None:
    repo = ctx.repo
    ctx.decides = ("lock discipline of the pool state, no blocking under the pool lock, guarded one-slot mailbox, "
                   "guarded primary-loop exits (the shutdown flag that steers them sampled under the pool lock), Reply completion in finally, spawn refusal, no lost wake-up shape, "
                   "each accepted reply started exactly once, pure timeout paths, lock-order acyclicity.")
    ctx.not_decided = "the thread interleavings themselves."
    ctx.trust("RLock / Event semantics")
    locks = LockSets(repo)
    methods = pool_methods(repo)

    # ---- C09.a
    with ctx.obligation("C09.a", "lock-discipline") as ob:
        n = 0
        for fi in methods:
            if fi.name == "__init__":
                continue
            for attr, node in mutations(repo, fi):
                n += 1
                held = locks.held(fi, node)
                ob.site(fi, node, f"mutation of {attr}", held=sorted(held))
                if LOCK not in held:
                    ob.violation(fi, node, f"WorkerPool.{attr} is mutated without holding _running_lock")
        ob.require(n >= 4, f"only {n} pool-state mutation sites found (floor 4)")
        regions = [r for fi in methods for r in lock_regions(repo, fi) if r[0] == LOCK]
        ob.require(len(regions) >= 5, f"only {len(regions)} _running_lock regions (floor 5)")

    # ---- C09.b
    with ctx.obligation("C09.b", "no-block-under-lock") as ob:
        for fi in methods:
            for c in repo.calls_in(fi):
                if callee_attr(c) in BLOCKING and isinstance(c.func, ast.Attribute):
                    if callee_attr(c) == "get" and unparse(c.func.value) in ("os.environ",):
                        continue
                    held = locks.held(fi, c)
                    if LOCK not in held:
                        continue
                    ob.site(fi, c, "blocking call under _running_lock")
                    exempt = False
                    if callee_attr(c) == "waitfinish" and fi.name in ("_try_send_to_primary_thread", "spawn") and xtext(repo, fi, c.func.value) == MAILBOX:
                        # frozen exemption: back-pressure of main_thread_only is by design
                        # (decided on value terms: the backend test may be spelled with a literal or a named constant)
                        from ..terms import const as _kb, evaluator as _evb, implies as _impb
                        MT_ = ("cmp", "eq", ("sym", "self.execmodel.backend"), _kb("main_thread_only"))
                        evb = _evb(repo, fi)
                        hits = [(st_, e) for (_p, st_) in evb.run(limit=20000) for e in st_.events if e.kind == "call" and e.node is c]
                        exempt = bool(hits) and all(_impb(st_.cond[:e.ncond], MT_) is True for (st_, e) in hits)
                    if not exempt:
                        ob.violation(fi, c, f"blocking call {norm(c)} while _running_lock is held")
        if not ob.sites:
            ob.site(None, None, "no blocking call in any _running_lock region")

    # ---- C09.c mailbox write guard
    with ctx.obligation("C09.c", "mailbox-write-guard") as ob:
        nwrites = 0
        for fi in methods:
            if fi.name == "__init__":
                continue
            al = local_aliases(repo, fi)
            cfg = None
            for attr, node in mutations(repo, fi):
                if attr != "_primary_thread_task" or not isinstance(node, ast.Assign):
                    continue
                nwrites += 1
                cfg = cfg or build_cfg(repo, fi, Oracle(repo, fi, precise=True))
                ok = True
                why = []
                for nd in cfg.node_containing(node):
                    # every feasible path to the store must carry evidence that the slot is free
                    for path in cfg.paths_between(cfg.entry.id, {nd.id}, limit=4000):
                        if path[-1][0] != nd.id:
                            continue
                        f = path_facts(repo, fi, cfg, path, base=Facts(repo, fi, {}, expand_locals=True))
                        if f is None:
                            continue
                        free = f.value_src(f"{READY}.is_set()") is False
                        done = False
                        for nid, _l in path[:-1]:
                            w = cfg.nodes[nid]
                            for c in (calls_in_node(w) if w.ast is not None else []):
                                if callee_attr(c) == "waitfinish" and not c.args and not c.keywords and xtext(repo, fi, c.func.value) == MAILBOX:
                                    done = True
                        if free:
                            why.append("slot free: not ready.is_set()")
                        elif done:
                            why.append("occupant completed: waitfinish()")
                        else:
                            ok = False
                            why.append("NO EVIDENCE on path " + cfg.describe_path(path))
                why = sorted(set(why))
                ob.site(fi, node, "mailbox store", evidence=why)
                if not ok:
                    ob.violation(fi, node, "the one-slot mailbox is overwritten without evidence that it is free "
                                           "(neither `not ready.is_set()` nor completion of the occupant): an accepted task can be dropped")
        ob.require(nwrites >= 2, f"{nwrites} mailbox writers found (floor 2)")

    # ---- C09.d loop exits of the primary loop
    fi = repo.func(f"{POOL}.integrate_as_primary_thread")
    al = local_aliases(repo, fi)
    cfg = build_cfg(repo, fi, Oracle(repo, fi, precise=True))
    with ctx.obligation("C09.d", "loop-exit-guard") as ob:
        check_primary_loop(repo, ob)

    # ---- C09.j trigger_shutdown: flag + wake-up of an idle primary
    check_shutdown_wakeup(ctx, "C09.j")

    # ---- C09.e Reply.run / get
    check_reply_completion(ctx, "C09.e")

    # ---- C09.f spawn-refuse
    fs = repo.func(f"{POOL}.spawn")
    cfgs = build_cfg(repo, fs, Oracle(repo, fs, precise=True))
    with ctx.obligation("C09.f", "spawn-refuse") as ob:
        adds = cfg_nodes_with_call(cfgs, lambda c: callee_attr(c) == "add" and "_running" in unparse(c.func))
        ob.require(len(adds) == 1, "_running.add(reply) not found exactly once in spawn")
        a = adds[0]
        guard_ok = False
        for (t, lab) in cfgs.guards(a.id):
            if t.kind == "test" and unparse(t.ast) == "self._shuttingdown" and lab == "false":
                # the true branch raises ValueError
                tru = [m for (m, l) in cfgs.succ[t.id] if l == "true"]
                r = [cfgs.nodes[m] for m in tru]
                if r and all(isinstance(x.ast, ast.Raise) and unparse(x.ast.exc).startswith("ValueError") for x in r):
                    w1 = [w for w in repo.ancestors(t.owner) if isinstance(w, ast.With)]
                    w2 = [w for w in repo.ancestors(a.ast) if isinstance(w, ast.With)]
                    if w1 and w2 and w1[0] is w2[0] and LOCK in lexical_locks(repo, fs, a.ast):
                        guard_ok = True
        ob.site(fs, a.ast, "refusal test dominates registration in the same lock region", ok=guard_ok)
        if not guard_ok:
            ob.violation(fs, a.ast, "`_running.add` is not dominated, inside the same _running_lock region, by the `_shuttingdown` test raising ValueError")

    # ---- C09.g no lost wake-up
    fw = repo.func(f"{POOL}.waitall")
    fp = repo.func(f"{POOL}._perform_spawn")
    with ctx.obligation("C09.g", "no-lost-wakeup") as ob:
        tests = [n for n in repo.own_nodes(fw) if isinstance(n, ast.If) and "_running" in unparse(n.test)]
        appends = [c for c in repo.calls_in(fw) if callee_attr(c) == "append" and "_waitall_events" in unparse(c.func)]
        waits = [c for c in repo.calls_in(fw) if callee_attr(c) == "wait"]
        ob.require(len(tests) == 1 and len(appends) == 1 and len(waits) == 1, "waitall anchors (test/append/wait) not found")
        r1, r2 = enclosing_lock_with(repo, fw, tests[0], LOCK), enclosing_lock_with(repo, fw, appends[0], LOCK)
        ob.site(fw, tests[0], "emptiness test and event registration in one lock region", same=r1 is not None and r1 is r2)
        if r1 is None or r1 is not r2:
            ob.violation(fw, appends[0], "waitall tests `_running` and registers its event in different lock regions: a completion in between is lost")
        if LOCK in lexical_locks(repo, fw, waits[0]):
            ob.violation(fw, waits[0], "waitall waits for its event while holding _running_lock")
        # returns True only when empty; else returns the result of waiting (with the caller's timeout) on the event it registered
        from ..terms import const as _c, evaluator as _ev, show as _show
        evw = _ev(repo, fw)
        RUN = ("sym", "self._running")
        nret = 0
        for (pth, st_) in evw.run(limit=4000):
            if pth[-1][0] != evw.cfg.exit.id:
                continue
            nret += 1
            r = st_.ret if st_.ret is not None else _c(None)
            if r == _c(True):
                ok = st_.known.get(RUN) is False
                ob.site(fw, fw.node, "`return True` only when _running is empty", ok=ok)
                if not ok:
                    ob.violation(fw, fw.node, "waitall returns True without `_running` being empty")
                continue
            wt = [e for e in st_.events if e.kind == "call" and e.attr == "wait" and e.result == r]
            reg = [e for e in st_.events if e.kind == "call" and e.callee == "self._waitall_events.append"]
            ok = len(wt) == 1 and len(reg) == 1 and reg[0].args[:1] == (wt[0].recv,) and st_.events.index(reg[0]) < st_.events.index(wt[0])
            if not ok:
                ob.violation(fw, fw.node, "waitall returns something other than True-when-empty or the event wait result")
            elif ("sym", "timeout") not in (list(wt[0].args) + list(wt[0].kwargs.values())):
                ob.violation(fw, wt[0].node, "waitall does not forward its timeout to the event wait")
        ob.require(nret >= 2, "waitall: return paths not found")
        # a timed-out wait only reports: it changes no pool state (the event it registered is retired by _perform_spawn, which may
        # already have popped it -- touching the list again races with that)
        for (pth, st_) in evw.run(limit=4000):
            wts = [e for e in st_.events if e.kind == "call" and e.attr == "wait"]
            if not wts:
                continue
            for e in st_.events[st_.events.index(wts[-1]) + 1:]:
                mut = (e.kind == "call" and e.recv is not None and e.recv[0] == "sym" and e.recv[1] in ("self._waitall_events", "self._running")
                       and e.attr in ("remove", "pop", "append", "clear", "discard", "add")) or \
                      (e.kind in ("assign", "store", "del") and str(e.target or "").startswith(("self._waitall_events", "self._running")))
                if mut:
                    ob.violation(fw, e.node, f"waitall touches pool state after its wait returned (`{str(e)[:60]}`): the finishing task may already have retired the "
                                             "event -- a timed-out waitall()/terminate() raises instead of returning False", construct="waitall mutates after wait")
                    break
        # _perform_spawn: run, then remove + notify in one region
        rm = [c for c in repo.calls_in(fp) if callee_attr(c) == "remove" and "_running" in unparse(c.func)]
        st = [c for c in repo.calls_in(fp) if callee_attr(c) == "set"]
        run = [c for c in repo.calls_in(fp) if callee_attr(c) == "run"]
        ob.require(len(rm) == 1 and len(st) >= 1 and len(run) == 1, "_perform_spawn anchors (run/remove/set) not found")
        cfp = build_cfg(repo, fp, Oracle(repo, fp, precise=True))
        rmn = cfp.node_containing(rm[0])
        p = cfp.must_pass([cfp.entry.id], [cfp.exit.id], {n.id for n in rmn})
        ob.site(fp, rm[0], "remove on every path, after run(), in the region that notifies")
        if p is not None:
            ob.violation(fp, rm[0], "a finished reply is not always removed from _running", path=cfp.describe_path(p))
        runn = cfp.node_containing(run[0])
        if not all(cfp.dominated_by(n.id, runn[0].id) for n in rmn):
            ob.violation(fp, rm[0], "reply is removed from _running before it ran")
        wrm = enclosing_lock_with(repo, fp, rm[0], LOCK)
        for s in st:
            ws = enclosing_lock_with(repo, fp, s, LOCK)
            if wrm is None or ws is not wrm:
                ob.violation(fp, s, "waiters are notified outside the lock region that removed the reply")
        # notification happens when (and only when) the set became empty, for all registered events
        note_guard = False
        for s in st:
            for nd in cfp.node_containing(s):
                f = Facts(repo, fp)
                for (t, lab) in cfp.guards(nd.id):
                    if t.kind == "test":
                        f.assume(t.ast, lab == "true")
                if f.get("self._running") is False:
                    note_guard = True
        if not note_guard:
            # the emptiness test may be carried by a local (`became_idle = len(self._running) == 0`): decide it on value terms
            from ..terms import cmp_term as _cmpg, const as _cg, evaluator as _evg, tv as _tvg
            RUNT = ("sym", "self._running")
            evg = _evg(repo, fp)
            seen_set, ok_all = False, True
            heads_g = {n.id for n in evg.cfg.nodes if n.kind in ("test", "for") and isinstance(n.owner, (ast.While, ast.For))}
            for (_pg, stg) in evg.run(back_stops=heads_g, limit=20000):
                sets_ = [e for e in stg.events if e.kind == "call" and e.attr == "set"]
                if not sets_:
                    continue
                seen_set = True
                conds = stg.cond[:sets_[0].ncond]
                known = dict(conds)
                empty = _tvg(RUNT, known) is False or any(
                    v is True and t[0] == "cmp" and t[1] == "eq" and {t[2], t[3]} == {("pcall", "len", (RUNT,), ()), _cg(0)} for (t, v) in conds)
                if not empty:
                    ok_all = False
                    break
            note_guard = seen_set and ok_all
        if not note_guard:
            ob.violation(fp, st[0], "waitall events are set although tasks are still running (waitall would return True early)")
        loops = [n for n in repo.own_nodes(fp) if isinstance(n, (ast.While, ast.For)) and ("_waitall_events" in unparse(n) or "_waitall_events" in xtext(repo, fp, n.iter if isinstance(n, ast.For) else n.test))]
        if not loops:
            ob.violation(fp, st[0], "not every registered waitall event is notified (no loop over _waitall_events)")

    # ---- C09.h started exactly once
    with ctx.obligation("C09.h", "started-once") as ob:
        from ..terms import NONE as _NONE, const as _c, evaluator as _ev
        fm = repo.merged(f"{POOL}.spawn", [f"{POOL}._try_send_to_primary_thread"])
        evm = _ev(repo, fm)
        BOX, RDY = "self._primary_thread_task", "self._primary_thread_task_ready"
        npaths = 0
        for (pth, st_) in evm.run(limit=20000):
            if pth[-1][0] != evm.cfg.exit.id:
                continue
            npaths += 1
            replies = [e.result for e in st_.events if e.kind == "call" and e.callee == "Reply"]
            REPLY = replies[0] if replies else None
            starts = [e for e in st_.events if e.kind == "call" and e.callee == "self.execmodel.start"]
            stores = [e for e in st_.events if e.kind == "assign" and e.target == BOX]
            wakes = [e for e in st_.events if e.kind == "call" and e.callee == f"{RDY}.set"]
            handed = len(stores) == 1 and stores[0].value == REPLY and any(st_.events.index(w) > st_.events.index(stores[0]) for w in wakes)
            ob.site(fm, starts[0].node if starts else fm.node, "spawn path", handed_to_primary=handed, threads_started=len(starts))
            for s_ in starts:
                if s_.args[:1] != (("sym", "self._perform_spawn"),) or len(s_.args) < 2 or s_.args[1] != ("tuple", REPLY):
                    ob.violation(fm, s_.node, "the fallback thread does not run _perform_spawn(reply)")
            if st_.ret != REPLY or REPLY is None:
                ob.violation(fm, fm.node, "spawn does not return the reply it registered")
            if (handed and starts) or (not handed and len(starts) != 1) or (stores and not handed) or (wakes and not stores):
                ob.violation(fm, starts[0].node if starts else fm.node, "an accepted reply is not started exactly once (mailbox hand-off xor new thread)",
                             construct=f"handed={handed} starts={len(starts)}", path=evm.cfg.describe_path(pth))
            # mailbox store only with evidence that the slot is free
            for s_ in stores:
                cond = dict(st_.cond[:s_.ncond])
                issets = [e.result for e in st_.events if e.kind == "call" and e.callee == f"{RDY}.is_set" and st_.events.index(e) < st_.events.index(s_)]
                free = any(cond.get(r) is False for r in issets)
                done = any(e.kind == "call" and e.callee == f"{BOX}.waitfinish" and not e.args and not e.kwargs and st_.events.index(e) < st_.events.index(s_) for e in st_.events)
                if not (free or done):
                    ob.violation(fm, s_.node, "the one-slot mailbox is overwritten without evidence that it is free "
                                              "(neither `not ready.is_set()` nor completion of the occupant): an accepted task can be dropped")
        ob.require(npaths >= 3, f"{npaths} normal paths through spawn (floor 3)")

    # ---- C09.i timeout paths are pure
    with ctx.obligation("C09.i", "timeout-pure") as ob:
        fwf = repo.func("gateway_base.Reply.waitfinish")
        for f in (fwf, repo.func("gateway_base.Reply.get")):
            def _local_only(n):
                tg = n.targets if isinstance(n, (ast.Assign, ast.Delete)) else [n.target]
                return all(isinstance(t, ast.Name) for t in tg)   # a local of the call: no state of the reply/task
            stores = [n for n in repo.own_nodes(f) if isinstance(n, (ast.Assign, ast.AugAssign, ast.Delete)) and not _local_only(n)]
            bad_calls = [c for c in repo.calls_in(f) if callee_attr(c) not in ("wait", "waitfinish", "OSError")]
            ob.site(f, f.node, "no state written, only wait/raise", stores=len(stores))
            for n in stores:
                ob.violation(f, n, "a waiting method of Reply writes state (a timed-out wait must not cancel or alter the task)")
            for c in bad_calls:
                ob.violation(f, c, f"unexpected call {norm(c)} in a waiting method of Reply")
        cfw = build_cfg(repo, fwf, Oracle(repo, fwf, precise=True))
        tests = [n for n in cfw.nodes if n.kind == "test" and any(callee_attr(c) == "wait" for c in calls_in_node(n))]
        ob.require(len(tests) == 1, "wait test not found in waitfinish")
        t = tests[0]
        neg = isinstance(t.ast, ast.UnaryOp)
        fail = [cfw.nodes[m] for (m, l) in cfw.succ[t.id] if l == ("true" if neg else "false")]
        ok = fail and all(isinstance(x.ast, ast.Raise) and unparse(x.ast.exc).startswith("OSError") for x in fail)
        ob.site(fwf, t.ast, "timed-out wait raises OSError", ok=bool(ok))
        if not ok:
            ob.violation(fwf, t.ast, "a timed-out waitfinish does not raise OSError")
        wc = [c for c in calls_in_node(t) if callee_attr(c) == "wait"][0]
        if not any(unparse(x) == "timeout" for x in list(wc.args) + [k.value for k in wc.keywords]):
            ob.violation(fwf, wc, "waitfinish does not pass its timeout to the event wait")
        # terminate = trigger_shutdown + waitall(timeout)
        ftm = repo.func(f"{POOL}.terminate")
        names = [callee_attr(c) for c in repo.calls_in(ftm)]
        ob.site(ftm, ftm.node, "terminate = trigger_shutdown; return waitall(timeout)", calls=names)
        rets = [n for n in repo.own_nodes(ftm) if isinstance(n, ast.Return)]
        if names[:2] != ["trigger_shutdown", "waitall"] or not rets or not (isinstance(rets[0].value, ast.Call) and callee_attr(rets[0].value) == "waitall"):
            ob.violation(ftm, ftm.node, "WorkerPool.terminate is not `trigger_shutdown(); return waitall(timeout)`")

    check_lock_order(ctx, locks, "C09.k")
