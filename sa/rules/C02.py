"""C02 Channels deliver each item exactly once, in order, to the right channel."""

from __future__ import annotations

import ast

from ..cfg import Oracle, build_cfg
from ..index import AnalysisError, UNKNOWN, norm, unparse
from ..report import Ctx
from ..util import LockSets, arg, callee_attr, calls_in_node, cfg_nodes_with_call
from ._chan import GB, MESSAGE_TABLE, RECVLOCK, message_registry, send_sites
from .C09 import check_lock_order


def check_handover_lock(ctx: Ctx, locks: LockSets, oid: str) -> None:
    repo = ctx.repo
    with ctx.obligation(oid, "handover-lock") as ob:
        n = 0
        for fi in repo.scan_funcs():
            if fi.name == "__init__":
                continue
            for x in repo.own_nodes(fi):
                tgt = None
                if isinstance(x, ast.Assign):
                    for t in x.targets:
                        if isinstance(t, ast.Attribute) and t.attr == "_items":
                            tgt = "Channel._items store"
                        if isinstance(t, ast.Subscript) and unparse(t.value).endswith("_callbacks"):
                            tgt = "_callbacks[id] store"
                if isinstance(x, ast.Call) and callee_attr(x) == "received" and fi.short == "BaseGateway._thread_receiver":
                    tgt = "msg.received(self) dispatch"
                if isinstance(x, ast.Call) and fi.short == "Channel.setcallback" and (callee_attr(x) in ("get", "get_nowait") or (isinstance(x.func, ast.Name) and x.func.id == "callback")):
                    tgt = "hand-over drain step (queued item -> callback)"
                if tgt is None:
                    continue
                n += 1
                held = locks.held(fi, x)
                ob.site(fi, x, tgt, held=sorted(held))
                if RECVLOCK not in held:
                    ob.violation(fi, x, f"{tgt} without holding the gateway's _receivelock: the queue->callback hand-over can interleave with message dispatch (items lost or reordered)")
        ob.require(n >= 5, f"{n} hand-over/dispatch sites (floor 5)")



def check(ctx: Ctx) -> None:
    repo = ctx.repo
    ctx.decides = ("single reader of the gateway stream; complete message-code registry whose handlers route by the unmodified "
                   "channel id and payload; FIFO per-channel queue touched only by put/get; one CHANNEL_DATA frame per send; at "
                   "most one delivery (queue xor callback) per received frame; hand-over stores and dispatch under the receive lock.")
    ctx.not_decided = "the thread interleavings themselves; that the OS delivers the byte stream in order (axiom)."
    ctx.trust("queue.Queue is FIFO", "RLock semantics")
    locks = LockSets(repo)
    reg = message_registry(repo)

    with ctx.obligation("C02.a", "single-reader") as ob:
        from ..known_funcs import KNOWN_FUNCS
        from ..util import xtext
        readers = []
        for fi in repo.scan_funcs():
            for c in repo.calls_in(fi):
                if unparse(c.func) == "Message.from_io":
                    readers.append((fi, c, xtext(repo, fi, c.args[0])))
        # a reader inside a new (non-inlinable, e.g. generator) helper counts for each of its callers
        lifted = []
        for fi, c, stream in readers:
            if fi.qualname in KNOWN_FUNCS:
                lifted.append((fi, c, stream))
                continue
            sites = repo.callsites_flat(fi.qualname)
            params = fi.params()
            if not sites:
                lifted.append((fi, c, stream))
            for caller, call in sites:
                s2 = stream
                if stream in params and params.index(stream) < len(call.args):
                    s2 = xtext(repo, caller, call.args[params.index(stream)])
                lifted.append((caller, call, s2))
        readers = lifted
        for fi, c, stream in readers:
            ob.site(fi, c, "Message.from_io reader", stream=stream)
            c = ast.copy_location(ast.Call(func=c.func, args=[ast.parse(stream, mode="eval").body], keywords=[]), c)
            if fi.short == "BaseGateway._thread_receiver":
                al = repo.local_alias(unparse(c.args[0]), fi)
                if unparse(c.args[0]) != "self._io" and not (al is not None and unparse(al) == "self._io"):
                    ob.violation(fi, c, "the receiver thread decodes frames from something else than the gateway's io")
            elif fi.short == "serve_proxy_io":
                if unparse(c.args[0]) != "sub_io" and not unparse(c.args[0]).startswith("create_io("):
                    ob.violation(fi, c, "the forwarder reads frames from something else than its own sub process")
            else:
                ob.violation(fi, c, "a second reader decodes frames from a connection: frames would be split between readers")
        ob.require(len(readers) >= 2, "Message.from_io readers (receiver thread, forwarder) not found")
        # only the receiver reads the gateway's io
        for fi in repo.scan_funcs():
            for c in repo.calls_in(fi):
                if callee_attr(c) == "read" and isinstance(c.func, ast.Attribute) and unparse(c.func.value) in ("self._io", "gateway._io", "gw._io"):
                    ob.violation(fi, c, "direct read on a live gateway's io outside the receiver thread")
        inits = repo.callsites_flat(f"{GB}.BaseGateway._initreceive")
        names = sorted(f.short for f, _c in inits)
        ob.site(repo.func(f"{GB}.BaseGateway._initreceive"), None, "_initreceive called once per construction path", callers=names)
        if names != ["Gateway.__init__", "WorkerGateway.serve"]:
            ob.violation(repo.func(f"{GB}.BaseGateway._initreceive"), None, f"_initreceive callers are {names}: a gateway could get zero or two receiver threads", construct=f"callers {names}")
        fir = repo.func(f"{GB}.BaseGateway._initreceive")
        sp = [c for c in repo.calls_in(fir) if callee_attr(c) == "spawn"]
        if len(sp) != 1 or unparse(sp[0].args[0]) != "self._thread_receiver":
            ob.violation(fir, fir.node, "_initreceive does not spawn exactly one _thread_receiver")
        refs = [fi.short for fi in repo.scan_funcs() for n in repo.own_nodes(fi) if isinstance(n, ast.Attribute) and n.attr == "_thread_receiver"]
        if refs != ["BaseGateway._initreceive"]:
            ob.violation(fir, fir.node, f"_thread_receiver is referenced from {refs}", construct=f"refs {refs}")
        # bootstrap handshake reads precede Gateway(io, spec)
        fb = repo.func("gateway_bootstrap.bootstrap")
        from ..terms import evaluator as _ev
        evb = _ev(repo, fb)
        nctor = 0
        for (pth, st) in evb.run(limit=4000):
            calls = [e for e in st.events if e.kind == "call"]
            ctor = [e for e in calls if (e.callee or "").endswith("Gateway")]
            for c in ctor:
                nctor += 1
                done = any((e.callee or "").startswith("bootstrap_") and not e.raised and calls.index(e) < calls.index(c) for e in calls)
                if nctor == 1:
                    ob.site(fb, c.node, "handshake (bootstrap_*) completes before the receiver thread exists")
                if not done:
                    ob.violation(fb, c.node, "a Gateway (and its receiver thread) can be created before the bootstrap handshake read", path=evb.cfg.describe_path(pth))
        ob.require(nctor >= 3, "bootstrap(): Gateway construction / bootstrap_* calls not found")

    with ctx.obligation("C02.b", "dispatch-table") as ob:
        ob.require(len(reg) == 8, f"{len(reg)} registered message handlers (floor 8)")
        consts = repo.cls("Message").consts
        for code, (name, handler, payload) in MESSAGE_TABLE.items():
            have = reg.get(code)
            ob.site(have[1] if have else repo.module(GB), None, f"code {code} = {name} -> {handler}", registered=(have[0], have[1].name) if have else None)
            if have is None or have[0] != name or consts.get(name) != code:
                ob.violation(have[1] if have else repo.module(GB), have[1].node if have else None,
                             f"message code {code} must be {name} handled by {handler}; found {(have[0], have[1].name) if have else None}, constant {name}={consts.get(name)!r}",
                             construct=f"code {code}")
        # what the handler registered for each code does, decided on value terms with `message.msgcode` fixed to that
        # code (so one handler may serve several codes): id and payload reach the factory unmodified, in their roles
        from ..terms import NONE, State, const, evaluator as _ev2

        def handler_effects(code):
            h = repo.func(reg[code][1].qualname)
            ev = _ev2(repo, h)
            p0 = h.params()[0]
            init = State()
            init.env[f"{p0}.msgcode"] = const(code)
            outs = []
            for (pth, st) in ev.run(init=init, limit=2000):
                if pth[-1][0] == ev.cfg.exit.id:
                    outs.append(st)
            return h, p0, outs

        def norm_close(e):
            """(id, remoteerror, sendonly) of a _local_close call event"""
            names = ["id", "remoteerror", "sendonly"]
            vals = {"remoteerror": NONE, "sendonly": const(False)}
            for n_, a in zip(names, e.args):
                vals[n_] = a
            for k, v in e.kwargs.items():
                vals[k] = v
            return vals.get("id"), vals["remoteerror"], vals["sendonly"]

        for code in (4, 5, 6, 7):
            if code not in reg:
                continue
            h, p0, outs = handler_effects(code)
            MID, MDATA = ("sym", f"{p0}.channelid"), ("sym", f"{p0}.data")
            ok = bool(outs)
            for st in outs:
                calls = [e for e in st.events if e.kind == "call" and e.result[0] == "fresh"]
                if code == 4:
                    ok = ok and len(calls) == 1 and calls[0].attr == "_local_receive" and calls[0].args == (MID, MDATA) and not calls[0].kwargs
                    continue
                cl = [e for e in calls if e.attr == "_local_close"]
                if len(cl) != 1:
                    ok = False
                    continue
                cid, rerr, so = norm_close(cl[0])
                others = [e for e in calls if e is not cl[0]]
                if code == 5:
                    ok = ok and cid == MID and rerr == NONE and so == const(False) and not others
                elif code == 7:
                    ok = ok and cid == MID and rerr == NONE and so == const(True) and not others
                else:
                    ld = [e for e in others if e.callee == "loads_internal"]
                    re_ = [e for e in others if e.callee == "RemoteError"]
                    ok = ok and cid == MID and so == const(False) and len(ld) == 1 and ld[0].args == (MDATA,) and not ld[0].kwargs and len(re_) == 1 \
                        and re_[0].args == (ld[0].result,) and rerr == re_[0].result and len(others) == 2
            if not ok and code in (5, 6, 7):
                # the same judged by what the handler *does* to the channel (close transition inlined), wherever the steps live:
                # the addressed channel's waiters are released, the id is unregistered, closed iff the code says so
                from ._chan import close_effects
                ce = close_effects(repo, h)
                ok = bool(ce) and all(c["id"] == MID and c["unregistered"] and c["endmarker"] is not False and c["closed"] == (code != 7) for c in ce)
                if ok and code == 6:
                    for c in ce:
                        st6 = c["state"]
                        if c["error"] is None:
                            continue
                        mk = [e for e in st6.events if e.kind == "call" and e.result == c["error"]]
                        ld = [e for e in st6.events if e.kind == "call" and mk and mk[0].args and e.result == mk[0].args[0]]
                        ok = ok and bool(mk) and str(mk[0].callee or "").endswith("RemoteError") and bool(ld) and str(ld[0].callee or "").endswith("loads_internal") \
                            and ld[0].args == (MDATA,) and not ld[0].kwargs
                    ok = ok and any(c["error"] is not None for c in ce)
                elif ok:
                    ok = all(c["error"] is None for c in ce)
            what = {4: "_local_receive(id, payload)", 5: "_local_close(id)", 6: "_local_close(id, RemoteError(loads_internal(payload)))", 7: "_local_close(id, sendonly=True)"}[code]
            ob.site(h, h.node, f"code {code} ({MESSAGE_TABLE[code][0]}): handler {h.name} -> {what}", ok=ok)
            if not ok:
                if code == 6:
                    ob.violation(h, h.node, "_channel_close_error does not close the addressed channel with RemoteError(decoded payload)")
                else:
                    ob.violation(h, h.node, f"{MESSAGE_TABLE[code][1]} does not hand exactly (channel id, payload) to ChannelFactory.{what.split('(')[0]}")
        h = repo.func(reg[3][1].qualname) if 3 in reg else repo.cls("Message").methods["_channel_exec"]
        from ..terms import evaluator as _evh
        mp = h.params()[0]
        evh = _evh(repo, h)
        se = []
        ok = True
        for (_p, st_) in evh.run(limit=4000):
            sch = [e for e in st_.events if e.kind == "call" and e.attr == "_local_schedulexec"]
            if len(sch) != 1:
                ok = False
                continue
            se.append(sch[0].node)
            a = list(sch[0].args) + [sch[0].kwargs.get(k) for k in ("channel", "sourcetask")[len(sch[0].args):]]
            mk = [e for e in st_.events if e.kind == "call" and a and e.result == a[0]]
            if not (len(a) == 2 and mk and mk[0].attr == "new" and mk[0].args == (("sym", f"{mp}.channelid"),) and a[1] == ("sym", f"{mp}.data")):
                ok = False
        ok = ok and bool(se)
        ob.site(h, se[0] if se else h.node, "_channel_exec -> new(id) + _local_schedulexec(channel, data)", ok=ok)
        if not ok:
            ob.violation(h, h.node, "_channel_exec does not schedule the payload on the channel with the received id")
        fr = repo.func(f"{GB}.Message.received")
        from ..terms import const as _kc, evaluator as _evr
        WANT = ("idx", ("idx", ("sym", "self._types"), ("sym", "self.msgcode")), _kc(1))
        gwp = [p_ for p_ in fr.params() if p_ != "self"][0]
        okd = True
        npd = 0
        for (_pp, st_r) in _evr(repo, fr).run(limit=2000):
            if _pp[-1][0] not in (0,) and False:
                pass
            hcalls = [e for e in st_r.events if e.kind == "call" and e.recv is not None and (e.recv == WANT or (e.recv[0] == "dictget" and e.recv[1:3] == WANT[1][1:3]))]
            npd += 1
            if len(hcalls) != 1 or hcalls[0].args != (("sym", "self"), ("sym", gwp)):
                okd = False
        if not okd or npd == 0:
            ob.violation(fr, fr.node, "Message.received does not dispatch on its own msgcode, calling the handler exactly once with (message, gateway)")
        # every code some _send site uses has a handler; payload encoding agrees
        sites = send_sites(repo)
        ob.require(len(sites) >= 12, f"{len(sites)} _send sites (floor 12)")
        for fi, c, code, payload in sites:
            codes = code if isinstance(code, tuple) else (code,)
            if fi.short == "BaseGateway._send":
                continue
            for cd in codes:
                if cd is UNKNOWN or cd not in reg:
                    ob.violation(fi, c, f"_send with message code {cd!r} that has no registered handler")
                    continue
                want = MESSAGE_TABLE[cd][2] if cd in MESSAGE_TABLE else None
                have = "dumps" if payload is not None else None
                if cd == 0:
                    continue
                if want != have:
                    ob.violation(fi, c, f"{MESSAGE_TABLE[cd][0]} sent {'with' if have else 'without'} payload but its handler {'does not decode' if not want else 'decodes'} one")
        # DATA payload decoded exactly once by the receiving factory
        flr = repo.func(f"{GB}.ChannelFactory._local_receive")
        for c in repo.calls_in(flr):
            if callee_attr(c) == "loads_internal":
                ob.site(flr, c, "payload decoded with loads_internal(data, channel, ...)")
                if unparse(c.args[0]) != "data":
                    ob.violation(flr, c, "the decoded bytes are not the received payload")

    flr = repo.func(f"{GB}.ChannelFactory._local_receive")
    with ctx.obligation("C02.c", "route-by-id") as ob:
        idp = flr.params()[1]
        stores = [n for n in repo.own_nodes(flr) if isinstance(n, ast.Name) and isinstance(n.ctx, ast.Store) and n.id == idp]
        ob.site(flr, flr.node, "channel and callback looked up with the unmodified id parameter", id_param=idp)
        for s in stores:
            ob.violation(flr, s, "the channel id is re-assigned inside _local_receive")
        ch = [c for c in repo.calls_in(flr) if callee_attr(c) == "get" and "_channels" in unparse(c.func)]
        cb = [unparse(n.slice) for n in repo.own_nodes(flr) if isinstance(n, ast.Subscript) and "_callbacks" in unparse(n.value)]
        cb += [unparse(c.args[0]) for c in repo.calls_in(flr) if callee_attr(c) == "get" and "_callbacks" in unparse(c.func) and c.args]
        if len(ch) != 1 or unparse(ch[0].args[0]) != idp:
            ob.violation(flr, flr.node, "the channel is not looked up by the received id")
        if len(cb) != 1 or cb[0] != idp:
            ob.violation(flr, flr.node, "the callback is not looked up by the received id")
        chv = unparse(repo.parent(ch[0]).targets[0]) if ch and isinstance(repo.parent(ch[0]), ast.Assign) else None
        q = [n for n in repo.own_nodes(flr) if isinstance(n, ast.Attribute) and n.attr == "_items"]
        if not q or any(unparse(x.value) != chv for x in q):
            ob.violation(flr, flr.node, "items are not queued on the looked-up channel's own _items")

    with ctx.obligation("C02.d", "fifo") as ob:
        fci = repo.func(f"{GB}.Channel.__init__")
        mk = [n for n in repo.own_nodes(fci) if isinstance(n, ast.Assign) and unparse(n.targets[0]) == "self._items"]
        ob.require(len(mk) == 1, "Channel._items construction not found")
        ob.site(fci, mk[0], "per-channel queue type")
        if not (isinstance(mk[0].value, ast.Call) and unparse(mk[0].value.func).endswith(".queue.Queue") and not mk[0].value.args):
            ob.violation(fci, mk[0], "Channel._items is not an unbounded FIFO queue.Queue(): order or delivery of items would change")
        aliases = {"_items"}
        for fi in repo.scan_funcs():
            if fi.module.name != GB:
                continue
            local = set()
            for n in repo.own_nodes(fi):
                if isinstance(n, ast.Assign) and isinstance(n.value, (ast.Attribute, ast.IfExp)) and "_items" in unparse(n.value) and isinstance(n.targets[0], ast.Name):
                    local.add(n.targets[0].id)
            for c in repo.calls_in(fi):
                if isinstance(c.func, ast.Attribute):
                    recv = c.func.value
                    is_q = (isinstance(recv, ast.Attribute) and recv.attr == "_items") or (isinstance(recv, ast.Name) and recv.id in local)
                    if is_q:
                        ob.site(fi, c, f"queue operation {c.func.attr}")
                        if c.func.attr not in ("put", "get"):
                            ob.violation(fi, c, f"operation .{c.func.attr}() on a channel's item queue (only put/get keep FIFO exactly-once)")

    fsend = repo.func(f"{GB}.Channel.send")
    with ctx.obligation("C02.e", "one-frame-per-item") as ob:
        cfg = build_cfg(repo, fsend, Oracle(repo, fsend, precise=True))
        n = 0
        for path in cfg.paths(cfg.entry.id):
            if path[-1][0] != cfg.exit.id:
                continue
            n += 1
            ss = [c for nid, _ in path for c in (calls_in_node(cfg.nodes[nid]) if cfg.nodes[nid].ast is not None else []) if callee_attr(c) == "_send"]
            ob.site(fsend, ss[0] if ss else fsend.node, "one CHANNEL_DATA frame per send()", frames=len(ss))
            if len(ss) != 1:
                ob.violation(fsend, fsend.node, f"Channel.send emits {len(ss)} frames for one item", construct=f"{len(ss)} frames")
                continue
            c = ss[0]
            item = [p for p in fsend.params() if p != "self"][0]
            from ..util import expand
            a_code, a_id, a_pl = arg(c, 0, "msgcode"), arg(c, 1, "channelid"), expand(repo, fsend, arg(c, 2, "data"))
            ok = a_code is not None and repo.fold_in(a_code, fsend) == 4 and a_id is not None and unparse(a_id) == "self.id" and isinstance(a_pl, ast.Call) \
                and callee_attr(a_pl) == "dumps_internal" and unparse(a_pl.args[0]) == item
            if not ok:
                ob.violation(fsend, c, "Channel.send does not send (CHANNEL_DATA, own id, dumps_internal(item))")
        ob.require(n >= 1, "no normal path through Channel.send")

    with ctx.obligation("C02.f", "exactly-one-delivery") as ob:
        cfg = build_cfg(repo, flr, Oracle(repo, flr))
        from ..util import xtext
        from ._chan import entry_calls
        cb_calls = [c for (c, origin, what) in entry_calls(repo, flr) if origin == "_callbacks entry"]
        ob.require(bool(cb_calls), "callback destructuring not found in _local_receive")
        npaths = 0
        for path in cfg.paths(cfg.entry.id, limit=2000):
            deliveries = []
            for nid, _ in path:
                nd = cfg.nodes[nid]
                if nd.ast is None:
                    continue
                for c in calls_in_node(nd):
                    if callee_attr(c) == "put" or any(c is x for x in cb_calls):
                        deliveries.append(c)
            npaths += 1
            if len(deliveries) > 1:
                ob.violation(flr, deliveries[1], "a received frame can be delivered twice (queue and callback / twice)", path=cfg.describe_path(path))
        ob.site(flr, flr.node, "every path delivers at most once", paths=npaths)
        puts = [c for c in repo.calls_in(flr) if callee_attr(c) == "put"]
        cbs = cb_calls
        ob.require(len(puts) == 1 and len(cbs) == 1, "queue.put / callback(data) not found exactly once")
        from ..util import expand
        for c in puts + cbs:
            a = c.args[0]
            defs = [n.value for n in repo.own_nodes(flr) if isinstance(n, ast.Assign) and unparse(n.targets[0]) == unparse(a)] + [expand(repo, flr, a)]
            ok = any(isinstance(d, ast.Call) and callee_attr(d) == "loads_internal" and unparse(d.args[0]) == flr.params()[2] for d in defs)
            ob.site(flr, c, "delivered value = loads_internal(received payload)", ok=ok)
            if not ok:
                ob.violation(flr, c, "the delivered object is not the decoded payload of this frame")
        # drop only when there is neither queue nor callback: a normally ending path without any delivery has established
        # that the channel is gone or has no queue (decided on the whole path condition)
        from ..terms import NONE as _Nf, evaluator as _evf, implies as _impf
        cbn = {id(c) for c in cb_calls}
        evf = _evf(repo, flr)
        ndrop = 0
        for (pth, st_) in evf.run(limit=20000):
            if pth[-1][0] != evf.cfg.exit.id:
                continue
            if any(e.kind == "call" and (e.attr == "put" or id(e.node) in cbn) for e in st_.events):
                continue
            ndrop += 1
            chans = [e.result for e in st_.events if e.kind == "call" and e.attr == "get" and e.recv is not None and e.recv[0] == "sym" and e.recv[1].endswith("._channels")]
            ok = False
            for ch in chans:
                goal = ("or", ("cmp", "is", ch, _Nf), ("cmp", "is", ("attr", ch, "_items"), _Nf))
                try:
                    if _impf(st_.cond, goal) is True:
                        ok = True
                except Exception:
                    pass
            if not ok:
                last = evf.cfg.nodes[pth[-2][0]] if len(pth) >= 2 else None
                ob.violation(flr, last.ast if last is not None and last.ast is not None else flr.node, "data is dropped although the channel has a queue",
                             path=evf.cfg.describe_path(pth))
                break
        ob.site(flr, flr.node, "a frame is dropped only when the channel is gone or has no queue", drop_paths=ndrop)

    check_handover_lock(ctx, locks, "C02.g")
    check_lock_order(ctx, locks, "C02.h")

    # frame atomicity is a necessary condition of "no leakage into another channel" under concurrent senders
    from .C08 import check_atomic_write, check_single_write
    check_single_write(ctx, "C02.i")
    check_atomic_write(ctx, "C02.j")
    # ids are what routes an item to its channel: two channels with one id mix their items
    from .C18 import check_alloc_lock
    check_alloc_lock(ctx, "C02.k")
    with ctx.obligation("C02.m", "stale-frame-dropped-undecoded") as ob:
        # a data frame for a channel that is gone is dropped *without decoding it*: decoding (loads_internal) outside the
        # callback's `except Exception` scope happens only once the target channel is established non-None -- an item that
        # cannot be rebuilt without its channel (it carries channels itself) would otherwise end the receiver thread
        from ..terms import NONE as _Nm, evaluator as _evm, tv as _tvm
        from ._chan import in_exception_handler_scope as _scope
        flr = repo.func(f"{GB}.ChannelFactory._local_receive")
        evm = _evm(repo, flr)
        nd = 0
        seen_m = set()
        for (_p, st_) in evm.run(limit=20000):
            for e in st_.events:
                if e.kind == "call" and str(e.callee or "").endswith("loads_internal"):
                    contained = _scope(repo, flr, e.node)
                    chan = e.args[1] if len(e.args) > 1 else e.kwargs.get("channelfactory", e.kwargs.get("channel"))
                    alive = chan is not None and _tvm(("cmp", "is", chan, _Nm), dict(st_.cond[:e.ncond])) is False
                    if chan is not None and not alive:
                        from ..terms import implies as _impm
                        try:
                            alive = _impm(st_.cond[:e.ncond], ("not", ("cmp", "is", chan, _Nm))) is True
                        except Exception:
                            alive = False
                    if id(e.node) not in seen_m:
                        nd += 1
                        seen_m.add(id(e.node))
                        ob.site(flr, e.node, "payload decoded inside the callback's except scope, or with the channel known to exist", contained=contained, channel_alive=alive)
                    if not (contained or alive) and ("v", id(e.node)) not in seen_m:
                        seen_m.add(("v", id(e.node)))
                        ob.violation(flr, e.node, "a data frame is decoded before it is known that its channel still exists (and outside any `except Exception`): a stale frame "
                                                  "carrying a channel raises LoadError in the receiver thread and every other channel of the gateway stops receiving",
                                     construct="decode before liveness test")
        ob.require(nd >= 2, f"{nd} payload decoding sites in _local_receive (floor 2)")

    # the receiver thread is the only reader of the frame stream: the worker's fd 0 / sys.stdin no longer point at it
    from .C06 import check_stdio_typestate
    check_stdio_typestate(ctx, "C02.o")

    # items sent by the worker after Gateway.exit() are still delivered: the socket transport half-closes like a pipe
    from .C16 import check_socket_halfclose
    check_socket_halfclose(ctx, "C02.n")
    # a read that takes more than the frame's bytes swallows the start of the next frame: later items are lost
    with ctx.obligation("C02.l", "exact-read") as ob:
        from .C08 import check_exact_read
        for cname in ("Popen2IO", "SocketIO"):
            check_exact_read(repo, ob, repo.cls(cname).methods["read"])

    # the receiver thread sits in recv() between frames for as long as the peer is silent: a socket that keeps a timeout ends the
    # thread (and loses everything sent later) after that long without traffic
    from .C16 import check_socket_blocking
    check_socket_blocking(ctx, "C02.p")

    # a callback registration is the receiving end of its channel for as long as the peer may send: `_local_receive` routes by it even
    # after the Channel object is gone.  Only the close transition (`_no_longer_opened`, which also fires the endmarker) may remove it.
    with ctx.obligation("C02.q", "callback-registration-removed-only-by-close") as ob:
        n = 0
        for fi in repo.scan_funcs():
            if fi.module.name != GB:
                continue
            for x in repo.own_nodes(fi):
                rm = None
                if isinstance(x, ast.Call) and isinstance(x.func, ast.Attribute) and x.func.attr in ("pop", "popitem", "clear") and norm(x.func.value).endswith("_callbacks"):
                    rm = x
                elif isinstance(x, ast.Delete) and any(isinstance(t, ast.Subscript) and norm(t.value).endswith("_callbacks") for t in x.targets):
                    rm = x
                elif isinstance(x, ast.Call) and isinstance(x.func, ast.Attribute) and x.func.attr in ("pop", "popitem", "clear") and isinstance(x.func.value, ast.Name):
                    al = repo.local_alias(x.func.value.id, fi)
                    if al is not None and norm(al).endswith("_callbacks"):
                        rm = x
                if rm is None:
                    continue
                n += 1
                ok = fi.qualname == f"{GB}.ChannelFactory._no_longer_opened"
                ob.site(fi, rm, "removal of a callback registration", ok=ok)
                if not ok:
                    ob.violation(fi, rm, "a callback registration is removed outside the close transition (_no_longer_opened): items the peer sends afterwards are dropped "
                                         "silently and the endmarker is never delivered", construct=f"_callbacks removal in {fi.short}")
        ob.require(n >= 1, "no removal of a callback registration found (expected in ChannelFactory._no_longer_opened)")
