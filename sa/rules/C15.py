"""C15 Bootstrapping needs nothing installed on the other side."""

from __future__ import annotations

import ast

from ..cfg import Oracle, build_cfg
from ..closure import (BUILTINS, STDLIB, dis_global_names, dis_import_names, fragment_source, global_refs,
                       is_type_checking_guarded, module_bindings, unresolved_globals)
from ..index import AnalysisError, FuncInfo, Module, Repo, norm, unparse
from ..report import Ctx
from ..util import Facts, callee_attr, calls_in_node

GB = "gateway_base"
LAZY_OK = {"EventletExecModel": "eventlet", "GeventExecModel": "gevent"}


def imports_of(mod: Module):
    for n in ast.walk(mod.tree):
        if isinstance(n, ast.Import):
            for a in n.names:
                yield n, a.name, 0
        elif isinstance(n, ast.ImportFrom):
            yield n, n.module or "", n.level


def exec_defined_names(mod: Module) -> set[str]:
    """names defined by a module-level ``exec("<literal source>")``"""
    out = set()
    for st in mod.tree.body:
        if isinstance(st, ast.Expr) and isinstance(st.value, ast.Call) and unparse(st.value.func) == "exec" \
                and len(st.value.args) == 1 and isinstance(st.value.args[0], ast.Constant) and isinstance(st.value.args[0].value, str):
            try:
                t = ast.parse(st.value.args[0].value)
            except SyntaxError:
                continue
            for s in t.body:
                if isinstance(s, (ast.FunctionDef, ast.ClassDef)):
                    out.add(s.name)
    return out


def shipped_modules(repo: Repo) -> list[tuple[FuncInfo, ast.Call, Module]]:
    out = []
    for fi in repo.scan_funcs():
        for c in repo.calls_in(fi):
            if callee_attr(c) == "remote_exec" and c.args:
                a = c.args[0]
                name = None
                if isinstance(a, ast.Name):
                    imp = fi.module.imports.get(a.id)
                    if imp is not None:
                        name = a.id if imp[1] is None or imp[1] == a.id else imp[1]
                    # function-level import (from execnet.script import socketserver)
                    for n in ast.walk(fi.node):
                        if isinstance(n, ast.ImportFrom) and any((al.asname or al.name) == a.id for al in n.names):
                            name = a.id
                elif isinstance(a, ast.Attribute):
                    name = a.attr
                if name is None:
                    continue
                cand = [m for k, m in repo.modules.items() if k == name or k.endswith("." + name)]
                if cand:
                    out.append((fi, c, cand[0]))
    return out


def main_only_functions(mod) -> dict[str, ast.FunctionDef]:
    """module-level functions of a script that are only ever called from its `if __name__ == "__main__":` block
    (directly or through other such functions): they are part of the stand-alone entry path"""
    mains = [s for s in mod.tree.body if isinstance(s, ast.If) and "__main__" in unparse(s.test) and "__channelexec__" not in unparse(s.test)]
    funcs = {s.name: s for s in mod.tree.body if isinstance(s, ast.FunctionDef)}
    if not mains:
        return {}

    def refs(tree) -> set[str]:
        return {x.id for x in ast.walk(tree) if isinstance(x, ast.Name) and isinstance(x.ctx, ast.Load) and x.id in funcs}
    in_main: set[str] = set()
    for m in mains:
        for s in m.body:
            in_main |= refs(s)
    changed = True
    while changed:
        changed = False
        for n in list(in_main):
            new = refs(funcs[n]) - in_main
            if new:
                in_main |= new
                changed = True
    # referenced from anywhere else in the module -> not main-only
    elsewhere: set[str] = set()
    for s in mod.tree.body:
        if s in mains or (isinstance(s, ast.FunctionDef) and s.name in in_main):
            continue
        elsewhere |= refs(s)
    changed = True
    while changed:
        changed = False
        for n in list(elsewhere):
            new = refs(funcs[n]) - elsewhere
            if new:
                elsewhere |= new
                changed = True
    return {n: funcs[n] for n in in_main - elsewhere}


def sendexec_parts(repo, f, call: ast.Call) -> list[ast.AST]:
    """the source parts handed to sendexec(io, *parts), with hoisted locals and starred list displays expanded"""
    from ..util import expand

    out: list[ast.AST] = []
    for a in call.args[1:]:
        if isinstance(a, ast.Starred):
            v = expand(repo, f, a.value)
            if isinstance(v, (ast.List, ast.Tuple)):
                out.extend(expand(repo, f, e) or e for e in v.elts)
            else:
                out.append(a)
            continue
        out.append(expand(repo, f, a) or a)
    return out


def check(ctx: Ctx) -> None:
    repo = ctx.repo
    gb = repo.module(GB)
    ctx.decides = ("gateway_base imports only the standard library (lazy eventlet/gevent in their exec models); every global "
                   "name used anywhere in the shipped source resolves to a module-level binding or a builtin; the SocketIO class "
                   "and the bootstrap fragments use only names the shipped prelude or the documented injector binds; shipped "
                   "modules import execnet only optionally with a __main__ fallback naming prelude bindings; the stand-alone "
                   "socket server needs no execnet and binds a name the fragment probes by NameError only to a real object; import-bootstrap only for plain popen; the namespace the prelude runs in.")
    ctx.not_decided = "that a source-bootstrapped worker behaves exactly like an import-bootstrapped one (behavioural)."
    ctx.trust("CPython symtable scoping", "sys.stdlib_module_names")
    prelude = module_bindings(gb.source, gb.rel)

    with ctx.obligation("C15.a", "base-imports") as ob:
        n = 0
        for node, name, level in imports_of(gb):
            n += 1
            top = name.split(".")[0]
            fi = repo.enclosing_func(node)
            ob.site(gb, node, f"import {name}", scope=fi.short if fi else "<module>")
            if level:
                ob.violation(gb, node, "relative import in gateway_base: the shipped source is executed outside the package")
            elif top == "execnet":
                ob.violation(gb, node, "gateway_base imports execnet: the other side may not have it installed")
            elif top in STDLIB or top == "__future__":
                continue
            elif fi is not None and fi.cls is not None and LAZY_OK.get(fi.cls.name) == top:
                continue
            elif fi is not None and top in ("msvcrt",):
                continue
            else:
                ob.violation(gb, node, f"gateway_base imports the third-party module {name!r} (not standard library, not the lazy import of its exec model)")
        ob.require(n >= 20, f"{n} imports in gateway_base (floor 20)")

    with ctx.obligation("C15.b", "base-closure") as ob:
        refs = global_refs(gb.source, gb.rel)
        unres = unresolved_globals(gb.source, filename=gb.rel)
        ob.site(gb, None, f"{len(refs)} distinct global names referenced in {gb.rel}, all bound at module level or builtin", unresolved=sorted(unres))
        for name, scopes in sorted(unres.items()):
            node = next((x for x in ast.walk(gb.tree) if isinstance(x, ast.Name) and x.id == name), None)
            ob.violation(gb, node, f"name {name!r} used in {scopes[0] or '<module>'} is not defined in the shipped source", construct=f"unbound {name}")
        if ctx.tier == "thorough":
            d = dis_global_names(gb.source, gb.rel)
            class_locals = set()
            for c in ast.walk(gb.tree):
                if isinstance(c, ast.ClassDef):
                    for s in c.body:
                        for x in ast.walk(s):
                            if isinstance(x, ast.Name) and isinstance(x.ctx, ast.Store):
                                class_locals.add(x.id)
                        if isinstance(s, (ast.FunctionDef, ast.ClassDef)):
                            class_locals.add(s.name)
            du = {x for x in d if x not in prelude and x not in BUILTINS and x not in class_locals}
            ob.site(gb, None, "dis cross-check: LOAD_GLOBAL/LOAD_NAME names of the compiled (not executed) code objects", n=len(d), unresolved=sorted(du))
            if du != set(unres):
                raise AnalysisError(f"C15.b: symtable and dis derivations disagree: {sorted(du)} vs {sorted(unres)}")
            di = {x.split(".")[0] for x in dis_import_names(gb.source, gb.rel)}
            ai = {name.split(".")[0] for _n, name, _l in imports_of(gb)}
            if di != ai:
                raise AnalysisError(f"C15.a: ast and dis import sets disagree: {sorted(di ^ ai)}")

    # ---- C15.c shipped class
    gs = repo.module("gateway_socket")
    with ctx.obligation("C15.c", "shipped-class") as ob:
        sio = gs.classes.get("SocketIO")
        ob.require(sio is not None, "SocketIO class vanished")
        seg = ast.get_source_segment(gs.source, sio.node)
        import textwrap
        seg = textwrap.dedent(seg)
        future = any(isinstance(s, ast.ImportFrom) and s.module == "__future__" and any(a.name == "annotations" for a in s.names) for s in gb.tree.body)
        if not future:
            ob.violation(gb, None, "the shipped prelude lacks `from __future__ import annotations`: annotations of shipped classes would be evaluated remotely", construct="no future annotations")
        src = "from __future__ import annotations\n" + seg
        refs = global_refs(src, "SocketIO")
        allowed = prelude | BUILTINS | {"socket"}
        bad = {n: s for n, s in refs.items() if n not in allowed and n != "SocketIO"}
        ob.site(gs, sio.node, "run-time global names of the shipped SocketIO class", names=sorted(refs))
        for name, scopes in sorted(bad.items()):
            node = next((x for x in ast.walk(sio.node) if isinstance(x, ast.Name) and x.id == name), sio.node)
            ob.violation(gs, node, f"SocketIO uses {name!r} at run time, which the shipped prelude (gateway_base + `import socket`) does not bind", construct=f"SocketIO uses {name}")
        # the class shipped is the one defined here
        bs = repo.func("gateway_bootstrap.bootstrap_socket")
        sx = [c for c in repo.calls_in(bs) if isinstance(c.func, ast.Name) and c.func.id == "sendexec"]
        ob.require(len(sx) == 1, "bootstrap_socket: sendexec call not found")
        gsrc = [a for a in sendexec_parts(repo, bs, sx[0]) if isinstance(a, ast.Call) and unparse(a.func) == "inspect.getsource"]
        ob.site(bs, bs.node, "bootstrap_socket ships getsource(gateway_base), 'import socket', getsource(SocketIO)", shipped=[norm(c) for c in gsrc])
        if [unparse(c.args[0]) for c in gsrc] != ["gateway_base", "SocketIO"]:
            ob.violation(bs, bs.node, "bootstrap_socket no longer ships exactly gateway_base and SocketIO", construct="shipped sources")

    # ---- C15.d bootstrap fragments
    boot = repo.module("gateway_bootstrap")
    ss = repo.module("script.socketserver")
    with ctx.obligation("C15.d", "bootstrap-fragments") as ob:
        # injected names of the socket server
        fe = repo.func("script.socketserver.exec_from_one_connection")
        injected: set[str] = set()
        for n in repo.own_nodes(fe):
            if isinstance(n, ast.Assign) and isinstance(n.value, ast.Dict):
                for k in n.value.keys:
                    if isinstance(k, ast.Constant) and isinstance(k.value, str):
                        injected.add(k.value)
            if isinstance(n, ast.Assign) and isinstance(n.targets[0], ast.Subscript) and isinstance(n.targets[0].slice, ast.Constant):
                pass  # conditional injections (execmodel) are not relied upon
        # ... or built up by stores before the exec (value terms)
        from ..terms import dict_entries as _dent, evaluator as _evinj
        for (_pp, st_i) in _evinj(repo, fe).run(limit=4000):
            for e_i in st_i.events:
                if e_i.kind == "call" and e_i.callee in ("exec", "exec_") and len(e_i.args) >= 2:
                    injected |= {k_ for k_ in _dent(st_i, e_i.args[1], e_i) if isinstance(k_, str)}
        nsites = 0
        for fname, extra in (("bootstrap_import", set()), ("bootstrap_exec", prelude), ("bootstrap_socket", prelude | {"socket", "SocketIO"} | (injected & {"clientsock", "address"}))):
            f = repo.func(f"gateway_bootstrap.{fname}")
            calls = [c for c in repo.calls_in(f) if isinstance(c.func, ast.Name) and c.func.id == "sendexec"]
            ob.require(len(calls) == 1, f"{fname}: sendexec call not found")
            nsites += 1
            xargs = sendexec_parts(repo, f, calls[0])
            parts = fragment_source(xargs)
            lits = [p for p in parts if p is not None]
            nonlit = [norm(a) for a, p in zip(xargs, parts) if p is None]
            src = "\n".join(lits)
            try:
                ast.parse(src)
            except SyntaxError as e:
                ob.violation(f, calls[0], f"the bootstrap fragment does not parse: {e}")
                continue
            unres = unresolved_globals(src, extra=extra, filename=fname)
            ob.site(f, calls[0], "bootstrap fragment parses; every name bound by the prelude / fragment / injector", non_literal_parts=nonlit, unresolved=sorted(unres))
            for name in sorted(unres):
                ob.violation(f, calls[0], f"bootstrap fragment of {fname} uses {name!r}, which neither the shipped prelude nor the fragment nor the server's injector binds",
                             construct=f"{fname} uses {name}")
            for a in nonlit:
                if not a.startswith("inspect.getsource("):
                    ob.violation(f, calls[0], f"non-literal bootstrap part {a}")
            if fname != "bootstrap_import":
                # the fragment runs in the SAME namespace as the shipped gateway_base source: a global the fragment binds
                # (`io = init_popen_io(..)`) replaces a module-level binding of the same name that functions of the shipped source
                # use -- only in source-bootstrapped workers, an import-bootstrapped worker keeps its module namespace
                gb_mod = repo.module("gateway_base")
                gsrc = open(gb_mod.path, encoding="utf-8").read()
                gtree = ast.parse(gsrc)
                mod_bound: set[str] = set()
                for st_ in gtree.body:
                    if isinstance(st_, (ast.Import, ast.ImportFrom)):
                        mod_bound |= {(a_.asname or a_.name).split(".")[0] for a_ in st_.names}
                    elif isinstance(st_, (ast.FunctionDef, ast.ClassDef, ast.AsyncFunctionDef)):
                        mod_bound.add(st_.name)
                    elif isinstance(st_, (ast.Assign, ast.AnnAssign)):
                        for tg_ in (st_.targets if isinstance(st_, ast.Assign) else [st_.target]):
                            mod_bound |= {x_.id for x_ in ast.walk(tg_) if isinstance(x_, ast.Name)}
                used_in_funcs = {n_ for n_, scopes in global_refs(gsrc, "gateway_base").items() if any(sc for sc in scopes)}
                ftree_ = ast.parse(src)
                frag_bound: dict[str, ast.AST] = {}
                for st_ in ftree_.body:
                    for x_ in ([st_] if isinstance(st_, (ast.Import, ast.ImportFrom)) else []):
                        for a_ in x_.names:
                            frag_bound.setdefault((a_.asname or a_.name).split(".")[0], st_)
                    if isinstance(st_, (ast.Assign, ast.AnnAssign, ast.AugAssign)):
                        for tg_ in (st_.targets if isinstance(st_, ast.Assign) else [st_.target]):
                            for x_ in ast.walk(tg_):
                                if isinstance(x_, ast.Name):
                                    frag_bound.setdefault(x_.id, st_)
                # (an import of the same module under the same name re-binds the same object: harmless)
                clash = sorted(n_ for n_, st_ in frag_bound.items() if n_ in mod_bound and n_ in used_in_funcs and not isinstance(st_, (ast.Import, ast.ImportFrom)))
                ob.site(f, calls[0], "globals bound by the fragment do not replace module-level names the shipped source uses", fragment_binds=sorted(frag_bound), clashes=clash)
                for n_ in clash:
                    ob.violation(f, calls[0], f"the bootstrap fragment of {fname} rebinds the global {n_!r}, which the shipped gateway_base source binds at module level and uses "
                                              "inside its functions: source-bootstrapped workers see the fragment's object there, import-bootstrapped ones the module's",
                                 construct=f"{fname} rebinds {n_}")
            if fname == "bootstrap_import":
                for n in ast.walk(ast.parse(src)):
                    if isinstance(n, ast.ImportFrom) and (n.module or "").startswith("execnet") and n.module != "execnet.gateway_base":
                        ob.violation(f, calls[0], "the import bootstrap imports another execnet module than gateway_base")
        ob.require(nsites == 3, "3 sendexec call sites expected")
        # names the socket fragment *probes* (`try: N / except NameError: N = ...`) are optional injections: the fallback only
        # fires if the server leaves N unbound when it has nothing to offer -- binding N to None defeats it
        probed: set[str] = set()
        fsock = repo.func("gateway_bootstrap.bootstrap_socket")
        scall = [c for c in repo.calls_in(fsock) if isinstance(c.func, ast.Name) and c.func.id == "sendexec"][0]
        try:
            ftree = ast.parse("\n".join(p for p in fragment_source(sendexec_parts(repo, fsock, scall)) if p is not None))
        except SyntaxError:
            ftree = ast.Module(body=[], type_ignores=[])
        for n in ast.walk(ftree):
            if isinstance(n, ast.Try) and any(h.type is not None and "NameError" in unparse(h.type) for h in n.handlers):
                for b in n.body:
                    if isinstance(b, ast.Expr) and isinstance(b.value, ast.Name):
                        probed.add(b.value.id)
        from ..terms import NONE as _N, evaluator as _evs, tv as _tv
        evs = _evs(repo, fe)
        n_exec = 0
        for (pth, st_) in evs.run(limit=4000):
            for e in st_.events:
                if e.kind == "call" and e.callee in ("exec", "exec_") and len(e.args) >= 2:
                    n_exec += 1
                    ns = e.args[1]
                    bound: list[tuple[str, tuple, int]] = []
                    if ns[0] == "dict":
                        bound += [(kv[0][1], kv[1], e.ncond) for kv in ns[1:] if kv[0][0] == "const"]
                    for s_ in st_.events[:st_.events.index(e)]:
                        if s_.kind == "store" and s_.recv == ns and s_.key is not None and s_.key[0] == "const":
                            bound.append((s_.key[1], s_.value, s_.ncond))
                    for (name, val, nc) in bound:
                        if name in probed:
                            known = dict(st_.cond[:e.ncond])
                            isnone = _tv(("cmp", "is", val, _N), known)
                            if isnone is None and val[0] == "sym" and val[1] not in fe.params():
                                # a module global: None only if some assignment of the script can store None
                                assigned = [a.value for a in ast.walk(ss.tree) if isinstance(a, ast.Assign) and any(isinstance(t, ast.Name) and t.id == val[1] for t in a.targets)]
                                if assigned and not any(isinstance(x, ast.Constant) and x.value is None for v in assigned for x in ast.walk(v)):
                                    isnone = False
                            ob.site(fe, e.node, f"optional injection {name!r} is bound only to a real object", value_is_None=isnone)
                            if isnone is not False:
                                ob.violation(fe, e.node, f"the socket server binds {name!r} in the namespace of the bootstrap fragment even when it has no value for it (None): the fragment's "
                                                         f"`try: {name} / except NameError` fallback never fires and the stand-alone server (no execnet importable) cannot serve a gateway",
                                             construct=f"{name} injected as None")
        ob.require(n_exec >= 1, "socket server: exec of the received source with a namespace not found")
        ob.note(f"names probed by the socket fragment through NameError: {sorted(probed)}")
        if "clientsock" not in injected:
            ob.violation(ss, fe.node, "the socket server no longer injects `clientsock` into the namespace of the bootstrap fragment", construct="no clientsock injection")
        # sendexec ships repr(source) + newline; the remote line is exec(eval(readline()))
        se = repo.func("gateway_bootstrap.sendexec")
        from ..terms import const as _c, evaluator as _ev
        va = se.node.args.vararg.arg if se.node.args.vararg is not None else None
        from ..terms import string_pieces as _pieces
        want_line = [("repr", ("pcall", ("meth", _c("\n"), "join"), (("sym", va),), ())), "\n"]
        good = False
        evse = _ev(repo, se)
        for (_p, st_) in evse.run():
            wr = [e for e in st_.events if e.kind == "call" and e.attr == "write"]
            a0 = wr[0].args[0] if len(wr) == 1 and len(wr[0].args) == 1 else None
            good = a0 is not None and a0[0] == "pcall" and isinstance(a0[1], tuple) and a0[1][0] == "meth" and a0[1][2] == "encode" \
                and _pieces(a0[1][1]) == want_line and (a0[2][:1] in ((), (_c("utf-8"),), (_c("utf8"),)))
        ob.site(se, se.node, "sendexec writes repr(source) + newline", ok=good)
        if not good:
            ob.violation(se, se.node, "sendexec no longer sends one repr()'d line")

    # ---- C15.e shipped modules
    with ctx.obligation("C15.e", "shipped-modules") as ob:
        shipped = shipped_modules(repo)
        names = sorted({m.name for _f, _c, m in shipped})
        ob.require(len(names) >= 3, f"shipped modules found: {names} (floor 3)")
        for mod in {m.name: m for _f, _c, m in shipped}.values():
            has_future = any(isinstance(s, ast.ImportFrom) and s.module == "__future__" and any(a.name == "annotations" for a in s.names) for s in mod.tree.body)
            guarded_names: set[str] = set()
            for node, name, level in imports_of(mod):
                top = name.split(".")[0]
                fi = repo.enclosing_func(node)
                if is_type_checking_guarded(mod.tree, node, repo.parents):
                    for a in node.names:
                        guarded_names.add(a.asname or a.name)
                    continue
                # only the __main__ branch may differ
                in_main = any(isinstance(p, ast.If) and "__main__" in unparse(p.test) and "__channelexec__" not in unparse(p.test)
                              and any(node is x or node in ast.walk(x) for x in p.body) for p in repo.ancestors(node))
                if not in_main and fi is not None:
                    mo = main_only_functions(mod)
                    top_fn = fi
                    while top_fn.parent is not None:
                        top_fn = top_fn.parent
                    in_main = top_fn.name in mo and mo[top_fn.name] is top_fn.node
                if in_main:
                    continue
                if level:
                    ob.violation(mod, node, f"shipped module {mod.name} uses a relative import")
                elif top == "execnet" or name == "__main__":
                    # must be the try/except ImportError pair
                    tr = next((p for p in repo.ancestors(node) if isinstance(p, ast.Try)), None)
                    if name == "__main__":
                        want = {a.name for a in node.names}
                        if not want <= prelude:
                            ob.violation(mod, node, f"`from __main__ import {sorted(want - prelude)}`: not bound by the shipped prelude", construct=f"__main__ import {sorted(want - prelude)}")
                        continue
                    def _imports_execnet(x):
                        return (isinstance(x, ast.ImportFrom) and (x.module or "").split(".")[0] == "execnet") or \
                            (isinstance(x, ast.Import) and any(a.name.split(".")[0] == "execnet" for a in x.names))
                    # in the try body, or in its `else` when the body itself probes the execnet import
                    ok = tr is not None and any("ImportError" in unparse(h.type) for h in tr.handlers if h.type is not None) and \
                        (any(node is x for x in tr.body) or (any(node is x for x in tr.orelse) and any(_imports_execnet(x) for x in tr.body)))
                    if ok:
                        names_try = {a.asname or a.name for x in list(tr.body) + list(tr.orelse) if isinstance(x, ast.ImportFrom) for a in x.names}
                        names_fb = {a.asname or a.name for h in tr.handlers for x in h.body if isinstance(x, ast.ImportFrom) and x.module == "__main__" for a in x.names}
                        if names_try != names_fb:
                            ok = False
                    if not ok:
                        ob.violation(mod, node, f"shipped module {mod.name} imports {name} unconditionally: it fails on a host without execnet")
                elif top in STDLIB or top == "__future__":
                    pass
                else:
                    ob.violation(mod, node, f"shipped module {mod.name} imports third-party {name}")
            refs = global_refs(mod.source, mod.rel)
            used_guarded = sorted(guarded_names & set(refs))
            unres = unresolved_globals(mod.source, extra={"channel"} | exec_defined_names(mod), filename=mod.rel)
            ob.site(mod, None, f"shipped module {mod.name}: imports optional/stdlib, names closed", unresolved=sorted(unres), typing_only=sorted(guarded_names))
            if guarded_names and not has_future:
                ob.violation(mod, None, f"{mod.name} names TYPE_CHECKING-only imports but lacks `from __future__ import annotations`", construct="no future annotations")
            for g in used_guarded:
                node = next((x for x in ast.walk(mod.tree) if isinstance(x, ast.Name) and x.id == g and isinstance(x.ctx, ast.Load)
                             and not is_type_checking_guarded(mod.tree, x, repo.parents)), None)
                ob.violation(mod, node, f"shipped module {mod.name} uses {g!r} at run time, but imports it only under TYPE_CHECKING", construct=f"runtime use of {g}")
            for name in sorted(unres):
                ob.violation(mod, None, f"shipped module {mod.name} uses undefined global {name!r}", construct=f"unbound {name}")

    # ---- C15.g stand-alone entry
    with ctx.obligation("C15.g", "standalone-entry") as ob:
        mains = [s for s in ss.tree.body if isinstance(s, ast.If) and "__main__" in unparse(s.test)]
        ob.require(len(mains) == 1, "socketserver: `if __name__ == '__main__'` block not found")
        main = mains[0]
        scope_nodes = list(main.body) + [s for f_ in main_only_functions(ss).values() for s in f_.body]
        found = 0
        for st in ast.walk(ast.Module(body=scope_nodes, type_ignores=[])):
            if isinstance(st, (ast.Import, ast.ImportFrom)):
                name = st.module if isinstance(st, ast.ImportFrom) else st.names[0].name
                if not (name or "").startswith("execnet"):
                    continue
                found += 1
                tr = next((p for p in repo.ancestors(st) if isinstance(p, ast.Try) and any(st is x for x in p.body)), None)
                ok = tr is not None and any(h.type is None or any(k in unparse(h.type) for k in ("ImportError", "ModuleNotFoundError", "Exception")) for h in tr.handlers) \
                    and not any(isinstance(x, ast.Raise) for h in tr.handlers for x in ast.walk(h))
                ob.site(ss, st, "execnet import on the stand-alone path is optional", ok=bool(ok))
                if not ok:
                    ob.violation(ss, st, "the stand-alone socket server imports execnet unconditionally: `python socketserver.py` fails where execnet is not installed "
                                         "(the documentation promises stand-alone use)")
                    continue
                bound = {a.asname or a.name for a in st.names}
                # after the try statement the names are bound as well if every handler leaves (return / raise / continue)
                leaves = all(h.body and isinstance(h.body[-1], (ast.Return, ast.Raise, ast.Continue, ast.Break)) for h in tr.handlers)
                holder = next((p for p in repo.ancestors(tr) if isinstance(p, (ast.FunctionDef, ast.If, ast.Module))), main)
                for x in ast.walk(ast.Module(body=scope_nodes, type_ignores=[])):
                    if isinstance(x, ast.Name) and x.id in bound and isinstance(x.ctx, ast.Load):
                        inside = any(p is tr for p in repo.ancestors(x)) or (leaves and any(p is holder for p in repo.ancestors(x)) and x.lineno > tr.lineno)
                        if not inside:
                            ob.violation(ss, x, f"{x.id!r} (bound only by the optional execnet import) is used outside the try statement")
        # top-level (non-guarded) execnet imports of the script
        for node, name, level in imports_of(ss):
            if (name.startswith("execnet") or level) and not is_type_checking_guarded(ss.tree, node, repo.parents) \
                    and not any(p is main for p in repo.ancestors(node)) and repo.enclosing_func(node) is None \
                    and not any(isinstance(p, ast.If) and "__channelexec__" in unparse(p.test) for p in repo.ancestors(node)):
                ob.violation(ss, node, "module-level execnet import in the stand-alone socket server script")
        if not found:
            ob.site(ss, main, "no execnet import on the stand-alone path")

    with ctx.obligation("C15.k", "remote-python-verbatim") as ob:
        # python= is a command *prefix* (interpreter plus options such as -S -E, or a sudo/env wrapper): popen splits it into words,
        # the ssh transports must hand it to the remote shell as it is -- quoting it makes one word of it
        from ..terms import evaluator as _evq, string_pieces as _piecesq
        nq = 0
        for fname in ("ssh_args", "vagrant_ssh_args"):
            if not repo.has_func(f"gateway_io.{fname}"):
                continue
            fq = repo.func(f"gateway_io.{fname}")
            sp_ = fq.params()[0]
            good = False
            seen_cmd = False
            for (_p, st_) in _evq(repo, fq).run(limit=4000):
                for e in st_.events:
                    for a in list(e.args or ()) + ([e.value] if e.value is not None else []):
                        ps = _piecesq(a) if isinstance(a, tuple) else None
                        if ps and any(isinstance(x, str) and " -c " in x for x in ps):
                            seen_cmd = True
                            holes = [x for x in ps if not isinstance(x, str)]
                            if holes and holes[0][0] == "str" and holes[0][1] in (("or", ("sym", f"{sp_}.python"), ("const", "python")), ("sym", f"{sp_}.python")):
                                good = True
            if seen_cmd:
                nq += 1
                ob.site(fq, fq.node, f"{fname}: remote command = <spec.python or 'python'> -c \"<bootstrap>\"", ok=good)
                if not good:
                    ob.violation(fq, fq.node, f"{fname} does not put `spec.python or 'python'` verbatim in front of the remote command: a python= value with options or a "
                                              "wrapper (the way to start a bare interpreter) reaches the remote shell as one word and the worker never starts",
                                 construct=f"{fname}: python= not verbatim")
        ob.require(nq >= 1, "ssh_args: remote command construction not found")

    # ---- C15.j names imported from the standard library exist on an older supported interpreter too
    with ctx.obligation("C15.j", "stdlib-names-portable") as ob:
        from ..closure import oldest_stdlib_root, stdlib_exports
        old = oldest_stdlib_root()
        if old is None:
            ob.site(gb, None, "no older standard library is present as source on this machine: not decided here")
        else:
            ver, root = old
            nchk = nund = 0
            for mod in [gb, repo.module("gateway_socket")]:
                for st in ast.walk(mod.tree):
                    if not isinstance(st, ast.ImportFrom) or st.level or (st.module or "").split(".")[0] not in STDLIB or st.module == "__future__":
                        continue
                    anc = list(repo.ancestors(st))
                    if any(isinstance(a, ast.If) and "TYPE_CHECKING" in unparse(a.test) for a in anc):
                        continue  # never executed
                    if any(isinstance(a, ast.Try) and any(h.type is not None and "ImportError" in unparse(h.type) for h in a.handlers) for a in anc):
                        continue  # probed
                    exp = stdlib_exports(root, st.module)
                    for a in st.names:
                        if a.name == "*":
                            continue
                        if exp is None:
                            nund += 1
                            continue
                        nchk += 1
                        if a.name not in exp:
                            ob.violation(mod, st, f"shipped module {mod.name} imports `{a.name}` from `{st.module}`, which the standard library of Python {ver} does not provide "
                                                  f"(read from its source under {root}): the transmitted source fails with ImportError on such an interpreter although "
                                                  "execnet supports it", construct=f"from {st.module} import {a.name}")
            ob.site(gb, None, f"names imported from the standard library by the shipped sources exist in Python {ver} too", checked=nchk, undecided=nund)
            ob.require(nchk >= 5, f"{nchk} stdlib from-imports checked (floor 5)")

    # ---- C15.i the shipped text survives the bootstrap channel whatever the remote locale is
    with ctx.obligation("C15.i", "shipped-source-ascii") as ob:
        # sendexec writes repr(source) as UTF-8, the popen bootstrap line reads it with sys.stdin.readline() in *text* mode,
        # i.e. in the remote interpreter's locale encoding; repr() leaves non-ASCII characters as they are -- only an ASCII
        # source decodes identically under every locale (C / legacy code pages on a bare interpreter)
        nsrc = 0
        for fname in ("bootstrap_exec", "bootstrap_socket"):
            f = repo.func(f"gateway_bootstrap.{fname}")
            calls = [c for c in repo.calls_in(f) if isinstance(c.func, ast.Name) and c.func.id == "sendexec"]
            for a in (sendexec_parts(repo, f, calls[0]) if calls else []):
                if isinstance(a, ast.Call) and unparse(a.func) == "inspect.getsource" and a.args:
                    nm = unparse(a.args[0]).split(".")[-1]
                    mod = repo.modules.get(nm) or next((m for m in repo.modules.values() if nm in m.classes), None)
                    if mod is None:
                        continue
                    nsrc += 1
                    bad = [(i + 1, ch) for i, line in enumerate(mod.source.splitlines()) for ch in line if ord(ch) > 127]
                    ob.site(f, a, f"{fname} ships the text of {mod.name}: pure ASCII", non_ascii=len(bad))
                    if bad:
                        ln, ch = bad[0]
                        ob.violation(mod, ast.Pass(lineno=ln, col_offset=0), f"shipped module {mod.name} contains the non-ASCII character {ch!r} (line {ln}): the repr()'d bootstrap "
                                                                             "line is read in the remote locale's encoding and no longer evaluates on an interpreter whose stdin is not UTF-8",
                                     construct=f"non-ASCII {ch!r} in {mod.name}")
                elif isinstance(a, ast.Constant) and isinstance(a.value, str) and not a.value.isascii():
                    ob.violation(f, a, "a bootstrap fragment contains non-ASCII text")
        ob.require(nsrc >= 2, f"{nsrc} shipped sources found in the bootstrap functions (floor 2)")

    # ---- C15.h namespace agreement
    with ctx.obligation("C15.h", "namespace-agreement") as ob:
        io_mod = repo.module("gateway_io")
        line = io_mod.consts.get("popen_bootstrapline")
        ob.require(isinstance(line, str), "popen_bootstrapline constant vanished")
        t = ast.parse(line)
        execs = [n for n in ast.walk(t) if isinstance(n, ast.Call) and unparse(n.func) == "exec"]
        imps = [a.name for n in ast.walk(t) if isinstance(n, ast.Import) for a in n.names]
        ob.site(io_mod, None, "popen bootstrap line: top-level exec() of the received source in __main__", line=line)
        if len(execs) != 1 or len(execs[0].args) != 1:
            ob.violation(io_mod, None, "the popen bootstrap line does not exec the received source at top level (namespace __main__)", construct=line)
        if imps != ["sys"]:
            ob.violation(io_mod, None, f"the popen bootstrap line imports {imps}, expected only sys", construct=line)
        fallback = []
        for _f, _c, mod in shipped_modules(repo):
            for node, name, _l in imports_of(mod):
                if name == "__main__" and (mod, node) not in fallback:
                    fallback.append((mod, node))
        fe = repo.func("script.socketserver.exec_from_one_connection")
        private = []
        for c in repo.calls_in(fe):
            if unparse(c.func) in ("exec", "exec_") and len(c.args) >= 2 and isinstance(c.args[1], ast.Name):
                al = repo.local_alias(c.args[1].id, fe)
                if isinstance(al, ast.Dict):
                    private.append(c)
        ob.site(fe, private[0] if private else fe.node, "socket server executes the prelude in", namespace="a private dict" if private else "__main__")
        for c in private:
            for mod, node in fallback[:1]:
                ob.violation(fe, c, f"the socket server executes the shipped prelude in a private dict, but shipped module {mod.name} falls back to "
                                    "`from __main__ import ...`: a via= gateway through a socket worker on a host without execnet fails with ImportError",
                             construct="exec in private dict vs from __main__ import")

    # ---- C15.f import path gate
    with ctx.obligation("C15.f", "import-path-gate") as ob:
        fb = repo.func("gateway_bootstrap.bootstrap")
        from ..terms import evaluator as _ev2
        evb = _ev2(repo, fb)
        n_imp = 0
        sp = fb.params()[1]
        for (pth, st) in evb.run(limit=4000):
            for e in st.events:
                if e.kind == "call" and e.callee == "bootstrap_import":
                    n_imp += 1
                    known = dict((t, v) for (t, v) in st.cond[:e.ncond])
                    facts = {k: known.get(("sym", f"{sp}.{k}")) for k in ("popen", "via", "python")}
                    ok = facts == {"popen": True, "via": False, "python": False}
                    ob.site(fb, e.node, "import bootstrap only for plain popen (no via, no python=)", facts=facts)
                    if not ok:
                        ob.violation(fb, e.node, "bootstrap_import (which needs execnet importable remotely) is reachable for specs with python=/via= or non-popen transports")
        ob.require(n_imp >= 1, "bootstrap_import call not found in bootstrap()")
        callers = sorted({f.short for f in repo.scan_funcs() for n in repo.own_nodes(f) if isinstance(n, ast.Name) and n.id == "bootstrap_import" and isinstance(n.ctx, ast.Load)})
        if callers != ["bootstrap"]:
            ob.violation(fb, fb.node, f"bootstrap_import has other callers: {callers}", construct=f"callers {callers}")
