"""C04 Connection loss at any byte never hangs or corrupts the survivor."""

from __future__ import annotations

import ast

from ..cfg import ANY, Oracle, build_cfg
from ..index import AnalysisError, UNKNOWN, norm, unparse
from ..report import Ctx
from ..util import Facts, LockSets, callee_attr, calls_in_node, cfg_nodes_with_call, lexical_locks
from ._chan import GB, WRITELOCK, callback_invocations, in_exception_handler_scope, receiver_context
from .C08 import check_exact_read

NONRAISING = {"_geterrortext", "geterrortext"}


def check_close_all(ctx: Ctx, oid: str) -> None:
    repo = ctx.repo
    f_fin = repo.func(f"{GB}.ChannelFactory._finished_receiving")
    with ctx.obligation(oid, "close-all") as ob:
        from ..util import xtext
        loops = [n for n in repo.own_nodes(f_fin) if isinstance(n, ast.For)]
        seen = {}
        for lp in loops:
            it = xtext(repo, f_fin, lp.iter)
            var = unparse(lp.target)
            calls = [c for s in lp.body for c in ast.walk(s) if isinstance(c, ast.Call)]
            if "self._channels" in it:
                from ..util import bind_args
                bound = [bind_args(repo, c, f"{GB}.ChannelFactory._local_close") for c in calls if callee_attr(c) == "_local_close"]
                idp = [p_ for p_ in repo.func(f"{GB}.ChannelFactory._local_close").params() if p_ != "self"][0]
                ok = any(idp in b and unparse(b[idp]) == var and "sendonly" in b and repo.fold_in(b["sendonly"], f_fin) is True for b in bound)
                if not ok:
                    # judged by effect: every id of the snapshot has its receiving side ended without being closed (sendonly)
                    from ._chan import close_effects
                    ce = [c for c in close_effects(repo, f_fin) if c["id"] is not None and c["id"][0] == "elem"]
                    ok = bool(ce) and all(c["closed"] is False and c["unregistered"] and c["endmarker"] is not False and c["error"] is None for c in ce)
                seen["channels"] = ok
                ob.site(f_fin, lp, "every registered channel -> _local_close(id, sendonly=True)", ok=ok)
            elif "self._callbacks" in it:
                ok = any(callee_attr(c) == "_no_longer_opened" and unparse(c.args[0]) == var for c in calls)
                seen["callbacks"] = ok
                ob.site(f_fin, lp, "every registered callback -> _no_longer_opened(id) (endmarker)", ok=ok)
            else:
                continue
            if "_list(" not in it and "list(" not in it and "tuple(" not in it and "sorted(" not in it:
                ob.violation(f_fin, lp, "the shutdown sweep iterates a table that is mutated by the calls inside the loop (no snapshot)")
        if not seen.get("channels"):
            ob.violation(f_fin, f_fin.node, "_finished_receiving does not close every registered channel (sendonly): blocked receivers never see EOF", construct="no channel sweep")
        if not seen.get("callbacks"):
            ob.violation(f_fin, f_fin.node, "_finished_receiving does not fire the endmarker of every registered callback", construct="no callback sweep")
        # sweep order: _no_longer_opened also removes the id from the (weak) `_channels` table, so a callback sweep that runs
        # first hides every live channel with a callback from the channel sweep -- its `_receiveclosed` is never set and
        # waitclose() on it blocks forever after a connection loss
        f_nlo = repo.func(f"{GB}.ChannelFactory._no_longer_opened")
        nlo_pops = any((isinstance(x, ast.Call) and isinstance(x.func, ast.Attribute) and x.func.attr in ("pop", "clear", "popitem") and "_channels" in unparse(x.func.value))
                       or (isinstance(x, ast.Delete) and "_channels" in unparse(x)) for x in repo.own_nodes(f_nlo))
        ch_loops = [l for l in loops if "self._channels" in xtext(repo, f_fin, l.iter)]
        cb_loops = [l for l in loops if "self._callbacks" in xtext(repo, f_fin, l.iter) and "self._channels" not in xtext(repo, f_fin, l.iter)]
        if nlo_pops and ch_loops and cb_loops:
            cfg_f = build_cfg(repo, f_fin, Oracle(repo, f_fin, precise=True))
            heads = {id(n.owner): n for n in cfg_f.nodes if n.kind == "for"}
            hc, hb = heads.get(id(ch_loops[0])), heads.get(id(cb_loops[0]))
            ok = hc is not None and hb is not None and cfg_f.dominated_by(hb.id, hc.id)
            ob.site(f_fin, cb_loops[0], "the channel sweep runs before the callback sweep (which also unregisters the ids from _channels)", ok=ok)
            if not ok:
                ob.violation(f_fin, cb_loops[0], "the callback sweep (_no_longer_opened pops the id from _channels) runs before the channel sweep: a live channel with a callback is "
                                                 "no longer in _channels when the channels are closed, its _receiveclosed is never set and waitclose() blocks forever after a connection loss",
                             construct="callback sweep before channel sweep")
        # the flag is set before the sweep
        st = [n for n in repo.own_nodes(f_fin) if isinstance(n, ast.Assign) and "finished" in unparse(n.targets[0])]
        sweeps = [l for l in loops if "self._channels" in xtext(repo, f_fin, l.iter) or "self._callbacks" in xtext(repo, f_fin, l.iter)]
        if st and sweeps and st[0].lineno > min(l.lineno for l in sweeps):
            ob.violation(f_fin, st[0], "the finished flag is set after the sweep: a channel created in between is never closed")



def check_receiver_epilogue(ctx: Ctx, oid: str) -> None:
    """every way out of the receiver loop reaches _finished_receiving() (channels closed, end markers fired) and then
    _terminate_execution() (shared: C04.c, C10.l)"""
    repo = ctx.repo
    f_recv = repo.func(f"{GB}.BaseGateway._thread_receiver")
    with ctx.obligation(oid, "epilogue") as ob:
        cfg = build_cfg(repo, f_recv, Oracle(repo, f_recv, nonraising=NONRAISING))
        handlers = [n for n in cfg.nodes if n.kind == "except" and n.id in cfg.live()]
        ob.require(len(handlers) >= 3, "receiver loop handlers not found")
        fin = cfg_nodes_with_call(cfg, lambda c: callee_attr(c) == "_finished_receiving")
        term = cfg_nodes_with_call(cfg, lambda c: callee_attr(c) == "_terminate_execution")
        ob.require(len(fin) >= 1 and len(term) >= 1, "_finished_receiving / _terminate_execution calls not found in _thread_receiver")
        classes = set()
        for h in handlers:
            t = h.ast.type
            names = [unparse(x) for x in (t.elts if isinstance(t, ast.Tuple) else [t])] if t is not None else ["BaseException"]
            classes |= set(names)
            p = cfg.must_pass([h.id], [cfg.exit.id, cfg.raise_exit.id], {f.id for f in fin})
            ob.site(f_recv, h.ast, f"handler ({', '.join(names)}) reaches _finished_receiving()")
            if p is not None:
                ob.violation(f_recv, h.ast, f"the receiver thread can end in handler ({', '.join(names)}) without closing the channels: blocked receivers hang forever",
                             path=cfg.describe_path(p))
        for need in ("EOFError", "Exception", "KeyboardInterrupt", "GatewayReceivedTerminate"):
            if need not in classes:
                ob.violation(f_recv, f_recv.node, f"the receiver loop has no handler for {need}", construct=f"no handler {need}")
        for f in fin:
            starts = [m for (m, l) in cfg.succ[f.id] if not l.startswith("exc:")]
            p = cfg.must_pass(starts, [cfg.exit.id, cfg.raise_exit.id], {t.id for t in term})
            ob.site(f_recv, f.ast, "_finished_receiving() is followed by _terminate_execution()")
            if p is not None:
                ob.violation(f_recv, f.ast, "after closing the channels the receiver epilogue can skip _terminate_execution()", path=cfg.describe_path(p))
        # the loop itself has no normal exit
        loops = [n for n in repo.own_nodes(f_recv) if isinstance(n, ast.While)]
        if len(loops) != 1 or repo.fold_in(loops[0].test, f_recv) not in (1, True) or any(isinstance(x, (ast.Break, ast.Return)) for x in ast.walk(loops[0])):
            ob.violation(f_recv, loops[0] if loops else f_recv.node, "the receiver loop can be left without an exception (no epilogue reason recorded)")
        tail = [callee_attr(c) for c in repo.calls_in(f_recv) if callee_attr(c) in ("close_read", "close_write", "trigger_shutdown")]
        ob.note(f"recorded, not required (ProxyIO.close_read raises by design): tail = {tail}")



def check(ctx: Ctx) -> None:
    repo = ctx.repo
    ctx.decides = ("short/empty reads raise EOFError and a Message exists only after both exact reads; every handled way out of the "
                   "receiver loop reaches _finished_receiving() and then _terminate_execution(); the finished flag is written and tested "
                   "under the factory's write lock and new() refuses with OSError; _finished_receiving closes every channel and fires every "
                   "callback endmarker; _send maps everything IO.write can raise to OSError; the EOFError is remembered and re-raised to "
                   "waitclose/receive; a short read surfaces as EOFError on every transport (e.args[0] is always present).")
    ctx.not_decided = "byte offsets, real SIGKILLs and 'nothing blocks forever' beyond this shape."
    ctx.assume("A3")
    f_from = repo.func(f"{GB}.Message.from_io")
    f_recv = repo.func(f"{GB}.BaseGateway._thread_receiver")

    with ctx.obligation("C04.a", "eof-on-empty") as ob:
        for cname in repo.io_implementors("IO"):
            ci = repo.cls(cname)
            if "read" in ci.methods and cname != "ProxyIO":
                check_exact_read(repo, ob, ci.methods["read"])
        ob.require(len(ob.sites) >= 2, "exact-read implementors (floor 2)")

    with ctx.obligation("C04.b", "no-partial") as ob:
        cfg = build_cfg(repo, f_from, Oracle(repo, f_from, precise=True))
        ctor = cfg_nodes_with_call(cfg, lambda c: isinstance(c.func, ast.Name) and c.func.id == "Message")
        reads = cfg_nodes_with_call(cfg, lambda c: callee_attr(c) == "read")
        ob.require(len(ctor) == 1 and len(reads) >= 2, "from_io: Message construction / reads not found")
        hdr = [r for r in reads if r.id != ctor[0].id]
        ok = all(cfg.dominated_by(ctor[0].id, r.id) for r in hdr)
        ob.site(f_from, ctor[0].ast, "Message constructed only after the header read and with the payload read as argument", ok=ok)
        if not ok:
            ob.violation(f_from, ctor[0].ast, "a Message can be constructed before the header was read completely")
        # payload is read inside the constructor call => an EOFError there prevents construction
        c = [x for x in calls_in_node(ctor[0]) if isinstance(x.func, ast.Name) and x.func.id == "Message"][0]
        if not any(isinstance(a, ast.Call) and callee_attr(a) == "read" for a in c.args):
            pv = unparse(c.args[2]) if len(c.args) > 2 else None
            defs = [r for r in reads if isinstance(r.ast, ast.Assign) and unparse(r.ast.targets[0]) == pv]
            if not defs or not cfg.dominated_by(ctor[0].id, defs[0].id):
                ob.violation(f_from, c, "the payload handed to Message() is not the result of a completed exact read")

    check_receiver_epilogue(ctx, "C04.c")

    locks = LockSets(repo)
    f_fin = repo.func(f"{GB}.ChannelFactory._finished_receiving")
    f_new = repo.func(f"{GB}.ChannelFactory.new")
    with ctx.obligation("C04.d", "finished-flag") as ob:
        stores = [(fi, n) for fi in repo.scan_funcs() for n in repo.own_nodes(fi) if isinstance(n, ast.Assign)
                  and any(isinstance(t, ast.Attribute) and t.attr == "finished" for t in n.targets) and fi.name != "__init__"]
        ob.require(len(stores) >= 1, "no store to ChannelFactory.finished")
        for fi, n in stores:
            held = locks.held(fi, n)
            ob.site(fi, n, "finished flag written under _writelock", held=sorted(held))
            if WRITELOCK not in held:
                ob.violation(fi, n, "ChannelFactory.finished is written without _writelock: new() could create a channel after the shutdown sweep")
            if fi is not f_fin or repo.fold_in(n.value, fi) is not True:
                ob.violation(fi, n, "ChannelFactory.finished is written outside _finished_receiving / not set to True")
        cfg = build_cfg(repo, f_new, Oracle(repo, f_new, precise=True))
        mk = cfg_nodes_with_call(cfg, lambda c: isinstance(c.func, ast.Name) and c.func.id == "Channel")
        ob.require(len(mk) == 1, "Channel construction not found in new()")
        ok = False
        for (t, lab) in cfg.guards(mk[0].id):
            if t.kind == "test" and unparse(t.ast) == "self.finished" and lab == "false":
                tru = [cfg.nodes[m] for (m, l) in cfg.succ[t.id] if l == "true"]
                if tru and all(isinstance(x.ast, ast.Raise) and unparse(x.ast.exc).startswith("OSError") for x in tru) and WRITELOCK in lexical_locks(repo, f_new, t.owner) \
                        and WRITELOCK in lexical_locks(repo, f_new, mk[0].ast):
                    ok = True
        ob.site(f_new, mk[0].ast, "new(): `finished` test raising OSError dominates channel creation, same lock", ok=ok)
        if not ok:
            ob.violation(f_new, mk[0].ast, "ChannelFactory.new does not refuse (OSError) under _writelock once receiving has finished")
        fnc = repo.func(f"{GB}.BaseGateway.newchannel")
        if [callee_attr(c) for c in repo.calls_in(fnc)] != ["new"]:
            ob.violation(fnc, fnc.node, "newchannel() does not go through ChannelFactory.new()")
        fre = repo.func("gateway.Gateway.remote_exec")
        cfe = build_cfg(repo, fre, Oracle(repo, fre, precise=True))
        nc = cfg_nodes_with_call(cfe, lambda c: callee_attr(c) == "newchannel")
        sd = cfg_nodes_with_call(cfe, lambda c: callee_attr(c) == "_send")
        ob.require(len(nc) == 1 and len(sd) == 1, "remote_exec: newchannel/_send not found")
        ob.site(fre, sd[0].ast, "remote_exec allocates the channel (refusal point) before sending")
        if not cfe.dominated_by(sd[0].id, nc[0].id):
            ob.violation(fre, sd[0].ast, "remote_exec can send CHANNEL_EXEC without passing ChannelFactory.new()")

    check_close_all(ctx, "C04.e")

    with ctx.obligation("C04.f", "send-maps-errors") as ob:
        from ..util import xtext
        fsend = repo.func(f"{GB}.BaseGateway._send")
        def cr(c, f):
            if callee_attr(c) == "to_io":
                return [("OSError", False), ("ValueError", False)]
            if callee_attr(c) in ("Message",):
                return []
            return None
        cfg = build_cfg(repo, fsend, Oracle(repo, fsend, call_raises=cr))
        bad = []
        for (p, lab) in cfg.pred[cfg.raise_exit.id]:
            nd = cfg.nodes[p]
            if isinstance(nd.ast, ast.Raise) and nd.ast.exc is not None and xtext(repo, fsend, nd.ast.exc).startswith("OSError"):
                continue
            bad.append((nd, lab))
        ob.site(fsend, fsend.node, "every exception of the frame write leaves _send as OSError", escapes=[f"{n.line}:{l}" for n, l in bad])
        for nd, lab in bad:
            ob.violation(fsend, nd.ast, f"{lab.split(':')[-1]} raised while writing a frame escapes _send unconverted (callers are promised OSError)")
        # what the IO.write implementors raise explicitly
        for cname in repo.io_implementors("IO"):
            ci = repo.cls(cname)
            if "write" in ci.methods:
                w = repo.flat(ci.methods["write"])
                for n in repo.own_nodes(w):
                    if isinstance(n, ast.Raise) and n.exc is not None and unparse(n.exc).split("(")[0] not in ("OSError", "ValueError", "IOError", "BrokenPipeError"):
                        ob.violation(w, n, f"{cname}.write raises {unparse(n.exc).split('(')[0]}, which _send does not map to OSError")
                ob.site(w, None, f"{cname}.write raises only OSError/ValueError explicitly")

    with ctx.obligation("C04.g", "error-remembered") as ob:
        hs = [h for n in repo.own_nodes(f_recv) if isinstance(n, ast.Try) for h in n.handlers if h.type is not None and unparse(h.type) == "EOFError"]
        ob.require(len(hs) == 1, "EOFError handler of the receiver loop not found")
        ok = any(isinstance(s, ast.Assign) and unparse(s.targets[0]) == "self._error" and unparse(s.value) == hs[0].name for s in hs[0].body)
        ob.site(f_recv, hs[0], "EOFError stored in gateway._error", ok=ok)
        if not ok:
            ob.violation(f_recv, hs[0], "the EOFError that ended the receiver is not remembered in _error: waitclose() would return normally after a connection loss")
        fg = repo.func(f"{GB}.Channel._getremoteerror")
        rets = [unparse(n.value) for n in repo.own_nodes(fg) if isinstance(n, ast.Return) and n.value is not None]
        ob.site(fg, None, "_getremoteerror falls back to gateway._error", returns=rets)
        if "self.gateway._error" not in rets and not any("getattr(self.gateway, '_error'" in r for r in rets):
            ob.violation(fg, fg.node, "_getremoteerror no longer falls back to the gateway's remembered EOFError")
        # on value terms (any spelling: `raise e or EOFError()`, `if e is None: raise EOFError()` / `raise e`, a helper ...)
        from ..terms import NONE as _N, evaluator as _ev, tv as _tv

        def _remembered(t):
            return t[0] == "fresh" and str(t[2]).endswith("_getremoteerror")

        def _eof(t):
            return t[0] == "fresh" and str(t[2]).split(".")[-1] == "EOFError"

        def raise_roles(fi_, relevant):
            """which of {remembered, eof} the raising paths selected by `relevant(st)` raise, and whether each is chosen rightly"""
            got, bad = set(), []
            evr = _ev(repo, fi_)
            for (pth, st) in evr.run(limit=20000):
                if not relevant(st):
                    continue
                rz = [e for e in st.events if e.kind == "raise"]
                if pth[-1][0] != evr.cfg.raise_exit.id or not rz:
                    if pth[-1][0] == evr.cfg.exit.id:
                        bad.append("returns")
                    continue
                V = rz[-1].value
                known = dict(st.cond)
                if V is None:
                    continue
                if V[0] == "or" and len(V) == 3 and _remembered(V[1]) and _eof(V[2]):
                    got |= {"remembered", "eof"}
                elif _remembered(V):
                    got.add("remembered")
                    if _tv(("cmp", "is", V, _N), known) is not False:
                        bad.append("may raise None")
                elif _eof(V):
                    rem = [e.result for e in st.events if e.kind == "call" and e.result is not None and _remembered(e.result)]
                    got.add("eof")
                    if not rem or not (_tv(("cmp", "is", rem[-1], _N), known) is True or _tv(rem[-1], known) is False):
                        bad.append("EOFError although an error may be remembered")
                else:
                    bad.append("raises something else")
            return got, bad
        fr = repo.func(f"{GB}.Channel.receive")
        got, bad = raise_roles(fr, lambda st: any(t[0] == "cmp" and t[1] == "is" and ("sym", "ENDMARKER") in (t[2], t[3]) and v is True for (t, v) in st.cond))
        ok = got == {"remembered", "eof"} and not bad
        ob.site(fr, fr.node, "receive raises remembered error or EOFError at ENDMARKER", ok=ok, raises=sorted(got), problems=sorted(set(bad)))
        if not ok:
            ob.violation(fr, fr.node, "receive() does not raise `remembered error or EOFError()` when it meets ENDMARKER")
        fw = repo.func(f"{GB}.Channel.waitclose")
        evw = _ev(repo, fw)
        n_raise = n_quiet = 0
        okw = True
        for (pth, st) in evw.run(limit=20000):
            rem = [e.result for e in st.events if e.kind == "call" and e.result is not None and _remembered(e.result)]
            if not rem:
                continue
            known = dict(st.cond)
            absent = _tv(("cmp", "is", rem[-1], _N), known) is True or _tv(rem[-1], known) is False
            rz = [e for e in st.events if e.kind == "raise"]
            if pth[-1][0] == evw.cfg.raise_exit.id and rz and rz[-1].value == rem[-1] and not absent:
                n_raise += 1
            elif pth[-1][0] == evw.cfg.exit.id and absent:
                n_quiet += 1
            else:
                okw = False
        okw = okw and n_raise >= 1 and n_quiet >= 1
        ob.site(fw, fw.node, "waitclose re-raises the remembered error", ok=okw)
        if not okw:
            ob.violation(fw, fw.node, "waitclose() does not re-raise the remembered error")
        wt = [c for c in repo.calls_in(fw) if callee_attr(c) == "wait"]
        if not wt or not any(unparse(x) == "timeout" for x in list(wt[0].args) + [k.value for k in wt[0].keywords]):
            ob.violation(fw, fw.node, "waitclose() does not pass its timeout to the event wait")

    # a second receiver blocked on the same channel must see the end too: the marker goes back on the queue
    from .C03 import check_endmarker_requeue
    check_endmarker_requeue(ctx, "C04.k")

    with ctx.obligation("C04.m", "empty-read-is-eof") as ob:
        # a transport that signals the end by an empty read (ProxyIO) must surface as EOFError too, or gateway._error stays unset
        from .C08 import check_empty_header_eof
        check_empty_header_eof(repo, ob)

    # the connection-loss sweep runs under the receive lock, like every other close: a setcallback in progress still gets its endmarker
    from .C10 import check_closers_serialised
    check_closers_serialised(ctx, "C04.l")

    with ctx.obligation("C04.h", "callbacks-contained") as ob:
        rc = receiver_context(repo)
        for fi, c, origin in callback_invocations(repo):
            if fi.qualname not in rc:
                continue
            ok = in_exception_handler_scope(repo, fi, c)
            ob.site(fi, c, f"user callback ({origin}) in receiver context contained by `except Exception`", ok=ok)
            if not ok:
                ob.violation(fi, c, "a user callback runs uncontained in the receiver thread: if it raises, the epilogue is aborted before _terminate_execution() "
                                    "and every other channel of the gateway dies with it")
        ob.require(len(ob.sites) >= 2, "callback invocation sites in receiver context (floor 2)")

    with ctx.obligation("C04.i", "eof-identity") as ob:
        # the handler in from_io reads e.args[k]: every EOFError that can reach it must carry > k arguments
        need = -1
        for n in repo.own_nodes(f_from):
            if isinstance(n, ast.Subscript) and isinstance(n.value, ast.Attribute) and n.value.attr == "args":
                k = repo.fold_in(n.slice, f_from)
                if isinstance(k, int):
                    need = max(need, k)
        sites = []
        for cname in repo.io_implementors("IO") + ["ChannelFileRead"]:
            ci = repo.classes.get(cname)
            if ci is not None and "read" in ci.methods:
                sites += [(repo.flat(ci.methods["read"]), n) for n in repo.own_nodes(repo.flat(ci.methods["read"])) if isinstance(n, ast.Raise)]
        sites += [(f_from, n) for n in repo.own_nodes(f_from) if isinstance(n, ast.Raise) and any(isinstance(a, ast.Try) and any(n is x or n in ast.walk(x) for x in a.body) for a in repo.ancestors(n))]
        for fi, n in sites:
            if n.exc is None:
                continue
            name = unparse(n.exc).split("(")[0]
            if name != "EOFError":
                continue
            nargs = len(n.exc.args) if isinstance(n.exc, ast.Call) else 0
            ob.site(fi, n, f"EOFError raised with {nargs} argument(s); from_io reads e.args[{need}]")
            if nargs <= need:
                ob.violation(fi, n, f"EOFError raised without arguments, but Message.from_io evaluates e.args[{need}] in its handler: the short read surfaces as IndexError, "
                                    "the receiver logs it as a generic error and never stores _error (waitclose returns normally on this transport)")
        ob.require(len(ob.sites) >= 3, "EOFError raise sites (floor 3)")
        # the handler re-raises EOFError
        hs = [h for n in repo.own_nodes(f_from) if isinstance(n, ast.Try) for h in n.handlers]
        if not hs or not all(isinstance(h.body[-1], ast.Raise) and unparse(h.body[-1].exc).startswith("EOFError") for h in hs):
            ob.violation(f_from, f_from.node, "from_io's handler does not re-raise EOFError")

    # "nothing blocks forever": everyone waiting for the receiver pool (Gateway.join() = WorkerPool.waitall()) is released when it ends
    from ..report import borrow
    borrow(ctx, "C09", {"C09.g": "C04.n"})
