"""Shared facts about the channel/gateway layer used by C02 C03 C04 C07 C10 C18."""

from __future__ import annotations

import ast

from ..index import AnalysisError, FuncInfo, Repo, UNKNOWN, norm, unparse
from ..util import LockSets, arg, callee_attr

GB = "gateway_base"
RECVLOCK = "BaseGateway._receivelock"
WRITELOCK = "ChannelFactory._writelock"

#: frozen oracle for C02.b: code -> (name, handler, payload kind)
MESSAGE_TABLE = {
    0: ("STATUS", "_status", None),
    1: ("RECONFIGURE", "_reconfigure", "dumps"),
    2: ("GATEWAY_TERMINATE", "_gateway_terminate", None),
    3: ("CHANNEL_EXEC", "_channel_exec", "dumps"),
    4: ("CHANNEL_DATA", "_channel_data", "dumps"),
    5: ("CHANNEL_CLOSE", "_channel_close", None),
    6: ("CHANNEL_CLOSE_ERROR", "_channel_close_error", "dumps"),
    7: ("CHANNEL_LAST_MESSAGE", "_channel_last_message", None),
}


def message_registry(repo: Repo) -> dict[int, tuple[str, FuncInfo]]:
    ci = repo.cls("Message")
    out: dict[int, tuple[str, FuncInfo]] = {}
    for key, val, st in repo.registry("Message", "_types"):
        if not isinstance(key, int):
            raise AnalysisError(f"Message._types key does not fold to an int (line {st.lineno})")
        # a row is a (name, handler) pair: a tuple display or a 2-field record constructor (NamedTuple row)
        elts = None
        if isinstance(val, ast.Tuple) and len(val.elts) == 2:
            elts = list(val.elts)
        elif isinstance(val, ast.Call) and len(val.args) == 2 and not val.keywords:
            elts = list(val.args)
        elif isinstance(val, ast.Call) and not val.args and {k.arg for k in val.keywords} == {"name", "handler"}:
            elts = [next(k.value for k in val.keywords if k.arg == "name"), next(k.value for k in val.keywords if k.arg == "handler")]
        if elts is None or not isinstance(elts[1], ast.Name):
            raise AnalysisError(f"Message._types value is not (name, handler) (line {st.lineno})")
        h = ci.methods.get(elts[1].id)
        if h is None:
            raise AnalysisError(f"handler {elts[1].id} is not defined in Message")
        if key in out:
            raise AnalysisError(f"message code {key} registered twice")
        out[key] = (repo.fold(elts[0], ci.module, ci), h)
    return out


def send_sites(repo: Repo) -> list[tuple[FuncInfo, ast.Call, object, ast.AST | None]]:
    """(function, call, folded message code, payload expr) for every call of BaseGateway._send"""
    out = []
    for fi in repo.scan_funcs():
        for c in repo.calls_in(fi):
            if any(t.qualname == f"{GB}.BaseGateway._send" for t in repo.resolve_call(c, fi)):
                code = repo.fold_in(c.args[0], fi) if c.args else UNKNOWN
                if code is UNKNOWN and c.args and isinstance(c.args[0], (ast.Name, ast.IfExp)):
                    # msgcode chosen by a preceding if/else or a conditional expression (Channel.__del__)
                    vals = set()
                    exprs = [c.args[0]] if isinstance(c.args[0], ast.IfExp) else [n.value for n in repo.own_nodes(fi)
                                                                                 if isinstance(n, ast.Assign) and unparse(n.targets[0]) == c.args[0].id]
                    for e in exprs:
                        for b in ([e.body, e.orelse] if isinstance(e, ast.IfExp) else [e]):
                            vals.add(repo.fold_in(b, fi))
                    code = tuple(sorted(vals, key=repr)) if vals and UNKNOWN not in vals else UNKNOWN
                out.append((fi, c, code, arg(c, 2, "data")))
    return out


def receiver_context(repo: Repo) -> set[str]:
    """functions reachable from the receiver thread (dispatch through the message registry included)"""
    reg = message_registry(repo)
    g = repo.callgraph()
    roots = [f"{GB}.BaseGateway._thread_receiver"]
    seen: set[str] = set()
    work = list(roots)
    while work:
        q = work.pop()
        if q in seen:
            continue
        seen.add(q)
        if q == f"{GB}.Message.received":
            work.extend(h.qualname for (_n, h) in reg.values())
        # executetask runs in the exec pool, not in the receiver thread
        for c in g.get(q, ()):
            if c.endswith("WorkerGateway.executetask") or c.endswith("._perform_spawn"):
                continue
            work.append(c)
    return seen


def _xt(repo: Repo, fi: FuncInfo, e: ast.AST) -> str:
    from ..util import xtext
    return xtext(repo, fi, e)


def entry_calls(repo: Repo, fi: FuncInfo) -> list[tuple[ast.Call, str, str]]:
    """calls of a registered user callback in fi: (call, origin, what is passed).  A registry entry is the
    (callback, endmarker, strconfig) tuple kept in `_callbacks`; the callback is its element 0 -- reached by
    destructuring (`cb, em, sc = entry`) or by index (`entry[0](x)`; NamedTuple field reads are desugared to that).
    `what` is 'endmarker' when the argument is element 1 of the same entry (or the endmarker parameter), else 'item'."""
    out = []
    bound: dict[str, tuple[str, int]] = {}
    params = fi.params()
    for n in repo.own_nodes(fi):
        if isinstance(n, ast.Assign) and isinstance(n.targets[0], ast.Tuple):
            src = _xt(repo, fi, n.value)
            if "_callbacks" in src:
                for i, e in enumerate(n.targets[0].elts):
                    if isinstance(e, ast.Name):
                        bound[e.id] = (src, i)

    # element reads into a local (`cb = entry[0]`, also the bindings a `match` on the entry is lowered to): every
    # assignment of the name must read the same element of a registry entry
    elem: dict[str, set] = {}
    for n in repo.own_nodes(fi):
        if isinstance(n, ast.Assign) and len(n.targets) == 1 and isinstance(n.targets[0], ast.Name):
            v = n.value
            if isinstance(v, ast.Subscript) and isinstance(v.slice, ast.Constant) and isinstance(v.slice.value, int) and "_callbacks" in _xt(repo, fi, v.value):
                elem.setdefault(n.targets[0].id, set()).add((_xt(repo, fi, v.value), v.slice.value))
            else:
                elem.setdefault(n.targets[0].id, set()).add(None)
    for k, vs in elem.items():
        if len(vs) == 1 and None not in vs and k not in bound:
            bound[k] = next(iter(vs))

    def entry_pos(e: ast.AST) -> tuple[str, int] | None:
        if isinstance(e, ast.Name) and e.id in bound:
            return bound[e.id]
        if isinstance(e, ast.Subscript) and isinstance(e.slice, ast.Constant) and isinstance(e.slice.value, int):
            base = _xt(repo, fi, e.value)
            if "_callbacks" in base:
                return (base, e.slice.value)
        if isinstance(e, ast.Name):
            al = repo.local_alias(e.id, fi)
            if al is not None and not isinstance(al, ast.Constant) and not isinstance(al, ast.Name):
                return entry_pos(al)
        return None

    for c in repo.calls_in(fi):
        origin = None
        if isinstance(c.func, ast.Name) and c.func.id == "callback" and "callback" in params:
            origin, base = "parameter", None
        else:
            ep = entry_pos(c.func)
            if ep is not None and ep[1] == 0:
                origin, base = "_callbacks entry", ep[0]
        if origin is None:
            continue
        what = "item"
        if c.args:
            ap = entry_pos(c.args[0])
            if (ap is not None and ap[1] == 1 and (base is None or ap[0] == base)) or (isinstance(c.args[0], ast.Name) and c.args[0].id == "endmarker" and "endmarker" in params):
                what = "endmarker"
        out.append((c, origin, what))
    return out


def callback_invocations(repo: Repo) -> list[tuple[FuncInfo, ast.Call, str]]:
    """calls of a user-supplied channel callback: (function, call, origin)"""
    out = []
    for fi in repo.scan_funcs():
        if fi.module.name != GB:
            continue
        for (c, origin, _what) in entry_calls(repo, fi):
            out.append((fi, c, origin))
    return out


def in_exception_handler_scope(repo: Repo, fi: FuncInfo, node: ast.AST, classes=("Exception", "BaseException")) -> bool:
    """node sits in the body of a try whose handlers catch Exception (and do not re-raise)"""
    child = node
    for anc in repo.ancestors(node):
        if anc is fi.node:
            break
        if isinstance(anc, ast.Try) and any(child is s or _contains(s, child) for s in anc.body):
            for h in anc.handlers:
                t = unparse(h.type) if h.type is not None else "BaseException"
                if t in classes and not any(isinstance(x, ast.Raise) and x.exc is None for x in ast.walk(h)):
                    return True
        child = anc
    return False


def _contains(tree: ast.AST, node: ast.AST) -> bool:
    return any(x is node for x in ast.walk(tree))


def close_effects(repo: Repo, fi: FuncInfo, force: tuple[str, ...] = (f"{GB}.ChannelFactory._local_close",)) -> list[dict]:
    """What a function does to a channel's receiving side, read off the value-term event trace of its normal form with
    the close transition inlined (`force`; helpers that are not in the census are inlined anyway): one summary per
    path that releases the waiters (`<chan>._receiveclosed.set()`), whatever functions the steps live in.

      id          the term the channel was looked up with (`self._channels.get(<id>)`)
      closed      `<chan>._closed = True` is stored on the path
      unregistered `_no_longer_opened(<id>)` is called
      endmarker   ENDMARKER is put on `<chan>._items` (None when the path established that there is no queue)
      error       the value appended to `<chan>._remoteerrors` (or None)
      order_ok    nothing of the above happens after the waiters were released
    """
    from ..terms import NONE, evaluator, tv
    try:
        mf = repo.merged(fi.qualname, [q for q in force if q != fi.qualname and repo.has_func(q)])
    except Exception:
        mf = fi
    ev = evaluator(repo, mf)
    heads = {n.id for n in ev.cfg.nodes if n.kind in ("test", "for") and isinstance(n.owner, (ast.While, ast.For))}
    out = []
    for (pth, st) in ev.run(back_stops=heads, limit=40000):
        sets = [e for e in st.events if e.kind == "call" and e.attr == "set" and e.recv is not None and e.recv[0] == "attr" and e.recv[2] == "_receiveclosed"]
        for s_ in sets:
            chan = s_.recv[1]
            look = [e for e in st.events if e.kind == "call" and e.result == chan and e.attr in ("get", "pop")]
            idt = look[0].args[0] if look and look[0].args else None
            known = dict(st.cond)
            k = st.events.index(s_)
            before, after = st.events[:k], st.events[k + 1:]
            closed = any(e.kind == "assign" and str(e.target).endswith("._closed") and e.value == ("const", True) for e in before + after)
            unreg = any(e.kind == "call" and (e.attr == "_no_longer_opened" or str(e.callee or "").endswith("_no_longer_opened")) and e.args[:1] == ((idt,) if idt is not None else e.args[:1])
                        for e in before + after)
            noq = tv(("cmp", "is", ("attr", chan, "_items"), NONE), known) is True
            put = any(e.kind == "call" and e.attr == "put" and e.recv == ("attr", chan, "_items") and e.args[:1] == (("sym", "ENDMARKER"),) for e in before)
            err = [e.args[0] for e in before if e.kind == "call" and e.attr == "append" and e.recv == ("attr", chan, "_remoteerrors") and e.args]
            late = [e for e in after if (e.kind == "assign" and str(e.target).endswith("._closed")) or
                    (e.kind == "call" and (e.attr in ("put", "_no_longer_opened") or str(e.callee or "").endswith("_no_longer_opened")))]
            out.append({"id": idt, "chan": chan, "closed": closed, "unregistered": unreg, "endmarker": None if noq else put, "error": err[-1] if err else None,
                        "order_ok": not late, "node": s_.node, "state": st, "path": pth, "cfg": ev.cfg})
    return out
