"""C16 Every transport is observationally equivalent for channel programs (thin)."""

from __future__ import annotations

import ast

from ..cfg import Oracle, build_cfg
from ..index import AnalysisError, UNKNOWN, norm, unparse
from ..report import Ctx
from ..util import Facts, callee_attr, calls_in_node, cfg_nodes_with_call
from .C19 import check_stream_reassembly

IO_METHODS = {"read": 1, "write": 1, "close_read": 0, "close_write": 0, "wait": 0, "kill": 0}
#: control code -> (operation on the sub io, reply)
CONTROL = {"RIO_WAIT": ("wait", "result"), "RIO_KILL": ("kill", "None"), "RIO_REMOTEADDRESS": ("remoteaddress", "result"), "RIO_CLOSE_WRITE": ("close_write", "None")}


def check(ctx: Ctx) -> None:
    repo = ctx.repo
    ctx.decides = ("the control codes ProxyIO sends are exactly those the forwarder's dispatcher handles, each arm performs the matching operation on "
                   "the proxied process' io and sends exactly one reply; every transport defines the six IO methods with compatible arity; the "
                   "forwarder re-emits frames unmodified (C08.e); the proxy's byte stream is re-assembled without loss/reordering (C19.a-c); "
                   "all transports signal a short read as EOFError with a message (C04.i).")
    ctx.not_decided = "equivalence of transcripts of generated channel programs (that is a differential run, not a static fact)."
    gio = repo.module("gateway_io")
    fc = repo.func("gateway_io.serve_proxy_io.control")

    with ctx.obligation("C16.a", "control-codes") as ob:
        sent = {}
        for m in repo.cls("ProxyIO").methods.values():
            for c in repo.calls_in(m):
                if callee_attr(c) == "_controll" and c.args:
                    name = unparse(c.args[0])
                    sent[name] = (m, c)
        vals = {k: gio.consts.get(k) for k in sent}
        ob.site(gio, None, "codes sent by ProxyIO", codes=vals)
        if len(set(vals.values())) != len(vals) or any(v is None for v in vals.values()):
            ob.violation(gio, None, f"control codes are not distinct constants: {vals}", construct=f"codes {vals}")
        if set(sent) != set(CONTROL):
            ob.violation(gio, repo.cls("ProxyIO").node, f"ProxyIO sends {sorted(sent)}, expected {sorted(CONTROL)}", construct=f"sent {sorted(sent)}")
        want_sender = {"RIO_WAIT": "wait", "RIO_KILL": "kill", "RIO_REMOTEADDRESS": "remoteaddress", "RIO_CLOSE_WRITE": "close_write"}
        for code, (m, c) in sent.items():
            if want_sender.get(code) != m.name:
                ob.violation(m, c, f"ProxyIO.{m.name} sends {code}: the wrong operation is requested from the forwarder")
        cfg = build_cfg(repo, fc, Oracle(repo, fc, precise=True))
        p = [x for x in fc.params()][0]
        handled = {}
        for t in cfg.nodes:
            if t.kind == "test" and isinstance(t.ast, ast.Compare) and unparse(t.ast.left) == p and isinstance(t.ast.ops[0], ast.Eq):
                handled[unparse(t.ast.comparators[0])] = t
        ob.site(fc, fc.node, "codes handled by the dispatcher", codes=sorted(handled))
        for code in sent:
            if code not in handled:
                ob.violation(fc, fc.node, f"{code} is sent by ProxyIO but not handled by the forwarder: the requester blocks forever on the reply", construct=f"unhandled {code}")
        for code, t in handled.items():
            if code not in CONTROL:
                ob.violation(fc, t.ast, f"the dispatcher handles unknown code {code}")
                continue
            op, reply = CONTROL[code]
            # the arm = nodes reachable from the true edge before rejoining the exit
            arm_start = [m for (m, l) in cfg.succ[t.id] if l == "true"]
            other = cfg.reach([m for (m, l) in cfg.succ[t.id] if l == "false"])
            arm = cfg.reach(arm_start) - other - {cfg.exit.id, cfg.raise_exit.id}
            ops, sends = [], []
            for nid in arm:
                nd = cfg.nodes[nid]
                if nd.ast is None:
                    continue
                for c in calls_in_node(nd):
                    if callee_attr(c) == "send" and unparse(c.func.value) == "control_chan":
                        sends.append(c)
                for x in ast.walk(nd.ast):
                    if isinstance(x, ast.Attribute) and unparse(x.value) == "sub_io":
                        ops.append(x.attr)
            ok = ops == [op] and len(sends) == 1
            if ok:
                a = sends[0].args[0]
                ok = (reply == "None" and isinstance(a, ast.Constant) and a.value is None) or (reply == "result" and f"sub_io.{op}" in unparse(a))
            ob.site(fc, t.ast, f"{code}: sub_io.{op} and exactly one reply ({reply})", ops=ops, replies=len(sends))
            if not ok:
                ob.violation(fc, t.ast, f"the {code} arm does not perform sub_io.{op} and send exactly one reply ({reply}): the requester would block, or act on the wrong result")
        # the dispatcher is registered on the control channel; requester sends then waits for one reply
        fsp = repo.func("gateway_io.serve_proxy_io")
        reg = [c for c in repo.calls_in(fsp) if callee_attr(c) == "setcallback" and unparse(c.func.value) == "control_chan" and unparse(c.args[0]) == "control"]
        if len(reg) != 1:
            ob.violation(fsp, fsp.node, "the control dispatcher is not registered on the control channel")
        fcl = repo.func("gateway_io.ProxyIO._controll")
        names = [callee_attr(c) for c in repo.calls_in(fcl)]
        if names != ["send", "receive"]:
            ob.violation(fcl, fcl.node, "_controll is not `send(event); return receive()`")
        # the control channel travels over the proxy channel first
        pi = repo.func("gateway_io.ProxyIO.__init__")
        s1 = [c for c in repo.calls_in(pi) if callee_attr(c) == "send" and unparse(c.args[0]) == "self.controlchan"]
        if len(s1) != 1:
            ob.violation(pi, pi.node, "ProxyIO does not hand its control channel to the forwarder")

    with ctx.obligation("C16.b", "io-interface", nontrivial=False) as ob:
        impl = repo.io_implementors("IO")
        ob.require(set(impl) >= {"Popen2IO", "Popen2IOMaster", "SocketIO", "ProxyIO"}, f"IO implementors {impl}")
        for cname in ("Popen2IOMaster", "SocketIO", "ProxyIO"):
            ci = repo.cls(cname)
            for meth, nargs in IO_METHODS.items():
                m = repo.lookup_method(ci, meth)
                ob.site(m if m is not None else ci.module, None, f"{cname}.{meth}/{nargs}")
                if m is None:
                    ob.violation(ci.module, ci.node, f"transport {cname} lacks IO method {meth}", construct=f"{cname}.{meth} missing")
                elif len([a for a in m.node.args.args if a.arg != "self"]) != nargs:
                    ob.violation(m, m.node, f"{cname}.{meth} takes {len(m.node.args.args) - 1} arguments, the IO protocol says {nargs}")
            if not any(isinstance(n, ast.Attribute) and n.attr == "execmodel" and isinstance(n.ctx, ast.Store) for mm in [repo.lookup_method(ci, "__init__")] if mm for n in ast.walk(mm.node)) \
                    and cname != "Popen2IOMaster":
                ob.violation(ci.module, ci.node, f"{cname} does not carry the execmodel attribute of the IO protocol")
        ob.note("recorded, not flagged: ProxyIO.close_read raises NotImplementedError by design")

    # C16.c forwarding identity: decided by C08.e -- re-evaluated here on the same sites
    with ctx.obligation("C16.c", "forwarding-identity") as ob:
        from .C08 import check as _c08  # noqa: F401  (same module provides the logic below)
        fsp = repo.func("gateway_io.serve_proxy_io")
        ffs = repo.func("gateway_io.serve_proxy_io.forward_to_sub")
        ws = [c for c in repo.calls_in(ffs) if callee_attr(c) == "write"]
        ob.site(ffs, ws[0] if ws else ffs.node, "master->sub: bytes written unmodified")
        if len(ws) != 1 or unparse(ws[0].args[0]) != ffs.params()[0] or unparse(ws[0].func.value) != "sub_io":
            ob.violation(ffs, ffs.node, "forward_to_sub does not write exactly the received bytes to the sub process")
        frm = [c for c in repo.calls_in(fsp) if unparse(c.func) == "Message.from_io"]
        tio = [c for c in repo.calls_in(fsp) if callee_attr(c) == "to_io"]
        ob.require(len(frm) == 1 and len(tio) == 1, "forwarder loop anchors not found")
        var = unparse(repo.parent(frm[0]).targets[0]) if isinstance(repo.parent(frm[0]), ast.Assign) else None
        ob.site(fsp, tio[0], "sub->master: the very Message read is re-emitted")
        if var is None or unparse(tio[0].func.value) != var:
            ob.violation(fsp, tio[0], "the forwarder does not re-emit the message object it read from the sub")
        # EOF of the sub ends the loop (and only EOF)
        lp = [x for x in repo.own_nodes(fsp) if isinstance(x, ast.While)]
        hs = [h for x in repo.own_nodes(fsp) if isinstance(x, ast.Try) for h in x.handlers]
        if len(lp) != 1 or not any(unparse(h.type) == "EOFError" and any(isinstance(y, ast.Break) for y in h.body) for h in hs if h.type is not None):
            ob.violation(fsp, fsp.node, "the forwarding loop does not end exactly on EOF of the sub")
        # the bootstrap byte of the sub is forwarded before the loop
        init = [c for c in repo.calls_in(fsp) if callee_attr(c) == "read" and unparse(c.func.value) == "sub_io"]
        fw = [c for c in repo.calls_in(fsp) if callee_attr(c) == "write" and unparse(c.func.value) == "forward_to_master_file"]
        if len(init) != 1 or len(fw) != 1 or unparse(fw[0].args[0]) != unparse(repo.parent(init[0]).targets[0]):
            ob.violation(fsp, fsp.node, "the sub's bootstrap byte is not forwarded unmodified to the master")

    check_stream_reassembly(ctx, "C16.d")

    with ctx.obligation("C16.f", "exact-read-per-transport") as ob:
        from .C08 import check_exact_read
        for cname in ("Popen2IO", "SocketIO"):
            check_exact_read(repo, ob, repo.cls(cname).methods["read"])

    with ctx.obligation("C16.e", "eof-identity") as ob:
        from ._chan import GB
        f_from = repo.func(f"{GB}.Message.from_io")
        need = max([repo.fold_in(n.slice, f_from) for n in repo.own_nodes(f_from) if isinstance(n, ast.Subscript) and isinstance(n.value, ast.Attribute) and n.value.attr == "args"
                    and isinstance(repo.fold_in(n.slice, f_from), int)] or [-1])
        for cname in ("Popen2IO", "SocketIO"):
            m = repo.cls(cname).methods.get("read")
            ob.require(m is not None, f"{cname}.read vanished")
            rs = [n for n in repo.own_nodes(m) if isinstance(n, ast.Raise) and n.exc is not None and unparse(n.exc).split("(")[0] == "EOFError"]
            for r in rs:
                nargs = len(r.exc.args) if isinstance(r.exc, ast.Call) else 0
                ob.site(m, r, f"{cname}: short read -> EOFError with {nargs} argument(s)")
                if nargs <= need:
                    ob.violation(m, r, f"{cname}.read raises a bare EOFError while Message.from_io reads e.args[{need}]: on this transport a lost connection surfaces differently "
                                       "(IndexError in the receiver, waitclose() returns normally) than on the others")
            if not rs:
                ob.violation(m, m.node, f"{cname}.read never raises EOFError")
