"""C16 Every transport is observationally equivalent for channel programs (thin)."""

from __future__ import annotations

import ast

from ..cfg import Oracle, build_cfg
from ..index import AnalysisError, UNKNOWN, norm, unparse
from ..report import Ctx
from ..terms import evaluator, show
from ..util import Facts, callee_attr, calls_in_node, cfg_nodes_with_call
from .C19 import check_stream_reassembly

IO_METHODS = {"read": 1, "write": 1, "close_read": 0, "close_write": 0, "wait": 0, "kill": 0}
#: control code -> (operation on the sub io, reply)
# the request a ProxyIO method sends must make the forwarder perform that very operation on the sub io: (operation, reply)
CONTROL = {"wait": ("wait", "result"), "kill": ("kill", "None"), "remoteaddress": ("remoteaddress", "result"), "close_write": ("close_write", "None")}


def check_socket_blocking(ctx: Ctx, oid: str) -> None:
    """the socket handed to SocketIO is a blocking one: exact reads/writes of the framing layer and the receiver thread's idle
    wait assume that recv()/sendall() never time out (shared: C16.k, C02.p, C08.g)"""
    with ctx.obligation(oid, "socket-blocking") as ob:
        # a pipe blocks until data arrives, however long the pause: the socket the transport reads from must not carry a timeout
        # (a connect timeout set on it has to be reset before the gateway uses it)
        from ..terms import NONE as _Nk, evaluator as _evk
        fcio = ctx.repo.func("gateway_socket.create_io")
        nret = 0
        for (pth, st_) in _evk(ctx.repo, fcio).run(limit=4000):
            if pth[-1][0] != _evk(ctx.repo, fcio).cfg.exit.id and st_.ret is None:
                continue
            if st_.ret is None:
                continue
            nret += 1
            tos = [e for e in st_.events if e.kind == "call" and e.attr in ("settimeout", "setblocking") and e.args]
            if tos:
                last = tos[-1]
                blocking = (last.attr == "settimeout" and last.args[0] == _Nk) or (last.attr == "setblocking" and last.args[0] == ("const", True))
                if not blocking:
                    ob.violation(fcio, last.node, "the socket given to SocketIO keeps a timeout: after that long without traffic recv() raises in the receiver thread and the "
                                                  "gateway is torn down, where a pipe transport just waits", construct="socket timeout stays set")
        ob.site(fcio, fcio.node, "create_io returns a SocketIO on a socket without timeout", returning_paths=nret)
        ob.require(nret >= 1, "gateway_socket.create_io: no returning path")


def check_socket_halfclose(ctx: Ctx, oid: str) -> None:
    """SocketIO.close_read / close_write shut down exactly their own direction (socket.SHUT_RD = 0 / SHUT_WR = 1): Gateway.exit()
    closes only the writing side and keeps reading what the worker still sends -- as a pipe transport does (shared: C16.i, C02.n)"""
    repo = ctx.repo
    import socket as _socket
    with ctx.obligation(oid, "socket-halfclose") as ob:
        want = {"close_read": _socket.SHUT_RD, "close_write": _socket.SHUT_WR}
        ci = repo.cls("SocketIO")
        for mname, direction in want.items():
            m = ci.methods.get(mname)
            ob.require(m is not None, f"SocketIO.{mname} vanished")
            m = repo.func(m.qualname)
            sh = [c for c in repo.calls_in(m) if callee_attr(c) == "shutdown"]
            vals = []
            for c in sh:
                v = repo.fold_in(c.args[0], m) if c.args else UNKNOWN
                if v is UNKNOWN and c.args and unparse(c.args[0]).split(".")[-1] in ("SHUT_RD", "SHUT_WR", "SHUT_RDWR"):
                    v = getattr(_socket, unparse(c.args[0]).split(".")[-1])
                vals.append(v)
            ob.site(m, sh[0] if sh else m.node, f"SocketIO.{mname} -> sock.shutdown({direction})", values=[repr(v) for v in vals])
            if vals != [direction]:
                ob.violation(m, sh[0] if sh else m.node, f"SocketIO.{mname} does not shut down exactly its own direction (expected shutdown({direction}), found {vals}): after "
                                                         "Gateway.exit() the initiator stops reading (or keeps writing) on a socket gateway, unlike on the other transports",
                             construct=f"{mname}: shutdown{tuple(vals)}")


def check(ctx: Ctx) -> None:
    repo = ctx.repo
    ctx.decides = ("the control codes ProxyIO sends are exactly those the forwarder's dispatcher handles, each arm performs the matching operation on "
                   "the proxied process' io and sends exactly one reply; every transport defines the six IO methods with compatible arity; the "
                   "forwarder re-emits frames unmodified (C08.e); the proxy's byte stream is re-assembled without loss/reordering (C19.a-c); "
                   "all transports signal a short read as EOFError with a message (C04.i).")
    ctx.not_decided = "equivalence of transcripts of generated channel programs (that is a differential run, not a static fact)."
    gio = repo.module("gateway_io")
    from .C08 import proxy_callbacks
    _cbs = proxy_callbacks(repo)
    if "control" not in _cbs:
        raise AnalysisError("serve_proxy_io: no callback is registered on the control channel")
    fc, SUBN, CTLN, _creg = _cbs["control"]
    SUBP = tuple(n + "." for n in sorted(SUBN))

    with ctx.obligation("C16.a", "control-codes") as ob:
        # codes are identified by their *value* and by the ProxyIO method that sends them (their names, literal / named /
        # enum spelling are irrelevant): sent[role] = (method, call, value)
        sent = {}
        fctl = repo.func("gateway_io.ProxyIO._controll")
        evp = [p_ for p_ in fctl.params() if p_ != "self"][0]
        for m0 in repo.cls("ProxyIO").methods.values():
            m = repo.func(m0.qualname)
            for c in repo.calls_in(m):
                if callee_attr(c) == "_controll" and c.args:
                    v = repo.fold_in(c.args[0], m)
                    sent[m.name] = (m, c, None if v is UNKNOWN else v)
        vals = {k: v for k, (_m, _c, v) in sent.items()}
        ob.site(gio, None, "codes sent by ProxyIO", codes=vals)
        if len(set(vals.values())) != len(vals) or any(v is None for v in vals.values()):
            ob.violation(gio, None, f"control codes are not distinct constants: {vals}", construct=f"codes {vals}")
        if set(sent) != set(CONTROL):
            ob.violation(gio, repo.cls("ProxyIO").node, f"ProxyIO sends requests from {sorted(sent)}, expected {sorted(CONTROL)}", construct=f"sent {sorted(sent)}")
        # _controll puts exactly the code it was given on the control channel
        evctl = evaluator(repo, fctl)
        for _pp, st_c in evctl.run(limit=2000):
            snd = [e for e in st_c.events if e.kind == "call" and e.attr == "send"]
            if len(snd) != 1 or snd[0].args[:1] not in ((("sym", evp),), (("pcall", "int", (("sym", evp),), ()),)):
                ob.violation(fctl, fctl.node, "_controll does not send exactly the request code it was given")
        byval = {v: role for role, v in vals.items() if v is not None}
        p = [x for x in fc.params() if x != "self"][0]
        DATA = ("sym", p)
        evc = evaluator(repo, fc)
        arms: dict[str, list] = {}

        def arm_of(events, reply, where, node):
            ops = [e.callee.rsplit(".", 1)[1] for e in events if e.kind == "call" and e.callee and e.callee.startswith(SUBP)]
            if reply is not None and reply[0] == "sym" and reply[1].startswith(SUBP):
                ops.append(reply[1].rsplit(".", 1)[1])
            return (ops, reply, [e for e in events if e.kind == "call" and e.callee and e.callee.startswith(SUBP)], where, node)

        for path, st in evc.run(limit=4000):
            if path[-1][0] != evc.cfg.exit.id:
                continue
            sends = [e for e in st.events if e.kind == "call" and e.callee in {n + ".send" for n in CTLN}]
            eqs = [t[3][1] for (t, v) in st.cond if v is True and t[0] == "cmp" and t[1] == "eq" and t[2] == DATA and t[3][0] == "const"]
            eqs += [t[2][1] for (t, v) in st.cond if v is True and t[0] == "cmp" and t[1] == "eq" and t[3] == DATA and t[2][0] == "const"]
            if eqs:
                code = byval.get(eqs[-1], repr(eqs[-1]))
                reply = sends[0].args[0] if len(sends) == 1 and sends[0].args else None
                arms.setdefault(code, []).append(arm_of(st.events, reply, fc, sends[0].node if sends else fc.node) + (len(sends),))
                continue
            for snd in sends:
                a = snd.args[0] if snd.args else None
                mk = [e for e in st.events if e.kind == "call" and e.result == a] if a is not None else []
                if mk and mk[0].recv is not None and mk[0].recv[0] in ("dictget", "idx") and mk[0].recv[1][0] == "dict" and mk[0].recv[2] == DATA:
                    for (k, f) in mk[0].recv[1][1:]:
                        code = byval.get(k[1], repr(k[1])) if k[0] == "const" else show(k)
                        fn = repo.func(f"{fc.parent.qualname}.{f[1]}") if f[0] == "func" and repo.has_func(f"{fc.parent.qualname}.{f[1]}") else None
                        if fn is None:
                            ob.violation(fc, snd.node, f"the handler of {code} does not resolve to a local function")
                            continue
                        evh = evaluator(repo, fn)
                        for hp, hst in evh.run(limit=2000):
                            if hp[-1][0] == evh.cfg.exit.id:
                                arms.setdefault(code, []).append(arm_of(hst.events, hst.ret if hst.ret is not None else ("const", None), fn, fn.node) + (len(sends),))
        handled = set(arms)
        ob.site(fc, fc.node, "codes handled by the dispatcher", codes=sorted(handled))
        for code in sent:
            if code not in handled:
                ob.violation(fc, fc.node, f"{code} is sent by ProxyIO but not handled by the forwarder: the requester blocks forever on the reply", construct=f"unhandled {code}")
        for code, lst in sorted(arms.items()):
            if code not in CONTROL:
                ob.violation(fc, fc.node, f"the dispatcher handles unknown code {code}")
                continue
            op, reply = CONTROL[code]
            for (ops, rep, calls, where, node, nsends) in lst:
                ok = ops == [op] and nsends == 1 and rep is not None
                if ok and reply == "None":
                    ok = rep == ("const", None)
                elif ok:
                    ok = (rep[0] == "sym" and rep[1] in {f"{n}.{op}" for n in SUBN}) or (rep[0] == "fresh" and calls and calls[0].result == rep)
                ob.site(where, node, f"{code}: sub_io.{op} and exactly one reply ({reply})", ops=ops, replies=nsends)
                if not ok:
                    ob.violation(where, node, f"the {code} arm does not perform sub_io.{op} and send exactly one reply ({reply}): the requester would block, or act on the wrong result")
        # the dispatcher is registered on the control channel; requester sends then waits for one reply
        fsp = repo.func("gateway_io.serve_proxy_io")
        reg = [_creg]
        if len(reg) != 1:
            ob.violation(fsp, fsp.node, "the control dispatcher is not registered on the control channel")
        fcl = repo.func("gateway_io.ProxyIO._controll")
        names = [callee_attr(c) for c in repo.calls_in(fcl)]
        if names != ["send", "receive"]:
            ob.violation(fcl, fcl.node, "_controll is not `send(event); return receive()`")
        # the control channel travels over the proxy channel first
        pi = repo.func("gateway_io.ProxyIO.__init__")
        # (on value terms: the channel sent over the proxy channel is the one kept as self.controlchan, whatever local carries it)
        from ..terms import evaluator as _evpi
        okc = False
        for (_pp, stp) in _evpi(repo, pi).run(limit=2000):
            kept = [e.value for e in stp.events if e.kind == "assign" and e.target == "self.controlchan"]
            sent = [e.args[0] for e in stp.events if e.kind == "call" and e.attr == "send" and e.args]
            okc = bool(kept) and len(sent) == 1 and sent[0] in (kept[-1], ("sym", "self.controlchan"))
        if not okc:
            ob.violation(pi, pi.node, "ProxyIO does not hand its control channel to the forwarder")

    with ctx.obligation("C16.b", "io-interface", nontrivial=False) as ob:
        impl = repo.io_implementors("IO")
        ob.require(set(impl) >= {"Popen2IO", "Popen2IOMaster", "SocketIO", "ProxyIO"}, f"IO implementors {impl}")
        for cname in ("Popen2IOMaster", "SocketIO", "ProxyIO"):
            ci = repo.cls(cname)
            for meth, nargs in IO_METHODS.items():
                m = repo.lookup_method(ci, meth)
                ob.site(m if m is not None else ci.module, None, f"{cname}.{meth}/{nargs}")
                if m is None:
                    ob.violation(ci.module, ci.node, f"transport {cname} lacks IO method {meth}", construct=f"{cname}.{meth} missing")
                elif len([a for a in m.node.args.args if a.arg != "self"]) != nargs:
                    ob.violation(m, m.node, f"{cname}.{meth} takes {len(m.node.args.args) - 1} arguments, the IO protocol says {nargs}")
            if not any(isinstance(n, ast.Attribute) and n.attr == "execmodel" and isinstance(n.ctx, ast.Store) for mm in [repo.lookup_method(ci, "__init__")] if mm for n in ast.walk(mm.node)) \
                    and cname != "Popen2IOMaster":
                ob.violation(ci.module, ci.node, f"{cname} does not carry the execmodel attribute of the IO protocol")
        ob.note("recorded, not flagged: ProxyIO.close_read raises NotImplementedError by design")

    # C16.c forwarding identity: decided by C08.e -- re-evaluated here on the same sites
    with ctx.obligation("C16.c", "forwarding-identity") as ob:
        from .C08 import check as _c08  # noqa: F401  (same module provides the logic below)
        fsp = repo.func("gateway_io.serve_proxy_io")
        from .C08 import check_forward_to_sub
        check_forward_to_sub(ob, repo)
        from .C08 import check_forwarder_loop
        check_forwarder_loop(ob, repo)

    check_stream_reassembly(ctx, "C16.d")

    with ctx.obligation("C16.f", "exact-read-per-transport") as ob:
        from .C08 import check_exact_read
        for cname in ("Popen2IO", "SocketIO"):
            check_exact_read(repo, ob, repo.cls(cname).methods["read"])

    with ctx.obligation("C16.e", "eof-identity") as ob:
        from ._chan import GB
        f_from = repo.func(f"{GB}.Message.from_io")
        need = max([repo.fold_in(n.slice, f_from) for n in repo.own_nodes(f_from) if isinstance(n, ast.Subscript) and isinstance(n.value, ast.Attribute) and n.value.attr == "args"
                    and isinstance(repo.fold_in(n.slice, f_from), int)] or [-1])
        for cname in ("Popen2IO", "SocketIO"):
            m = repo.cls(cname).methods.get("read")
            m = repo.flat(m) if m is not None else None
            ob.require(m is not None, f"{cname}.read vanished")
            rs = [n for n in repo.own_nodes(m) if isinstance(n, ast.Raise) and n.exc is not None and unparse(n.exc).split("(")[0] == "EOFError"]
            for r in rs:
                nargs = len(r.exc.args) if isinstance(r.exc, ast.Call) else 0
                ob.site(m, r, f"{cname}: short read -> EOFError with {nargs} argument(s)")
                if nargs <= need:
                    ob.violation(m, r, f"{cname}.read raises a bare EOFError while Message.from_io reads e.args[{need}]: on this transport a lost connection surfaces differently "
                                       "(IndexError in the receiver, waitclose() returns normally) than on the others")
            if not rs:
                ob.violation(m, m.node, f"{cname}.read never raises EOFError")
    # a transport whose write is not atomic w.r.t. concurrent senders garbles the stream under load (only on that transport)
    from .C08 import check_atomic_write
    check_atomic_write(ctx, "C16.g")
    # kill/wait of a hung worker must work through the proxy as it does locally (order of join and wait, kill on timeout)
    from .C05 import check_kill_on_timeout
    check_kill_on_timeout(ctx, "C16.h")
    check_socket_halfclose(ctx, "C16.i")
    check_socket_blocking(ctx, "C16.k")
    with ctx.obligation("C16.j", "empty-read-is-eof") as ob:
        # the proxied transport signals its end by an empty read, the others by raising: both must end in EOFError at the framing layer
        from .C08 import check_empty_header_eof
        check_empty_header_eof(ctx.repo, ob)

    # the proxied transport reports the end of the worker's stream when it happens, like a pipe does: once the forwarding loop of
    # serve_proxy_io has seen EOF from the sub, nothing may block before the function returns (returning is what closes the proxy
    # channel, i.e. what the initiator sees as EOF)
    with ctx.obligation("C16.l", "proxy-forwards-eof-at-once") as ob:
        fsp = ctx.repo.func("gateway_io.serve_proxy_io")
        cfgp = build_cfg(ctx.repo, fsp, Oracle(ctx.repo, fsp))
        reads = cfg_nodes_with_call(cfgp, lambda c: callee_attr(c) == "from_io")
        ob.require(len(reads) >= 1, "serve_proxy_io: Message.from_io call not found")
        # "after EOF": what is reachable from the EOFError handlers of the frame read, minus what can still reach the read (the loop)
        handlers = [n for n in cfgp.nodes if n.kind == "except" and n.id in cfgp.live() and n.ast.type is not None and "EOFError" in unparse(n.ast.type)]
        ob.require(len(handlers) >= 1, "serve_proxy_io: no EOFError handler around the frame read")

        def reach(starts):
            seen, work = set(), list(starts)
            while work:
                x = work.pop()
                if x in seen:
                    continue
                seen.add(x)
                work.extend(m for (m, _l) in cfgp.succ[x])
            return seen
        after = reach([h.id for h in handlers])
        readids = {r.id for r in reads}
        in_loop = {nid for nid in after if reach([nid]) & readids}
        BLOCKING = {"wait", "join", "waitclose", "receive", "get", "acquire", "sleep", "read", "readline", "waitall", "waitfinish", "communicate"}
        nafter = 0
        for nid in sorted(after - in_loop):
            node = cfgp.nodes[nid]
            if node.ast is None:
                continue
            nafter += 1
            for c in calls_in_node(node):
                if callee_attr(c) in BLOCKING and not any(k.arg == "timeout" for k in c.keywords):
                    ob.violation(fsp, c, f"after EOF from the sub serve_proxy_io blocks in `{norm(c)[:50]}` before it returns: the initiator does not see the end of a proxied "
                                         "gateway while the worker process lingers (a direct gateway reports EOF at once)", construct="blocking call after the forwarding loop")
        loops = [reads[0].ast]
        ob.site(fsp, loops[0], "nothing blocks between EOF from the sub and the return of serve_proxy_io", statements_after_loop=nafter)
    # the socket transport's IO class is shipped as class source only: everything it uses at run time must come with it
    from ..report import borrow
    borrow(ctx, "C15", {"C15.c": "C16.m"})
