"""C07 Remote failures surface as RemoteError on that channel only."""

from __future__ import annotations

import ast

from ..cfg import Oracle, build_cfg
from ..index import AnalysisError, UNKNOWN, norm, unparse
from ..report import Ctx
from ..terms import show
from ..util import Facts, arg, callee_attr, calls_in_node, cfg_nodes_with_call
from ._chan import GB, callback_invocations, in_exception_handler_scope, receiver_context

NONRAISING = {"_geterrortext", "geterrortext"}


def _is_remote_error_expr(repo, fi, e: ast.AST | None) -> bool | None:
    """True: RemoteError object; None: absent/None literal; False: anything else"""
    if e is None or (isinstance(e, ast.Constant) and e.value is None):
        return None
    if isinstance(e, ast.Call) and unparse(e.func).split(".")[-1] == "RemoteError":
        return True
    if isinstance(e, ast.Name):
        defs = [n.value for n in repo.own_nodes(fi) if isinstance(n, ast.Assign) and any(unparse(t) == e.id for t in n.targets)]
        kinds = [_is_remote_error_expr(repo, fi, d) for d in defs]
        if defs and all(k in (True, None) for k in kinds):
            return True if any(k is True for k in kinds) else None
        for a in fi.node.args.args:
            if a.arg == e.id and a.annotation is not None and "RemoteError" in unparse(a.annotation):
                return True
    return False


def check_callback_failure_closes(ctx: Ctx, oid: str) -> None:
    """ChannelFactory._local_receive: whenever the user callback raises, the failing side's own end is closed with the error --
    unconditionally (also when the channel object is already gone: the callback registration must still be dropped) and the peer
    is told (shared: C07.j, C18.i)"""
    repo = ctx.repo
    from ..terms import evaluator as _ev
    flr = repo.func(f"{GB}.ChannelFactory._local_receive")
    idp = [p_ for p_ in flr.params() if p_ != "self"][0]
    from ._chan import entry_calls as _entry_calls
    cb_nodes = {id(c) for (c, _o, _w) in _entry_calls(repo, flr)}
    is_cb = lambda c: id(c) in cb_nodes or (isinstance(c.func, ast.Name) and c.func.id == "callback")  # noqa: E731
    with ctx.obligation(oid, "callback-failure-closes") as ob:
        orc = Oracle(repo, flr, precise=True, call_raises=lambda c, f: [("Exception", True)] if is_cb(c) else None)
        ev = _ev(repo, flr, orc)
        nfail = 0
        ok = True
        for (pth, st) in ev.run(limit=20000):
            rz = [e for e in st.events if e.kind == "call" and e.raised and isinstance(e.node, ast.Call) and is_cb(e.node)]
            if not rz:
                continue
            nfail += 1
            after = st.events[st.events.index(rz[-1]):]
            closes = [e for e in after if e.kind == "call" and e.attr == "_local_close" and e.args[:1] == (("sym", idp),)]
            sends = [e for e in after if e.kind == "call" and e.attr == "_send"]
            if len(closes) != 1 or len(sends) != 1 or pth[-1][0] != ev.cfg.exit.id:
                ok = False
                ob.violation(flr, rz[-1].node, "a failing callback does not always close its own side (drop the callback registration) and tell the peer: a callback of an already "
                                               "dropped channel stays registered and keeps receiving items after it failed", path=ev.cfg.describe_path(pth),
                             construct=f"closes={len(closes)} sends={len(sends)}")
                break
        ob.site(flr, flr.node, "callback failure -> exactly one CHANNEL_CLOSE_ERROR and one _local_close(id, error) on every path", failing_paths=nfail, ok=ok)
        ob.require(nfail >= 1, "_local_receive: callback invocation not found")


def check_weak_lookup_guarded(ctx: Ctx, oid: str) -> None:
    """`self._channels.get(id)` is a weak lookup: the channel object may be gone.  In the factory's receiver-side methods every use
    of the looked-up object (attribute, method call) is reached only with the object established non-None -- an AttributeError
    there escapes into the receiver thread and takes the whole connection down (shared: C07.k, C02.p)"""
    repo = ctx.repo
    from ..terms import NONE as _N, evaluator as _ev, implies as _imp, subterms as _sub, tv as _tv
    with ctx.obligation(oid, "weak-lookup-guarded") as ob:
        nuse = 0
        for mname, m0 in sorted(repo.cls("ChannelFactory").methods.items()):
            m = repo.func(m0.qualname)
            is_cb = lambda c: False  # noqa: E731
            try:
                orc = Oracle(repo, m, precise=True, call_raises=lambda c, f: [("Exception", True)] if isinstance(c.func, ast.Name) and c.func.id == "callback" else None)
                paths = list(_ev(repo, m, orc).run(limit=20000))
            except AnalysisError:
                continue
            flagged = set()
            for (pth, st) in paths:
                looks = {e.result for e in st.events if e.kind == "call" and e.attr == "get" and e.recv is not None and e.recv[0] == "sym" and e.recv[1].endswith("._channels")
                         and e.result is not None}
                if not looks:
                    continue
                for e in st.events:
                    terms = [t for t in ([e.recv] + list(e.args or ()) + [e.value]) if isinstance(t, tuple)]
                    used = {x[1] for t in terms for x in _sub(t) if isinstance(x, tuple) and len(x) == 3 and x[0] == "attr" and x[1] in looks}
                    if e.kind == "call" and e.recv in looks and e.attr is not None and e.attr != "get":
                        used.add(e.recv)
                    for ch in used:
                        nuse += 1
                        cond = st.cond[:e.ncond]
                        ok = _tv(("cmp", "is", ch, _N), dict(cond)) is False
                        if not ok:
                            try:
                                ok = _imp(cond, ("not", ("cmp", "is", ch, _N))) is True
                            except Exception:
                                ok = False
                        if not ok and id(e.node) not in flagged:
                            flagged.add(id(e.node))
                            ob.violation(m, e.node, f"{m.short} uses the weakly looked-up channel object (`{str(e)[:60]}`) without having established that it still exists: for a "
                                                    "dropped channel this raises AttributeError in the receiver thread and every channel of the gateway dies with it",
                                         construct=f"{m.short}: unguarded use of _channels.get()")
            ob.site(m, m.node, f"{m.short}: uses of the looked-up channel are guarded", ok=not flagged)
        ob.require(nuse >= 3, f"{nuse} uses of weakly looked-up channels in ChannelFactory (floor 3)")


def check(ctx: Ctx) -> None:
    repo = ctx.repo
    ctx.decides = ("only RemoteError objects can reach Channel._remoteerrors / .warn(); a failing callback closes both sides with the error; "
                   "every exception of a remote body reaches close(errortext) and CHANNEL_CLOSE_ERROR; user callbacks in receiver context are "
                   "contained by `except Exception`; a stored error is raised only after the items and consumed by pop(0).")
    ctx.not_decided = "positions of failures in generated streams, interleavings with sibling channels."
    ctx.assume("A5")

    f_lclose = repo.func(f"{GB}.ChannelFactory._local_close")
    with ctx.obligation("C07.a", "error-type") as ob:
        sites = repo.callsites_flat(f_lclose.qualname)
        from ._chan import message_registry
        reg_ = message_registry(repo)
        need = {reg_[k][1].short for k in (5, 6, 7) if k in reg_} | {"ChannelFactory._local_receive", "ChannelFactory._finished_receiving"}
        have_callers = {fi.short for fi, _c in sites}
        missing = need - have_callers
        if missing:
            # a caller may end the receiving side through a sibling entry point (sendonly wrapper): judged by effect, and then no
            # error value may be stored by it at all
            from ._chan import close_effects
            for fq in sorted(missing):
                cand = [f_ for f_ in repo.scan_funcs() if f_.short == fq]
                ce = close_effects(repo, cand[0]) if cand else []
                if ce and all(c["error"] is None for c in ce):
                    missing = missing - {fq}
        ob.require(not missing, f"_local_close is not called from {sorted(missing)} (the close handlers, the callback-failure arm and the epilogue must all reach it)")
        for fi, c in sites:
            e = arg(c, 1, "remoteerror")
            r = _is_remote_error_expr(repo, fi, e)
            ob.site(fi, c, "error argument of _local_close", arg=norm(e) if e is not None else None, kind={True: "RemoteError", None: "none", False: "other"}[r])
            if r is False:
                ob.violation(fi, c, f"_local_close receives `{norm(e)}` as error, which is not a RemoteError: waitclose()/receive() would `raise` a non-exception "
                                    "(TypeError) and, for a dropped channel, `.warn()` on it kills the receiver thread")
        # inside _local_close only the parameter flows to append / warn
        p = f_lclose.params()[2] if len(f_lclose.params()) > 2 else None
        for c in repo.calls_in(f_lclose):
            if callee_attr(c) == "append" and "_remoteerrors" in unparse(c.func) and unparse(c.args[0]) != p:
                ob.violation(f_lclose, c, "something else than the error parameter is stored in _remoteerrors")
            if callee_attr(c) == "warn" and unparse(c.func.value) != p:
                ob.violation(f_lclose, c, "warn() is called on something else than the error parameter")
        fcl = repo.func(f"{GB}.Channel.close")
        cfg = build_cfg(repo, fcl, Oracle(repo, fcl, precise=True))
        apps = cfg_nodes_with_call(cfg, lambda c: callee_attr(c) == "append" and "_remoteerrors" in unparse(c.func))
        for a in apps:
            f = Facts(repo, fcl, {})
            for (t, lab) in cfg.guards(a.id):
                if t.kind == "test":
                    f.assume(t.ast, lab == "true")
            ok = f.get("isinstance(error, RemoteError)") is True
            ob.site(fcl, a.ast, "close(): only RemoteError instances are stored", ok=ok)
            if not ok:
                ob.violation(fcl, a.ast, "Channel.close stores an error in _remoteerrors without the isinstance(error, RemoteError) guard")
        # every other append to _remoteerrors
        for fi in repo.scan_funcs():
            for c in repo.calls_in(fi):
                if callee_attr(c) == "append" and "_remoteerrors" in unparse(c.func) and fi.short not in ("Channel.close", "ChannelFactory._local_close"):
                    # (an inlined copy of the transition whose error argument is the constant None never gets there: ask the paths)
                    from ..terms import evaluator as _eva
                    try:
                        reached = any(e.kind == "call" and e.node is c for (_p, st_a) in _eva(repo, fi).run(limit=20000) for e in st_a.events)
                    except Exception:
                        reached = True
                    if reached:
                        ob.violation(fi, c, "_remoteerrors is appended to outside the two closed-transition implementations")

    f_lrecv = repo.func(f"{GB}.ChannelFactory._local_receive")
    with ctx.obligation("C07.b", "both-sides") as ob:
        hs = [h for n in repo.own_nodes(f_lrecv) if isinstance(n, ast.Try) for h in n.handlers if h.type is not None and unparse(h.type) == "Exception"]
        ob.require(len(hs) == 1, "callback failure handler (except Exception) not found in _local_receive")
        h = hs[0]
        # on value terms: on every path where the data callback raises, the text made from *that* exception is serialised and sent
        # as CHANNEL_CLOSE_ERROR on the same id, and the local side is closed with a RemoteError of the same text
        from ..terms import evaluator as _evb
        consts = repo.cls("Message").consts
        idp = f_lrecv.params()[1]
        IDT = ("sym", idp)
        from ._chan import entry_calls as _ecalls
        cb_nodes = {id(c_) for (c_, _o, what_) in _ecalls(repo, f_lrecv) if what_ == "item"}
        cb_call = lambda c: id(c) in cb_nodes or (isinstance(c.func, ast.Name) and c.func.id == "callback")  # noqa: E731
        evb = _evb(repo, f_lrecv, Oracle(repo, f_lrecv, precise=True, call_raises=lambda c, f: [("Exception", True)] if cb_call(c) else None))
        n_fail = 0
        txt_ok = ok_send = ok_local = True
        tv = None
        for (pth, st_) in evb.run(limit=20000):
            rz = [e for e in st_.events if e.kind == "call" and e.raised and isinstance(e.node, ast.Call) and cb_call(e.node)]
            if not rz:
                continue
            n_fail += 1
            after = st_.events[st_.events.index(rz[-1]):]
            texts = [e for e in after if e.kind == "call" and str(e.callee or e.attr or "").split(".")[-1] in ("_geterrortext", "geterrortext") and e.args and e.args[0][0] == "exc"]
            if not texts:
                txt_ok = ok_send = ok_local = False
                continue
            T = texts[-1].result
            tv = show(T)
            if any(t_[0] == "cmp" and t_[1] == "is" and T in (t_[2], t_[3]) and ("const", None) in (t_[2], t_[3]) and v_ is True for (t_, v_) in st_.cond):
                n_fail -= 1
                continue   # the error text is a str on every path (C07.m): "text is None" arms of a shared helper are not reachable from here
            dumps_ = [e for e in after if e.kind == "call" and str(e.callee or "").split(".")[-1] == "dumps_internal" and e.args[:1] == (T,)]
            sends = [e for e in after if e.kind == "call" and (e.attr == "_send" or str(e.callee or "").endswith("._send")) and e.args and e.args[0] == ("const", consts["CHANNEL_CLOSE_ERROR"])]
            if not (len(sends) == 1 and len(sends[0].args) >= 3 and sends[0].args[1] == IDT and any(sends[0].args[2] == d.result for d in dumps_)):
                ok_send = False
            lcs = [e for e in after if e.kind == "call" and (e.attr == "_local_close" or str(e.callee or "").endswith("._local_close"))]
            good = False
            for e in lcs:
                vals = list(e.args[1:]) + list(e.kwargs.values())
                if e.args[:1] == (IDT,) and any(v[0] == "fresh" and str(v[2]).endswith("RemoteError") for v in vals):
                    mk = [c_ for c_ in after if c_.kind == "call" and c_.result in vals and c_.args[:1] == (T,)]
                    good = good or bool(mk)
            if not good:
                ok_local = False
        ob.require(n_fail >= 1, "_local_receive: no path on which the data callback raises")
        ob.site(f_lrecv, h, "callback failure: peer gets CHANNEL_CLOSE_ERROR(text), local side closes with the error", text=tv, send=ok_send, local=ok_local, failing_paths=n_fail)
        if not txt_ok:
            ob.violation(f_lrecv, h, "the callback failure is not turned into an error text (type, message, traceback)")
        if not ok_send:
            ob.violation(f_lrecv, h, "a failing callback does not tell the peer (CHANNEL_CLOSE_ERROR with the error text on the same channel id)")
        if not ok_local:
            ob.violation(f_lrecv, h, "a failing callback does not close the failing side's own channel with the error")
        # the handler covers the callback invocation and the decoding
        cbs = [c for c in repo.calls_in(f_lrecv) if isinstance(c.func, ast.Name) and c.func.id == "callback"]
        for c in cbs:
            if not in_exception_handler_scope(repo, f_lrecv, c):
                ob.violation(f_lrecv, c, "the data callback is invoked outside the `except Exception` scope")

    fe = repo.func(f"{GB}.WorkerGateway.executetask")
    with ctx.obligation("C07.c", "exec-error-path") as ob:
        # on value terms: whenever the remote body (exec of the source / the call of the function) raises, the text made by
        # geterrortext from *that* exception is what channel.close() receives -- whatever locals carry it
        from ..terms import evaluator as _evx
        body_call = lambda c: isinstance(c.func, ast.Name) and c.func.id in ("exec", "function")  # noqa: E731
        orc = Oracle(repo, fe, precise=True, call_raises=lambda c, f: [("BaseException", True)] if body_call(c) else None)
        evx = _evx(repo, fe, orc)
        n_fail = 0
        ok = True
        FIN = "_channelfactory.finished"
        for (pth, st_) in evx.run(limit=20000):
            rz = [e for e in st_.events if e.kind == "call" and e.raised and isinstance(e.node, ast.Call) and body_call(e.node)]
            if not rz:
                continue
            if any(show(t).endswith(FIN) and v is True for (t, v) in st_.cond):
                continue  # the connection is gone: nobody to tell
            n_fail += 1
            after = st_.events[st_.events.index(rz[-1]):]
            texts = [e for e in after if e.kind == "call" and str(e.callee or e.attr or "").split(".")[-1] in ("_geterrortext", "geterrortext")
                     and e.args and e.args[0][0] == "exc"]
            closes = [e for e in after if e.kind == "call" and e.attr == "close" and e.recv is not None and e.args]
            if not texts or not any(c_.args == (t_.result,) for c_ in closes for t_ in texts):
                ok = False
        ok = ok and n_fail >= 2
        hs = [h for n in repo.own_nodes(fe) if isinstance(n, ast.Try) for h in n.handlers if h.type is not None and unparse(h.type) == "BaseException"]
        h = hs[0] if hs else fe.node
        ob.site(fe, h, "remote body exception -> geterrortext -> channel.close(text)", ok=ok, failing_paths=n_fail)
        if not ok:
            ob.violation(fe, h, "an exception of the remote body does not reach channel.close(<error text>): the initiator would see a clean close")
        # geterrortext builds type/message/traceback text
        fg = repo.func(f"{GB}.geterrortext")
        fmt = [c for c in repo.calls_in(fg) if isinstance(c.func, ast.Name) and c.func.id == "format_exception"]
        dflt = [unparse(d) for d in fg.node.args.defaults]
        ob.site(fg, fmt[0] if fmt else fg.node, "error text = traceback.format_exception(type, exc, tb)", defaults=dflt)
        from ..util import xtext as _xt7
        if not fmt or "traceback.format_exception" not in dflt or [_xt7(repo, fg, a) for a in fmt[0].args] != ["type(exc)", "exc", "exc.__traceback__"]:
            ob.violation(fg, fg.node, "geterrortext no longer formats exception type, message and traceback")
        # Channel.close(error): CLOSE_ERROR iff error is not None
        fcl = repo.func(f"{GB}.Channel.close")
        cfg = build_cfg(repo, fcl, Oracle(repo, fcl, precise=True))
        consts = repo.cls("Message").consts
        for nd in cfg.nodes:
            if nd.ast is None or nd.id not in cfg.live():
                continue
            for c in calls_in_node(nd):
                tg = isinstance(c.func, ast.Name) and c.func.id == "put" or callee_attr(c) == "_send"
                if not tg or not c.args:
                    continue
                from ..util import expand, guard_facts
                code = repo.fold_in(c.args[0], fcl)
                f = guard_facts(repo, fcl, cfg, nd.id)
                en = f.value_src("error is None")
                ob.site(fcl, c, f"close(): frame code {code} under error-is-None={en}")
                pl = expand(repo, fcl, c.args[2]) if len(c.args) > 2 else None
                if code == consts["CHANNEL_CLOSE_ERROR"]:
                    if en is not False or not (isinstance(pl, ast.Call) and callee_attr(pl) == "dumps_internal" and unparse(pl.args[0]) == "error") \
                            or unparse(c.args[1]) != "self.id":
                        ob.violation(fcl, c, "CHANNEL_CLOSE_ERROR is not sent exactly when an error is given, with the error as payload on the channel's own id")
                elif code == consts["CHANNEL_CLOSE"]:
                    if en is not True or unparse(c.args[1]) != "self.id":
                        ob.violation(fcl, c, "CHANNEL_CLOSE is sent although an error was given (the peer would see a clean close)")
                else:
                    ob.violation(fcl, c, f"Channel.close sends unexpected frame code {code!r}")
        # the receiving handler builds RemoteError(text)  (checked in C02.b as routing; here: the class carries the text)
        fre = repo.func(f"{GB}.RemoteError.__init__")
        if not any(isinstance(n, ast.Assign) and unparse(n.targets[0]) == "self.formatted" and unparse(n.value) == fre.params()[1] for n in repo.own_nodes(fre)):
            ob.violation(fre, fre.node, "RemoteError no longer carries the formatted remote text")

    with ctx.obligation("C07.d", "callbacks-contained") as ob:
        rc = receiver_context(repo)
        n = 0
        for fi, c, origin in callback_invocations(repo):
            in_rc = fi.qualname in rc
            if not in_rc:
                ob.note(f"{fi.short}: callback({norm(c.args[0]) if c.args else ''}) runs in the caller's thread (not receiver context)")
                continue
            n += 1
            ok = in_exception_handler_scope(repo, fi, c)
            ob.site(fi, c, f"user callback ({origin}) in receiver-thread context inside an `except Exception` scope", ok=ok)
            if not ok:
                ob.violation(fi, c, "a user callback is invoked uncontained in the receiver thread: one raising callback ends the receiver and with it every channel of the gateway")
        ob.require(n >= 2, f"{n} callback invocations in receiver context (floor 2)")

    with ctx.obligation("C07.f", "error-before-wakeup") as ob:
        # a receiver woken by ENDMARKER / _receiveclosed must already find the error stored
        for q in (f"{GB}.ChannelFactory._local_close", f"{GB}.Channel.close"):
            fi = repo.func(q)
            cf = build_cfg(repo, fi, Oracle(repo, fi, precise=True))
            apps = cfg_nodes_with_call(cf, lambda c: callee_attr(c) == "append" and "_remoteerrors" in unparse(c.func))
            wakes = cfg_nodes_with_call(cf, lambda c: (callee_attr(c) == "put" and c.args and unparse(c.args[0]) == "ENDMARKER")
                                        or (callee_attr(c) == "set" and "_receiveclosed" in unparse(c.func)))
            ob.require(len(apps) == 1 and len(wakes) >= 2, f"{fi.short}: error store / wake-up sites not found")
            for w in wakes:
                late = apps[0].id in cf.reach([w.id])
                ob.site(fi, w.ast, "wake-up of waiting receivers happens after the error was stored", ok=not late)
                if late:
                    ob.violation(fi, apps[0].ast, "the RemoteError is stored after the waiters were woken (ENDMARKER queued / _receiveclosed set): a blocked receive()/waitclose() "
                                                  "can see a plain EOF / clean close and the error surfaces late or never",
                                 construct=f"{fi.short}: error stored after {norm(w.ast)[:50]}")

    with ctx.obligation("C07.g", "error-text-decoding") as ob:
        # the error text of CHANNEL_CLOSE_ERROR is written with dumps_internal (fixed string settings) on every sending side:
        # the handler must decode it with the same internal settings, not with a gateway's/channel's reconfigurable ones
        from ._chan import message_registry as _mr
        from ..terms import State as _State, const as _c, evaluator as _ev
        regm = _mr(repo)
        code = repo.cls("Message").consts.get("CHANNEL_CLOSE_ERROR")
        ob.require(code in regm, "CHANNEL_CLOSE_ERROR has no registered handler")
        h = repo.func(regm[code][1].qualname)
        p0 = h.params()[0]
        init = _State()
        init.env[f"{p0}.msgcode"] = _c(code)
        evh = _ev(repo, h)
        nld = 0
        for (pth, st_) in evh.run(init=init, limit=2000):
            for e in st_.events:
                if e.kind == "call" and (e.callee or "").split(".")[-1] in ("loads_internal", "loads"):
                    nld += 1
                    ok = e.callee.endswith("loads_internal") and e.args == (("sym", f"{p0}.data"),) and not e.kwargs
                    ob.site(h, e.node, "error text decoded with the internal string settings", ok=ok)
                    if not ok:
                        ob.violation(h, e.node, "the error text of CHANNEL_CLOSE_ERROR is decoded with reconfigurable string settings: after reconfigure(py3str_as_py2str=True) it "
                                                "arrives as bytes, the receiver thread dies on it and the peer sees EOFError instead of RemoteError")
        ob.require(nld >= 1, "the CHANNEL_CLOSE_ERROR handler does not decode its payload")

    with ctx.obligation("C07.e", "after-items-once") as ob:
        fg = repo.func(f"{GB}.Channel._getremoteerror")
        from ..util import xtext as _xt
        pops = [c for c in repo.calls_in(fg) if callee_attr(c) in ("pop", "popleft") and "_remoteerrors" in _xt(repo, fg, c.func)]
        # FIFO consumption: list.pop(0), or deque.popleft() when the field is created as a deque
        fci = repo.func(f"{GB}.Channel.__init__")
        mk = [n.value for n in repo.own_nodes(fci) if isinstance(n, (ast.Assign, ast.AnnAssign)) and "_remoteerrors" in unparse(n.targets[0] if isinstance(n, ast.Assign) else n.target) and n.value is not None]
        is_deque = bool(mk) and isinstance(mk[0], ast.Call) and unparse(mk[0].func).split(".")[-1] == "deque"
        fifo = len(pops) == 1 and ((callee_attr(pops[0]) == "pop" and not is_deque and [repo.fold_in(a, fg) for a in pops[0].args] == [0])
                                   or (callee_attr(pops[0]) == "popleft" and is_deque and not pops[0].args))
        ob.site(fg, pops[0] if pops else fg.node, "stored error consumed oldest-first (pop(0) / deque.popleft())", deque=is_deque)
        if not fifo:
            ob.violation(fg, fg.node, "a stored RemoteError is not consumed with pop(0): it would be raised repeatedly or out of order")
        subs = [n for n in repo.own_nodes(fg) if isinstance(n, ast.Subscript) and "_remoteerrors" in _xt(repo, fg, n.value)]
        for s in subs:
            ob.violation(fg, s, "a stored RemoteError is read without being consumed")
        fr = repo.func(f"{GB}.Channel.receive")
        cfg = build_cfg(repo, fr, Oracle(repo, fr, precise=True))
        for nd in cfg.nodes:
            if nd.ast is not None and nd.id in cfg.live() and any(callee_attr(c) == "_getremoteerror" for c in calls_in_node(nd)):
                f = Facts(repo, fr, {})
                for (t, lab) in cfg.guards(nd.id):
                    if t.kind == "test":
                        f.assume(t.ast, lab == "true")
                got = [unparse(n.targets[0]) for n in repo.own_nodes(fr) if isinstance(n, ast.Assign) and isinstance(n.value, ast.Call) and callee_attr(n.value) == "get"]
                ok = any(f.get(f"{g} is ENDMARKER") is True for g in got)
                ob.site(fr, nd.ast, "receive() raises the error only when it meets ENDMARKER (after all earlier items)", ok=ok)
                if not ok:
                    ob.violation(fr, nd.ast, "receive() can raise the stored error before the queued items were delivered")
        fw = repo.func(f"{GB}.Channel.waitclose")
        cfgw = build_cfg(repo, fw, Oracle(repo, fw, precise=True))
        for nd in cfgw.nodes:
            if nd.ast is not None and nd.id in cfgw.live() and any(callee_attr(c) == "_getremoteerror" for c in calls_in_node(nd)):
                f = Facts(repo, fw, {})
                for (t, lab) in cfgw.guards(nd.id):
                    if t.kind == "test":
                        f.assume(t.ast, lab == "true")
                ok = f.get("self._receiveclosed.is_set()") is True
                ob.site(fw, nd.ast, "waitclose() consults the error only once _receiveclosed is set", ok=ok)
                if not ok:
                    ob.violation(fw, nd.ast, "waitclose() consumes the stored error although the channel has not been closed yet")
    # a failed callback is retired together with its channel: the closed transition unregisters on every path
    from .C03 import check_transition_complete
    check_transition_complete(ctx, "C07.h")

    # after the RemoteError was delivered the channel is at EOF for every later / other receiver: the marker goes back
    from .C03 import check_endmarker_requeue
    check_endmarker_requeue(ctx, "C07.i")
    check_callback_failure_closes(ctx, "C07.j")
    check_weak_lookup_guarded(ctx, "C07.k")

    # "the gateway connection itself stays up": a body raising KeyboardInterrupt/SystemExit on the worker's primary thread is absorbed by
    # the pool's Reply.run (BaseException), so it cannot unwind integrate_as_primary_thread and end serve()
    from ..report import borrow
    borrow(ctx, "C09", {"C09.e": "C07.l"})

    # a failure must be *reportable*: its text travels as strict UTF-8 (C01.k), so what `_geterrortext` returns must be encodable whatever
    # the exception's message holds (a lone surrogate from a surrogate-escaped file name, say) -- otherwise closing the channel with the
    # error raises in the worker, the channel is never closed and the peer waits forever instead of getting RemoteError
    with ctx.obligation("C07.m", "error-text-sendable") as ob:
        from ..terms import evaluator as _evm, show as _showm
        fin = repo.func(f"{GB}.BaseGateway.__init__")
        binds = [n for n in repo.own_nodes(fin) if isinstance(n, ast.Assign) and any(unparse(t) == "self._geterrortext" for t in n.targets)]
        ob.require(len(binds) == 1, "BaseGateway.__init__: binding of self._geterrortext not found")
        v = binds[0].value
        target = None
        if isinstance(v, ast.Name) and repo.has_func(f"{GB}.{v.id}"):
            target = repo.func(f"{GB}.{v.id}")
        elif isinstance(v, ast.Attribute) and unparse(v.value) == "self":
            m = repo.cls("BaseGateway").methods.get(v.attr)
            target = repo.func(m.qualname) if m is not None else None
        ob.require(target is not None, f"self._geterrortext is bound to `{norm(v)}`, which is not a function of gateway_base")
        LENIENT = {"backslashreplace", "replace", "ignore", "xmlcharrefreplace", "namereplace"}

        def sendable(t) -> bool:
            # <x>.encode(codec, lenient).decode(codec)
            if t is None or t[0] != "pcall" or not (isinstance(t[1], tuple) and t[1][0] == "meth" and t[1][2] == "decode"):
                return False
            inner = t[1][1]
            if inner[0] != "pcall" or not (isinstance(inner[1], tuple) and inner[1][0] == "meth" and inner[1][2] == "encode"):
                return False
            args = list(inner[2]) + [val for (_k, val) in (inner[3] or ())]
            return any(a[0] == "const" and a[1] in LENIENT for a in args)
        evm = _evm(repo, target)
        nret = 0
        for (pth, st) in evm.run(limit=4000):
            if pth[-1][0] != evm.cfg.exit.id:
                continue
            nret += 1
            ok = sendable(st.ret)
            if not ok:
                ob.violation(target, target.node, f"the error text of a remote failure is returned as `{_showm(st.ret)[:60] if st.ret else None}` without being made encodable: a message holding a "
                                                  "lone surrogate makes `channel.close(errortext)` raise in the worker, the channel stays open and the peer never gets RemoteError",
                             construct="error text not sanitised")
                break
        ob.site(target, target.node, "every error text is passed through encode(.., <lenient handler>).decode(..)", returning_paths=nret)
        ob.require(nret >= 1, f"{target.short}: no returning path")
