"""C17 RSync makes every target tree equal to the source, minimally (thin -> partial)."""

from __future__ import annotations

import ast

from ..cfg import Oracle, build_cfg
from ..index import AnalysisError, UNKNOWN, norm, unparse
from ..report import Ctx
from ..util import Facts, callee_attr, calls_in_node, cfg_nodes_with_call, feasible_paths

TAGS = {"send", "list_done", "ack", "links", "done"}


def check(ctx: Ctx) -> None:
    repo = ctx.repo
    ctx.decides = ("request tags and structure-message kinds agree between sender and receiver; (mode, mtime, size), the link triple and the "
                   "(relcomponents, checksum) request keep their roles on both sides; a regular file's chmod receives the transmitted mode unmodified; "
                   "relpath() is applied only to absolute link targets; deletion is guarded by the delete option; the regular-file decision table; "
                   "mode and mtime are applied to every listed file after the content step; each target gets the complete link list.")
    ctx.not_decided = "file-system outcomes over generated trees and prior target states."
    f_srv = repo.func("rsync_remote.serve_rsync")
    f_rds = repo.func("rsync_remote.serve_rsync.receive_directory_structure")
    f_send = repo.func("rsync.RSync.send")

    with ctx.obligation("C17.a", "tags") as ob:
        sent = {}
        for fi in (f_srv, f_rds):
            for c in repo.calls_in(fi):
                if callee_attr(c) == "send" and c.args and isinstance(c.args[0], ast.Tuple) and isinstance(c.args[0].elts[0], ast.Constant):
                    sent[c.args[0].elts[0].value] = (fi, c)
        handled = {}
        for x in repo.own_nodes(f_send):
            if isinstance(x, ast.Compare) and unparse(x.left) == "req[0]" and isinstance(x.ops[0], ast.Eq) and isinstance(x.comparators[0], ast.Constant):
                handled[x.comparators[0].value] = x
        ob.site(f_send, f_send.node, "request tags", sent=sorted(sent), handled=sorted(handled))
        for t in sorted(set(sent) - set(handled)):
            ob.violation(sent[t][0], sent[t][1], f"the receiver sends request tag {t!r}, which RSync.send does not dispatch: the request is silently dropped and the sync never completes")
        for t in sorted(set(handled) - set(sent)):
            ob.violation(f_send, handled[t], f"RSync.send dispatches tag {t!r}, which the receiver never sends")
        if set(sent) != TAGS:
            ob.violation(f_srv, f_srv.node, f"receiver tags {sorted(sent)} differ from the protocol's {sorted(TAGS)}", construct=f"tags {sorted(sent)}")
        # handlers of the tags
        want = {"links": "_process_link", "done": "_done", "list_done": "_list_done", "send": "_send_item"}
        cfg = build_cfg(repo, f_send, Oracle(repo, f_send, precise=True))
        for tag, meth in want.items():
            nodes = cfg_nodes_with_call(cfg, lambda c: callee_attr(c) == meth)
            ok = False
            for nd in nodes:
                f = Facts(repo, f_send, {})
                for (t, lab) in cfg.guards(nd.id):
                    if t.kind == "test":
                        f.assume(t.ast, lab == "true")
                if f.get(f"req[0] == '{tag}'") is True:
                    ok = True
            ob.site(f_send, nodes[0].ast if nodes else f_send.node, f"tag {tag!r} -> {meth}", ok=ok)
            if not ok:
                ob.violation(f_send, f_send.node, f"tag {tag!r} is not handled by {meth}", construct=f"{tag}->{meth}")
        # structure message kinds: list / tuple / None
        kinds = {"list": False, "tuple": False, "none": False}
        for q in ("rsync.RSync._send_directory", "rsync.RSync._send_directory_structure", "rsync.RSync._send_link_structure"):
            fi = repo.func(q)
            for c in repo.calls_in(fi):
                if callee_attr(c) == "_broadcast":
                    a = c.args[0]
                    if isinstance(a, ast.List):
                        kinds["list"] = True
                    elif isinstance(a, ast.Tuple):
                        kinds["tuple"] = True
                        if len(a.elts) != 3:
                            ob.violation(fi, c, "a file entry is not broadcast as a 3-tuple")
                    elif isinstance(a, ast.Constant) and a.value is None:
                        kinds["none"] = True
                    else:
                        ob.violation(fi, c, f"structure message of unknown kind: {norm(a)}")
        tests = [unparse(x.test) for x in repo.own_nodes(f_rds) if isinstance(x, ast.If)]
        ob.site(f_rds, f_rds.node, "structure kinds (list=dir, tuple=file, None=link)", sender=kinds, receiver_tests=[t for t in tests if "msg" in t][:3])
        if not all(kinds.values()) or "isinstance(msg, list)" not in tests or "msg is not None" not in tests:
            ob.violation(f_rds, f_rds.node, "sender and receiver disagree on the three structure-message kinds (list / tuple / None)")

    with ctx.obligation("C17.b", "stat-roles") as ob:
        fds = repo.func("rsync.RSync._send_directory_structure")
        tup = [c.args[0] for c in repo.calls_in(fds) if callee_attr(c) == "_broadcast" and isinstance(c.args[0], ast.Tuple) and "st." in unparse(c.args[0])]
        ob.require(len(tup) == 1, "sender's (mode, mtime, size) tuple not found")
        have = [unparse(e) for e in tup[0].elts]
        ob.site(fds, tup[0], "sender tuple", fields=have)
        if have != ["st.st_mode", "st.st_mtime", "st.st_size"]:
            ob.violation(fds, tup[0], f"the file entry is sent as {have}, not (st_mode, st_mtime, st_size)")
        un = [x for x in repo.own_nodes(f_rds) if isinstance(x, ast.Assign) and isinstance(x.targets[0], ast.Tuple) and unparse(x.value) == "msg"]
        ob.require(len(un) == 1 and len(un[0].targets[0].elts) == 3, "receiver's unpacking of the file entry not found")
        m, t, s = [unparse(e) for e in un[0].targets[0].elts]
        cmps = [unparse(x) for x in repo.own_nodes(f_rds) if isinstance(x, ast.Compare)]
        ob.site(f_rds, un[0], "receiver roles", names=[m, t, s])
        for name, fld in ((m, "st.st_mode"), (t, "st.st_mtime"), (s, "st.st_size")):
            if f"{name} != {fld}" not in cmps:
                ob.violation(f_rds, un[0], f"position of `{name}` is not compared with {fld}: the tuple roles of sender and receiver disagree")
        # second consumer: (mode, time, size) in the content loop
        loops = [x for x in repo.own_nodes(f_srv) if isinstance(x, ast.For) and "modifiedfiles" in unparse(x.iter)]
        ob.require(len(loops) == 1, "content loop over modifiedfiles not found")
        tgt = loops[0].target
        ok = isinstance(tgt, ast.Tuple) and isinstance(tgt.elts[1], ast.Tuple) and len(tgt.elts[1].elts) == 3
        if ok:
            mm, tt, _ss = [unparse(e) for e in tgt.elts[1].elts]
            calls = {unparse(c.func): c for s_ in loops[0].body for c in ast.walk(s_) if isinstance(c, ast.Call)}
            ch, ut = calls.get("os.chmod"), calls.get("os.utime")
            ok = ch is not None and ut is not None and unparse(ch.args[1]) == mm and unparse(ut.args[1]) == f"({tt}, {tt})"
        ob.site(f_srv, loops[0], "content loop applies transmitted mode and mtime", ok=ok)
        if not ok:
            ob.violation(f_srv, loops[0], "the content loop does not apply the transmitted (mode -> chmod, mtime -> utime) in their roles")
        ap = [c for c in repo.calls_in(f_rds) if callee_attr(c) == "append" and "modifiedfiles" in unparse(c.func)]
        if len(ap) != 1 or unparse(ap[0].args[0]) != "(path, msg)":
            ob.violation(f_rds, f_rds.node, "the (path, entry) pair is not recorded for the content step")
        # link triple
        fl = repo.func("rsync.RSync._send_link")
        lt = [c.args[0] for c in repo.calls_in(fl) if callee_attr(c) == "append" and isinstance(c.args[0], ast.Tuple)]
        un2 = [x for x in repo.own_nodes(f_srv) if isinstance(x, ast.Assign) and isinstance(x.targets[0], ast.Tuple) and len(x.targets[0].elts) == 3 and "msg" in unparse(x.value)]
        ok = len(lt) == 1 and [unparse(e) for e in lt[0].elts] == ["linktype", "basename", "linkpoint"] and len(un2) == 1 and [unparse(e) for e in un2[0].targets[0].elts] == ["_type", "relpath", "linkpoint"]
        ob.site(fl, lt[0] if lt else fl.node, "link triple (type, name relative to the tree, target)", ok=ok)
        if not ok:
            ob.violation(fl, fl.node, "the link triple (type, relative name, target) is built/unpacked in different roles")
        # the request ("send", (relcomponents, checksum)) -> _send_item(channel, req[1][0], req[1][1])
        rq = [c for c in repo.calls_in(f_rds) if callee_attr(c) == "send" and isinstance(c.args[0], ast.Tuple) and repo.fold_in(c.args[0].elts[0], f_rds) == "send"]
        si = [c for c in repo.calls_in(f_send) if callee_attr(c) == "_send_item"]
        ok = len(rq) == 1 and unparse(rq[0].args[0].elts[1]) == "(relcomponents, checksum)" and len(si) == 1 and [unparse(a) for a in si[0].args] == ["channel", "req[1][0]", "req[1][1]"]
        fsi = repo.func("rsync.RSync._send_item")
        ok = ok and fsi.params()[1:4] == ["channel", "modified_rel_path_components", "checksum"]
        ob.site(f_rds, rq[0] if rq else f_rds.node, "request (relcomponents, checksum) reaches _send_item in its roles", ok=ok)
        if not ok:
            ob.violation(f_rds, f_rds.node, "the content request's (path components, checksum) do not reach _send_item in their roles")

    with ctx.obligation("C17.c", "mode-exact") as ob:
        n = 0
        for fi in (f_srv, f_rds):
            for c in repo.calls_in(fi):
                if unparse(c.func) != "os.chmod":
                    continue
                n += 1
                in_dir = any(isinstance(a, ast.If) and unparse(a.test) == "isinstance(msg, list)" and any(c is y for s_ in a.body for y in ast.walk(s_)) for a in repo.ancestors(c))
                m = c.args[1]
                plain = isinstance(m, ast.Name)
                ob.site(fi, c, "chmod of a " + ("directory (| 0o700 intended: received trees must stay writable)" if in_dir else "regular file"), mode=unparse(m))
                if not in_dir and not plain:
                    ob.violation(fi, c, f"a regular file is chmod'ed with `{unparse(m)}` instead of the transmitted mode: permission bits differ from the source")
                if in_dir and not (plain or unparse(m) in ("mode | 0o700", "mode | 448")):
                    ob.violation(fi, c, f"directory mode `{unparse(m)}` is neither the transmitted mode nor mode | 0o700")
        ob.require(n >= 3, f"{n} chmod sites (floor 3)")

    with ctx.obligation("C17.d", "link-cwd") as ob:
        fls = repo.func("rsync.RSync._send_link_structure")
        cfg = build_cfg(repo, fls, Oracle(repo, fls, precise=True))
        rel = cfg_nodes_with_call(cfg, lambda c: unparse(c.func) == "os.path.relpath")
        ob.require(len(rel) == 1, "os.path.relpath call not found")
        c = [x for x in calls_in_node(rel[0]) if unparse(x.func) == "os.path.relpath"][0]
        p = unparse(c.args[0])
        f = Facts(repo, fls, {})
        for (t, lab) in cfg.guards(rel[0].id):
            if t.kind == "test":
                f.assume(t.ast, lab == "true")
        ok = f.get(f"os.path.isabs({p})") is True
        ob.site(fls, c, f"relpath({p}, ...) only for absolute link targets", ok=ok)
        if not ok:
            ob.violation(fls, c, f"os.path.relpath({p}, sourcedir) is evaluated for relative link targets: the result depends on the caller's working directory")
        rl = [x for x in repo.own_nodes(fls) if isinstance(x, ast.Assign) and unparse(x.targets[0]) == p]
        if not rl or unparse(rl[0].value) != "os.readlink(path)":
            ob.violation(fls, fls.node, "the link target is not what os.readlink returns")
        # classification: inside the tree -> linkbase + relative; else -> link + verbatim
        sl = [c2 for c2 in repo.calls_in(fls) if callee_attr(c2) == "_send_link"]
        args = sorted([unparse(a) for a in c2.args] for c2 in sl)
        ob.site(fls, sl[0] if sl else fls.node, "classification", calls=args)
        if args != sorted([["'linkbase'", "basename", "relpath"], ["'link'", "basename", p]]):
            ob.violation(fls, fls.node, "links are not classified as ('linkbase', name, path relative to the tree) / ('link', name, verbatim target)")
        # receiver side
        sy = [c2 for c2 in repo.calls_in(f_srv) if unparse(c2.func) == "os.symlink"]
        ok = len(sy) == 1 and [unparse(a) for a in sy[0].args] == ["src", "path"]
        srcs = sorted(unparse(x.value) for x in repo.own_nodes(f_srv) if isinstance(x, ast.Assign) and unparse(x.targets[0]) == "src")
        if not ok or srcs != ["linkpoint", "os.path.join(destdir, linkpoint)"]:
            ob.violation(f_srv, f_srv.node, "the receiver does not re-create links as destdir-relative ('linkbase') / verbatim ('link')")

    with ctx.obligation("C17.e", "delete-guard") as ob:
        cfg = build_cfg(repo, f_rds, Oracle(repo, f_rds, precise=True))
        rm = cfg_nodes_with_call(cfg, lambda c: isinstance(c.func, ast.Name) and c.func.id == "remove" and unparse(c.args[0]) == "otherpath")
        ob.require(len(rm) == 1, "removal of unlisted entries not found")
        f = Facts(repo, f_rds, {})
        for (t, lab) in cfg.guards(rm[0].id):
            if t.kind == "test":
                f.assume(t.ast, lab == "true")
        ok = f.get("options.get('delete')") is True and f.get("othername in entrynames") is False
        ob.site(f_rds, rm[0].ast, "unlisted entries removed only with delete=True", ok=ok)
        if not ok:
            ob.violation(f_rds, rm[0].ast, "entries that are not in the source are removed without the delete option (or listed entries are removed)")
        frm = repo.func("rsync_remote.serve_rsync.remove")
        if not any(isinstance(x, ast.Assert) and "startswith(destdir)" in unparse(x.test) for x in repo.own_nodes(frm)):
            ob.note("remove(): containment assert absent")

    with ctx.obligation("C17.f", "decision-table") as ob:
        cfg = build_cfg(repo, f_rds, Oracle(repo, f_rds, precise=True))
        base = Facts(repo, f_rds, {})
        for k, v in (("isinstance(msg, list)", False), ("msg is None", False), ("st", True), ("stat.S_ISREG(st.st_mode)", True), ("msg_mode", True)):
            base.set_atom(k, v)
        rows = {}
        for path, facts in feasible_paths(repo, f_rds, cfg, base, limit=4000, kill_on_store=False):
            if path[-1][0] != cfg.exit.id:
                continue
            size_ne, mtime_ne, mode_ne = facts.get("msg_size == st.st_size") is False, facts.get("msg_mtime == st.st_mtime") is False, facts.get("msg_mode == st.st_mode") is False
            req = any(cfg.nodes[n].ast is not None and any(callee_attr(c) == "send" for c in calls_in_node(cfg.nodes[n])) for n, _ in path)
            chk = any(isinstance(cfg.nodes[n].ast, ast.Assign) and unparse(cfg.nodes[n].ast.targets[0]) == "checksum" and "md5" in unparse(cfg.nodes[n].ast.value) for n, _ in path)
            chm = any(cfg.nodes[n].ast is not None and any(unparse(c.func) == "os.chmod" for c in calls_in_node(cfg.nodes[n])) for n, _ in path)
            case = "size" if size_ne else ("mtime" if mtime_ne else ("mode" if mode_ne else "same"))
            rows.setdefault(case, set()).add((req, chk, chm))
        want = {"size": {(True, False, False)}, "mtime": {(True, True, False)}, "mode": {(False, False, True)}, "same": {(False, False, False)}}
        for case in want:
            ob.site(f_rds, f_rds.node, f"existing regular file, first difference: {case}", outcome=sorted(rows.get(case, [])), expected="(request, checksum, chmod) = " + str(sorted(want[case])))
            if rows.get(case) != want[case]:
                ob.violation(f_rds, f_rds.node, f"decision table row `{case}` is {sorted(rows.get(case, []))}, expected (request, checksum, chmod) = {sorted(want[case])}",
                             construct=f"row {case}: {sorted(rows.get(case, []))}")
        # sender: None iff checksums match; receiver writes only non-None data
        fsi = repo.func("rsync.RSync._send_item")
        cond = [x for x in repo.own_nodes(fsi) if isinstance(x, ast.If) and "md5(data).digest()" in unparse(x.test)]
        ok = len(cond) == 1 and unparse(cond[0].test) == "checksum is not None and checksum == md5(data).digest()" and any(isinstance(s_, ast.Assign) and unparse(s_.targets[0]) == "data" and unparse(s_.value) == "None" for s_ in cond[0].body)
        ob.site(fsi, cond[0] if cond else fsi.node, "sender answers None iff the checksums match", ok=ok)
        if not ok:
            ob.violation(fsi, fsi.node, "the sender does not answer `None` exactly when the receiver's checksum equals the source's md5")
        snd = [c for c in repo.calls_in(fsi) if callee_attr(c) == "send" and unparse(c.func.value) == "channel"]
        if len(snd) != 1 or unparse(snd[0].args[0]) != "data":
            ob.violation(fsi, fsi.node, "_send_item does not answer each request with exactly one data item")
        loops = [x for x in repo.own_nodes(f_srv) if isinstance(x, ast.For) and "modifiedfiles" in unparse(x.iter)]
        wr = [x for x in ast.walk(loops[0]) if isinstance(x, ast.Call) and callee_attr(x) == "write"] if loops else []
        okw = False
        for w in wr:
            okw = any(isinstance(a, ast.If) and unparse(a.test) == "data is not None" for a in repo.ancestors(w))
        ob.site(f_srv, wr[0] if wr else f_srv.node, "receiver writes only non-None data", ok=okw)
        if not okw:
            ob.violation(f_srv, f_srv.node, "the receiver writes file content although the sender answered 'unchanged' (None)")

    with ctx.obligation("C17.g", "metadata-always") as ob:
        # mode and mtime are applied to every listed file after the content step, also when the content was unchanged
        loops = [x for x in repo.own_nodes(f_srv) if isinstance(x, ast.For) and "modifiedfiles" in unparse(x.iter)]
        ob.require(len(loops) == 1, "content loop not found")
        lp = loops[0]
        early = [x for s_ in lp.body for x in ast.walk(s_) if isinstance(x, (ast.Continue, ast.Break, ast.Return))]
        meta = [s_ for s_ in lp.body if any(isinstance(x, ast.Call) and unparse(x.func) in ("os.chmod", "os.utime") for x in ast.walk(s_))]
        cond_meta = [s_ for s_ in meta if isinstance(s_, ast.If)]
        ob.site(f_srv, lp, "chmod/utime unconditional in the content loop", early_exits=len(early))
        for e in early:
            ob.violation(f_srv, e, "an iteration of the content loop can be cut short before mode/mtime are applied: a file whose content was unchanged keeps a stale mtime/mode "
                                   "and is re-checksummed on every later sync")
        if not meta or cond_meta:
            ob.violation(f_srv, lp, "mode/mtime are not applied unconditionally to each listed file")
        rc = [c for s_ in lp.body for c in ast.walk(s_) if isinstance(c, ast.Call) and callee_attr(c) == "receive"]
        ak = [c for s_ in lp.body for c in ast.walk(s_) if isinstance(c, ast.Call) and callee_attr(c) == "send" and "ack" in unparse(c)]
        if len(rc) != 1 or len(ak) != 1:
            ob.violation(f_srv, lp, "each listed file does not take exactly one data item and send exactly one ack")

    with ctx.obligation("C17.h", "links-per-target") as ob:
        # _links is collected once and replayed to every target: it must not be consumed
        muts = []
        for fi in repo.cls("RSync").methods.values():
            for x in repo.own_nodes(fi):
                if isinstance(x, ast.Call) and isinstance(x.func, ast.Attribute) and unparse(x.func.value) == "self._links" and x.func.attr in ("pop", "clear", "remove"):
                    muts.append((fi, x))
                if isinstance(x, ast.Delete) and "self._links" in unparse(x):
                    muts.append((fi, x))
                if isinstance(x, ast.Assign) and fi.name != "__init__" and any("self._links" in unparse(t) for t in x.targets):
                    muts.append((fi, x))
        fpl = repo.func("rsync.RSync._process_link")
        ob.site(fpl, None, "the link list is only appended to while scanning and replayed unchanged to each target", consuming_sites=len(muts))
        for fi, x in muts:
            ob.violation(fi, x, "the shared link list is consumed/cleared: a target that asks for its links later receives none of them")
        loops = [x for x in repo.own_nodes(fpl) if isinstance(x, ast.For)]
        ok = len(loops) == 1 and unparse(loops[0].iter) == "self._links" and any(callee_attr(c) == "send" and unparse(c.args[0]) == unparse(loops[0].target) for c in repo.calls_in(fpl))
        marker = [c for c in repo.calls_in(fpl) if callee_attr(c) == "send" and repo.fold_in(c.args[0], fpl) == 42]
        if not ok or len(marker) != 1:
            ob.violation(fpl, fpl.node, "_process_link does not send every recorded link followed by the completion marker")
        # broadcast reaches every target
        fb = repo.func("rsync.RSync._broadcast")
        lb = [x for x in repo.own_nodes(fb) if isinstance(x, ast.For)]
        if len(lb) != 1 or unparse(lb[0].iter) != "self._channels" or not any(callee_attr(c) == "send" for c in repo.calls_in(fb)):
            ob.violation(fb, fb.node, "_broadcast does not send the structure message to every target channel")
